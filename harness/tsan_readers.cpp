// C20 runtime evidence: concurrent const access to ONE shared container under ThreadSanitizer.
//
//   tsan_readers <scenario|all> <readers 2..8> <writers 0..4> <seed> <iterations>
//
// For every scenario one container object is built by the main thread, then `readers` threads call const operations
// on that single object (through a const reference) without any synchronisation between them: size, empty,
// capacity, iteration (forward, reverse), operator[], at, front/back, data, find/contains/count/lower_bound/
// upper_bound/equal_range, ==, !=, <, <=, copy construction and copy assignment FROM it.  Each reader starts at its own
// offset (derived from seed and thread index) and accumulates an order-independent checksum that is compared with the
// one computed sequentially before the threads were started.  Meanwhile `writers` threads mutate containers of the same
// type that belong to them alone (distinct objects), also copying from the shared object.
//
// Built with clang++-14 -O1 -g -fsanitize=thread.  A data race makes TSan print a report and the process exit with
// 66 (TSAN_OPTIONS exitcode); a checksum mismatch exits with 3; bad usage 2.
//
// The harness itself is race-free by construction: threads are released by one atomic flag, every thread writes only
// its own slot of a result vector that was sized before the threads were created, and main reads the slots after join.
#ifndef AMC_NONSTD_FEATURES
#define AMC_NONSTD_FEATURES  // FlatSet::capacity / data / operator[] / at
#endif
#include <amc/fixedcapacityvector.hpp>
#include <amc/flatset.hpp>
#include <amc/smallset.hpp>
#include <amc/smallvector.hpp>
#include <amc/vector.hpp>

#include <atomic>
#include <cstdint>
#include <cstdio>
#include <cstdlib>
#include <cstring>
#include <functional>
#include <memory>
#include <set>
#include <string>
#include <thread>
#include <vector>

namespace {

using u64 = std::uint64_t;

inline u64 mix(u64 h, u64 v) {
  // commutative accumulation (order independent): sum of a strong mix of each contribution
  v += 0x9e3779b97f4a7c15ULL;
  v = (v ^ (v >> 30)) * 0xbf58476d1ce4e5b9ULL;
  v = (v ^ (v >> 27)) * 0x94d049bb133111ebULL;
  return h + (v ^ (v >> 31));
}

inline u64 val(int x) { return static_cast<u64>(static_cast<std::int64_t>(x)); }
inline u64 val(const std::string &s) { return std::hash<std::string>()(s) ^ s.size(); }

template <class T>
T make(int i);
template <>
int make<int>(int i) { return i * 3 + 1; }
template <>
std::string make<std::string>(int i) { return "element-number-" + std::to_string(i * 3 + 1) + "-long-enough-to-allocate"; }

struct Rng {
  u64 s;
  explicit Rng(u64 seed) : s(seed * 0x2545F4914F6CDD1DULL + 0x9e3779b97f4a7c15ULL) {}
  u64 next() { s ^= s << 13; s ^= s >> 7; s ^= s << 17; return s; }
  int below(int n) { return static_cast<int>(next() % static_cast<u64>(n)); }
};

std::atomic<int> g_go{0};

// ---- const operations on a vector-like container -------------------------------------------------------------------
template <class V>
u64 read_vector(const V &c, unsigned offset, int iters) {
  using T = typename V::value_type;
  u64 h = 0;
  const std::size_t n = c.size();
  for (int it = 0; it < iters; ++it) {
    h = mix(h, c.size());
    h = mix(h, c.empty() ? 1 : 2);
    h = mix(h, c.capacity() >= c.size() ? 5 : 7);
    h = mix(h, c.max_size() >= c.size() ? 11 : 13);
    if (n != 0) {
      h = mix(h, val(c.front()));
      h = mix(h, val(c.back()));
      h = mix(h, c.data() == &c[0] ? 17 : 19);
      for (std::size_t k = 0; k < n; ++k) {
        std::size_t i = (k + offset) % n;
        h = mix(h, val(c[static_cast<typename V::size_type>(i)]) * 31 + i);
        h = mix(h, val(c.at(static_cast<typename V::size_type>(i))));
      }
    }
    u64 fwd = 0, rev = 0;
    for (typename V::const_iterator p = c.begin(); p != c.end(); ++p) fwd += val(*p);
    for (typename V::const_reverse_iterator p = c.rbegin(); p != c.rend(); ++p) rev += val(*p);
    for (const T &x : c) fwd += val(x);
    h = mix(h, fwd);
    h = mix(h, rev);
    h = mix(h, static_cast<u64>(c.cend() - c.cbegin()));
    h = mix(h, (c == c) ? 23 : 29);
    h = mix(h, (c != c) ? 31 : 37);
    h = mix(h, (c < c) ? 41 : 43);
    h = mix(h, (c <= c) ? 47 : 53);
    V copy(c);  // copy construction from the shared object
    h = mix(h, copy.size());
    h = mix(h, (copy == c) ? 59 : 61);
    h = mix(h, (c < copy) ? 67 : 71);
    h = mix(h, (copy >= c) ? 73 : 79);
    if (!copy.empty()) {
      copy.pop_back();
      h = mix(h, (copy < c) ? 83 : 89);
      h = mix(h, (c > copy) ? 97 : 101);
    }
    V assigned;
    assigned = c;  // copy assignment from the shared object
    h = mix(h, assigned.size() + 1000);
    for (const T &x : assigned) h = mix(h, val(x) + 7);
  }
  return h;
}

template <class V>
void mutate_vector(V &mine, const V &shared, Rng &rng, int iters) {
  using T = typename V::value_type;
  for (int it = 0; it < iters * 4; ++it) {
    switch (rng.below(8)) {
      case 0:
      case 1:
        if (mine.size() < mine.max_size() && mine.size() < 40) mine.push_back(make<T>(rng.below(100)));
        break;
      case 2:
        if (!mine.empty()) mine.pop_back();
        break;
      case 3:
        if (mine.size() < mine.max_size() && mine.size() < 40)
          mine.insert(mine.begin() + rng.below(static_cast<int>(mine.size()) + 1), make<T>(rng.below(100)));
        break;
      case 4:
        if (!mine.empty()) mine.erase(mine.begin() + rng.below(static_cast<int>(mine.size())));
        break;
      case 5:
        mine = shared;  // reads the shared object
        break;
      case 6:
        mine.clear();
        mine.shrink_to_fit();
        break;
      default: {
        V other(shared);
        if (!other.empty()) other[0] = make<T>(rng.below(100));
        mine.swap(other);
        break;
      }
    }
  }
}

// ---- const operations on a set ----------------------------------------------------------------------------------------
template <class S, class T>
u64 read_set_common(const S &c, unsigned offset, int nkeys) {
  u64 h = 0;
  h = mix(h, c.size());
  h = mix(h, c.empty() ? 1 : 2);
  h = mix(h, c.max_size() >= c.size() ? 11 : 13);
  u64 fwd = 0, rev = 0;
  std::size_t cnt = 0;
  for (typename S::const_iterator p = c.begin(); p != c.end(); ++p) { fwd += val(*p); ++cnt; }
  for (typename S::const_reverse_iterator p = c.rbegin(); p != c.rend(); ++p) rev += val(*p);
  for (const T &x : c) fwd += val(x);
  for (typename S::const_iterator p = c.cbegin(); p != c.cend(); ++p) fwd += val(*p) * 3;
  h = mix(h, fwd);
  h = mix(h, rev);
  h = mix(h, cnt);
  for (int k = 0; k < nkeys; ++k) {
    int i = static_cast<int>((static_cast<unsigned>(k) + offset) % static_cast<unsigned>(nkeys));
    T key = make<T>(i);
    typename S::const_iterator f = c.find(key);
    h = mix(h, (f == c.end() ? 3 : 5 + val(*f)) + static_cast<u64>(i) * 1000003);
    h = mix(h, c.contains(key) ? 7 : 9);
    h = mix(h, c.count(key) + 100);
  }
  h = mix(h, (c == c) ? 23 : 29);
  h = mix(h, (c != c) ? 31 : 37);
  h = mix(h, (c < c) ? 41 : 43);
  h = mix(h, (c <= c) ? 47 : 53);
  S copy(c);  // copy construction from the shared object
  h = mix(h, copy.size());
  h = mix(h, (copy == c) ? 59 : 61);
  h = mix(h, (c < copy) ? 67 : 71);
  if (!copy.empty()) {
    copy.erase(copy.begin());
    h = mix(h, (copy < c) ? 83 : 89);
    h = mix(h, (c > copy) ? 97 : 101);
    h = mix(h, (copy == c) ? 103 : 107);
  }
  S assigned;
  assigned = c;  // copy assignment from the shared object
  h = mix(h, assigned.size() + 1000);
  return h;
}

template <class S>
u64 read_flatset(const S &c, unsigned offset, int iters, int nkeys) {
  using T = typename S::value_type;
  u64 h = 0;
  const std::size_t n = c.size();
  for (int it = 0; it < iters; ++it) {
    h = mix(h, read_set_common<S, T>(c, offset, nkeys));
    h = mix(h, c.capacity() >= c.size() ? 5 : 7);
    if (n != 0) {
      h = mix(h, val(c.front()));
      h = mix(h, val(c.back()));
      h = mix(h, c.data() == &c[0] ? 17 : 19);
      for (std::size_t k = 0; k < n; ++k) {
        std::size_t i = (k + offset) % n;
        h = mix(h, val(c[static_cast<typename S::size_type>(i)]) * 31 + i);
        h = mix(h, val(c.at(static_cast<typename S::size_type>(i))));
      }
    }
    for (int k = 0; k < nkeys; ++k) {
      int i = static_cast<int>((static_cast<unsigned>(k) + offset) % static_cast<unsigned>(nkeys));
      T key = make<T>(i);
      h = mix(h, static_cast<u64>(c.lower_bound(key) - c.begin()) + static_cast<u64>(i) * 7919);
      h = mix(h, static_cast<u64>(c.upper_bound(key) - c.begin()) + static_cast<u64>(i) * 104729);
      std::pair<typename S::const_iterator, typename S::const_iterator> er = c.equal_range(key);
      h = mix(h, static_cast<u64>(er.second - er.first) + 211);
    }
  }
  return h;
}

template <class S>
u64 read_smallset(const S &c, unsigned offset, int iters, int nkeys) {
  using T = typename S::value_type;
  u64 h = 0;
  for (int it = 0; it < iters; ++it) {
    h = mix(h, read_set_common<S, T>(c, offset, nkeys));
    // iterator copies and post-increment on the shared object's iterators
    typename S::const_iterator p = c.begin();
    u64 s = 0;
    while (p != c.end()) {
      typename S::const_iterator q = p++;
      s += val(*q) + (std::addressof(*q) != nullptr ? 1 : 0);
    }
    h = mix(h, s);
  }
  return h;
}

template <class S>
void mutate_set(S &mine, const S &shared, Rng &rng, int iters) {
  using T = typename S::value_type;
  for (int it = 0; it < iters * 4; ++it) {
    switch (rng.below(7)) {
      case 0:
      case 1:
      case 2:
        mine.insert(make<T>(rng.below(24)));
        break;
      case 3:
        mine.erase(make<T>(rng.below(24)));
        break;
      case 4:
        mine = shared;  // reads the shared object
        break;
      case 5:
        mine.clear();
        break;
      default: {
        S other(shared);
        other.insert(make<T>(100 + rng.below(10)));
        mine.swap(other);
        break;
      }
    }
  }
}

// ---- running one scenario -------------------------------------------------------------------------------------------
struct Params {
  int readers, writers, iters;
  u64 seed;
};

template <class C, class ReadFn, class MutFn>
int run_scenario(const char *name, const C &shared, ReadFn reader, MutFn mutator, const Params &p) {
  const u64 expected = reader(shared, 0u);  // sequential result, before any thread exists
  std::vector<u64> results(static_cast<std::size_t>(p.readers), 0);
  std::vector<u64> wresults(static_cast<std::size_t>(p.writers), 0);
  std::vector<std::thread> threads;
  g_go.store(0, std::memory_order_release);
  for (int t = 0; t < p.readers; ++t) {
    unsigned offset = static_cast<unsigned>((p.seed * 31 + static_cast<u64>(t) * 7 + 1) % 1000);
    u64 *slot = &results[static_cast<std::size_t>(t)];
    threads.emplace_back([&shared, reader, offset, slot]() {
      while (g_go.load(std::memory_order_acquire) == 0) {
      }
      *slot = reader(shared, offset);
    });
  }
  for (int t = 0; t < p.writers; ++t) {
    u64 *slot = &wresults[static_cast<std::size_t>(t)];
    u64 wseed = p.seed * 977 + static_cast<u64>(t) + 17;
    threads.emplace_back([&shared, mutator, wseed, slot]() {
      Rng rng(wseed);
      C mine;  // a distinct object, owned by this thread
      while (g_go.load(std::memory_order_acquire) == 0) {
      }
      mutator(mine, shared, rng);
      *slot = mine.size() + 1;
    });
  }
  g_go.store(1, std::memory_order_release);
  for (std::thread &th : threads) th.join();
  int bad = 0;
  for (int t = 0; t < p.readers; ++t) {
    if (results[static_cast<std::size_t>(t)] != expected) {
      std::printf("MISMATCH scenario=%s reader=%d got=%llx expected=%llx\n", name, t,
                  static_cast<unsigned long long>(results[static_cast<std::size_t>(t)]), static_cast<unsigned long long>(expected));
      ++bad;
    }
  }
  for (int t = 0; t < p.writers; ++t) {
    if (wresults[static_cast<std::size_t>(t)] == 0) {
      std::printf("MISMATCH scenario=%s writer=%d did not finish\n", name, t);
      ++bad;
    }
  }
  const u64 after = reader(shared, 0u);  // the shared object is unchanged
  if (after != expected) {
    std::printf("MISMATCH scenario=%s shared object changed: %llx -> %llx\n", name, static_cast<unsigned long long>(expected),
                static_cast<unsigned long long>(after));
    ++bad;
  }
  std::printf("%s scenario=%s readers=%d writers=%d size=%zu checksum=%llx\n", bad ? "FAIL" : "OK", name, p.readers, p.writers,
              static_cast<std::size_t>(shared.size()), static_cast<unsigned long long>(expected));
  return bad;
}

template <class V>
int vector_scenario(const char *name, int nelems, const Params &p) {
  using T = typename V::value_type;
  V built;
  for (int i = 0; i < nelems; ++i) built.push_back(make<T>((i * 7) % 23));
  const V &shared = built;
  int iters = p.iters;
  return run_scenario(
      name, shared, [iters](const V &c, unsigned off) { return read_vector(c, off, iters); },
      [iters](V &mine, const V &sh, Rng &rng) { mutate_vector(mine, sh, rng, iters); }, p);
}

template <class S>
int flatset_scenario(const char *name, int nelems, const Params &p) {
  using T = typename S::value_type;
  S built;
  for (int i = 0; i < nelems; ++i) built.insert(make<T>((i * 5) % 24));
  const S &shared = built;
  int iters = p.iters;
  return run_scenario(
      name, shared, [iters](const S &c, unsigned off) { return read_flatset(c, off, iters, 26); },
      [iters](S &mine, const S &sh, Rng &rng) { mutate_set(mine, sh, rng, iters); }, p);
}

template <class S>
int smallset_scenario(const char *name, int nelems, const Params &p) {
  using T = typename S::value_type;
  S built;
  for (int i = 0; i < nelems; ++i) built.insert(make<T>((i * 5) % 24));
  const S &shared = built;
  int iters = p.iters;
  return run_scenario(
      name, shared, [iters](const S &c, unsigned off) { return read_smallset(c, off, iters, 26); },
      [iters](S &mine, const S &sh, Rng &rng) { mutate_set(mine, sh, rng, iters); }, p);
}

using SmallSetFlat = amc::SmallSet<int, 4, std::less<int>, amc::allocator<int>, amc::FlatSet<int>>;

struct Scenario {
  const char *name;
  int (*fn)(const char *, const Params &);
};

const Scenario kScenarios[] = {
    {"vector", [](const char *n, const Params &p) { return vector_scenario<amc::vector<int>>(n, 17, p); }},
    {"vector_empty", [](const char *n, const Params &p) { return vector_scenario<amc::vector<int>>(n, 0, p); }},
    {"smallvector_inline", [](const char *n, const Params &p) { return vector_scenario<amc::SmallVector<int, 4>>(n, 3, p); }},
    {"smallvector_heap", [](const char *n, const Params &p) { return vector_scenario<amc::SmallVector<int, 4>>(n, 13, p); }},
    {"fixedcapacityvector", [](const char *n, const Params &p) { return vector_scenario<amc::FixedCapacityVector<int, 8>>(n, 6, p); }},
    {"vector_string", [](const char *n, const Params &p) { return vector_scenario<amc::vector<std::string>>(n, 9, p); }},
    {"smallvector_string_heap",
     [](const char *n, const Params &p) { return vector_scenario<amc::SmallVector<std::string, 2>>(n, 7, p); }},
    {"flatset", [](const char *n, const Params &p) { return flatset_scenario<amc::FlatSet<int>>(n, 15, p); }},
    {"flatset_string", [](const char *n, const Params &p) { return flatset_scenario<amc::FlatSet<std::string>>(n, 9, p); }},
    {"smallset_small", [](const char *n, const Params &p) { return smallset_scenario<amc::SmallSet<int, 4>>(n, 3, p); }},
    {"smallset_large", [](const char *n, const Params &p) { return smallset_scenario<amc::SmallSet<int, 4>>(n, 14, p); }},
    {"smallset_flat_small", [](const char *n, const Params &p) { return smallset_scenario<SmallSetFlat>(n, 4, p); }},
    {"smallset_flat_large", [](const char *n, const Params &p) { return smallset_scenario<SmallSetFlat>(n, 12, p); }},
    {"smallset_string_large",
     [](const char *n, const Params &p) { return smallset_scenario<amc::SmallSet<std::string, 3>>(n, 8, p); }},
};

}  // namespace

int main(int argc, char **argv) {
  if (argc < 6) {
    std::fprintf(stderr, "usage: %s <scenario|all|list> <readers 2..8> <writers 0..4> <seed> <iterations>\n", argv[0]);
    if (argc >= 2 && std::strcmp(argv[1], "list") == 0) {
      for (const Scenario &s : kScenarios) std::printf("%s\n", s.name);
      return 0;
    }
    return 2;
  }
  Params p;
  p.readers = std::atoi(argv[2]);
  p.writers = std::atoi(argv[3]);
  p.seed = std::strtoull(argv[4], nullptr, 10);
  p.iters = std::atoi(argv[5]);
  if (p.readers < 1 || p.readers > 16 || p.writers < 0 || p.writers > 8 || p.iters < 1) {
    std::fprintf(stderr, "bad parameters\n");
    return 2;
  }
  int bad = 0, ran = 0;
  for (const Scenario &s : kScenarios) {
    if (std::strcmp(argv[1], "all") == 0 || std::strcmp(argv[1], s.name) == 0) {
      bad += s.fn(s.name, p);
      ++ran;
    }
  }
  if (ran == 0) {
    std::fprintf(stderr, "unknown scenario %s\n", argv[1]);
    return 2;
  }
  std::printf("DONE scenarios=%d failures=%d\n", ran, bad);
  return bad ? 3 : 0;
}
