// Correspondence harness for the three vector flavours: executes a script (one operation per line) on the real
// containers from /repo/include, in-process, next to a std::vector oracle, and prints one canonical observation
// line per operation (same format as lean/Driver/VecDriver.lean).
//
// Configuration is compile time:
//   -DCFG_FL=0|1|2      0 = FixedCapacityVector, 1 = amc::vector, 2 = SmallVector
//   -DCFG_N=<n>         inline capacity
//   -DCFG_ST=<type>     size_type
//   -DCFG_CAT=0|1|2     0 = int, 1 = declared trivially relocatable, 2 = non relocatable (self-referential)
//   -DCFG_ALLOC=0|1     0 = amc::BasicAllocatorWrapper over an instrumented basic allocator (has reallocate),
//                       1 = std-like ledger allocator (no reallocate)
//                       2 = std-like ledger allocator with its own byte-copying reallocate (a user allocator)
#ifndef CFG_NO_EXTRAS
#define AMC_NONSTD_FEATURES
#endif
#include <amc/fixedcapacityvector.hpp>
#include <amc/smallvector.hpp>
#include <amc/vector.hpp>

#include <algorithm>
#include <iostream>
#include <iterator>
#include <sstream>

#include "elem.hpp"

using namespace vh;

#ifndef CFG_FL
#define CFG_FL 2
#endif
#ifndef CFG_N
#define CFG_N 4
#endif
#ifndef CFG_ST
#define CFG_ST uint8_t
#endif
#ifndef CFG_CAT
#define CFG_CAT 2
#endif
#ifndef CFG_ALLOC
#define CFG_ALLOC 0
#endif

#if CFG_CAT == 0
using Elem = int;
#elif CFG_CAT == 1
using Elem = ElemTR;
static_assert(amc::is_trivially_relocatable<Elem>::value, "TR");
#else
using Elem = ElemNTR;
static_assert(!amc::is_trivially_relocatable<Elem>::value, "NTR");
#endif

#if CFG_ALLOC == 0
using Alloc = amc::BasicAllocatorWrapper<Elem, InstrBasicAllocator>;
#elif CFG_ALLOC == 2
using Alloc = ReallocLedgerAllocator<Elem>;
#else
using Alloc = LedgerAllocator<Elem>;
#endif

#if CFG_FL == 0
using Vec = amc::FixedCapacityVector<Elem, CFG_N, amc::vec::ExceptionGrowingPolicy, CFG_ST>;
#elif CFG_FL == 1
using Vec = amc::vector<Elem, Alloc, CFG_ST>;
#else
using Vec = amc::SmallVector<Elem, CFG_N, Alloc, CFG_ST>;
#endif
using Ref = std::vector<int>;

// a reference to the value stored inside an element (an `int&` that aliases the element's storage)
static inline const int &innerRef(const int &e) { return e; }
template <bool S>
static inline const int &innerRef(const ElemBase<S> &e) {
  e.get();
  return e.val;
}

// optional partner vector type for swap2 (same element type, any flavour / N / size_type / allocator)
#ifdef CFG2_FL
#if CFG2_ALLOC == 0
using Alloc2 = amc::BasicAllocatorWrapper<Elem, InstrBasicAllocator>;
#elif CFG2_ALLOC == 2
using Alloc2 = ReallocLedgerAllocator<Elem>;
#else
using Alloc2 = LedgerAllocator<Elem>;
#endif
#if CFG2_FL == 0
using Vec2 = amc::FixedCapacityVector<Elem, CFG2_N, amc::vec::ExceptionGrowingPolicy, CFG2_ST>;
#elif CFG2_FL == 1
using Vec2 = amc::vector<Elem, Alloc2, CFG2_ST>;
#else
using Vec2 = amc::SmallVector<Elem, CFG2_N, Alloc2, CFG2_ST>;
#endif
#else
using Vec2 = Vec;
#endif

static const int kMaxPool = 6;
static int gPool = 3;
// every pool object has two possible homes, so that it can be relocated byte-wise (C14)
alignas(Vec) static unsigned char gStoreA[kMaxPool][sizeof(Vec)];
alignas(Vec) static unsigned char gStoreB[kMaxPool][sizeof(Vec)];
static unsigned char *gStore[kMaxPool] = {gStoreA[0], gStoreA[1], gStoreA[2], gStoreA[3], gStoreA[4], gStoreA[5]};
static Vec *V(int c) { return reinterpret_cast<Vec *>(gStore[c]); }
static bool relocateBytes(int c) {
  if (!amc::is_trivially_relocatable<Vec>::value) return false;
  unsigned char *from = gStore[c];
  unsigned char *to = from == gStoreA[c] ? gStoreB[c] : gStoreA[c];
  VH_UNPOISON(to, sizeof(Vec));
  std::memcpy(to, from, sizeof(Vec));
  std::memset(from, 0xAB, sizeof(Vec));  // the source is abandoned: a stale pointer into it reads garbage
  VH_POISON(from, sizeof(Vec));          // ... and under ASan any access to it is reported
  gStore[c] = to;
  return true;
}
static Ref gRef[kMaxPool];
static int gPool2 = 0;
alignas(Vec2) static unsigned char gStore2[kMaxPool][sizeof(Vec2)];
static Vec2 *W(int c) { return reinterpret_cast<Vec2 *>(gStore2[c]); }
static Ref gRef2[kMaxPool];

// single-pass input iterator over an array of elements
struct InIt {
  using iterator_category = std::input_iterator_tag;
  using value_type = Elem;
  using difference_type = std::ptrdiff_t;
  using pointer = const Elem *;
  using reference = const Elem &;
  const Elem *p;
  std::shared_ptr<const Elem *> furthest;  // enforces single pass: reading behind the furthest position is an error
  InIt(const Elem *q, std::shared_ptr<const Elem *> f) : p(q), furthest(std::move(f)) {}
  reference operator*() const {
    if (p < *furthest) G().fault("inputIteratorReRead");
    return *p;
  }
  InIt &operator++() {
    ++p;
    if (p > *furthest) *furthest = p;
    return *this;
  }
  InIt operator++(int) {
    InIt t = *this;
    ++*this;
    return t;
  }
  bool operator==(const InIt &o) const { return p == o.p; }
  bool operator!=(const InIt &o) const { return p != o.p; }
};

static std::vector<int> parseList(const std::string &t) {
  std::vector<int> r;
  if (t == "-") return r;
  std::stringstream ss(t);
  std::string item;
  while (std::getline(ss, item, ',')) r.push_back(std::atoi(item.c_str()));
  return r;
}

template <class VT>
static std::string showContT(VT &v) {
  std::ostringstream os;
  const char *b = reinterpret_cast<const char *>(&v);
  const char *d = reinterpret_cast<const char *>(v.data());
  bool inl = d >= b && d < b + sizeof(VT);
  os << (unsigned long long)v.size() << ":" << (unsigned long long)v.capacity() << ":" << (inl ? 1 : 0) << ":";
  for (size_t i = 0; i < (size_t)v.size(); ++i) {
    if (i) os << ",";
    os << showVal(v[static_cast<typename VT::size_type>(i)]);
  }
  return os.str();
}
static std::string showCont(int c) { return showContT(*V(c)); }

template <class VT>
static bool sameAsRefT(VT &v, const Ref &r) {
  if ((size_t)v.size() != r.size()) return false;
  if (v.empty() != r.empty()) return false;
  for (size_t i = 0; i < r.size(); ++i) {
    Elem &e = v[static_cast<typename VT::size_type>(i)];
#if CFG_CAT == 0
    if (e != r[i]) return false;
#else
    if (e.state() != 1 || e.val != r[i]) return false;
#endif
  }
  return true;
}

static long liveCount() { return (long)G().live.size(); }

static bool sameAsRef(int c) {
  Vec &v = *V(c);
  if ((size_t)v.size() != gRef[c].size()) return false;
  if (v.empty() != gRef[c].empty()) return false;
  for (size_t i = 0; i < gRef[c].size(); ++i) {
    Elem &e = v[static_cast<typename Vec::size_type>(i)];
#if CFG_CAT == 0
    if (e != gRef[c][i]) return false;
#else
    if (e.state() != 1 || e.val != gRef[c][i]) return false;
#endif
  }
  return true;
}

int main(int argc, char **argv) {
  std::ios::sync_with_stdio(false);
  std::string line;
  if (!std::getline(std::cin, line)) return 2;
  {
    std::stringstream ss(line);
    std::string tok;
    while (ss >> tok) {
      if (tok.rfind("pool=", 0) == 0) gPool = std::atoi(tok.c_str() + 5);
      if (tok.rfind("pool2=", 0) == 0) gPool2 = std::atoi(tok.c_str() + 6);
    }
    if (gPool > kMaxPool || gPool2 > kMaxPool) return 2;
  }
  for (int c = 0; c < gPool; ++c) new (gStore[c]) Vec();
  for (int c = 0; c < gPool2; ++c) new (gStore2[c]) Vec2();
  long n = 0;
  long armed = 0;
  while (std::getline(std::cin, line)) {
    std::stringstream ss(line);
    std::vector<std::string> t;
    std::string tok;
    while (ss >> tok) t.push_back(tok);
    if (t.empty()) continue;
    std::string res = "ok", ret = "-", oracle = "ok";
    auto N = [&](size_t i) -> long { return i < t.size() ? std::atol(t[i].c_str()) : 0; };
    auto T = [&](size_t i) -> std::string { return i < t.size() ? t[i] : std::string("-"); };
    G().ev.reset();
    const std::string &op = t[0];
    bool skip = false;
    if (op == "new") {
      for (int c = 0; c < gPool; ++c) {
        V(c)->~Vec();
        gRef[c].clear();
      }
      for (int c = 0; c < gPool2; ++c) {
        W(c)->~Vec2();
        gRef2[c].clear();
      }
      std::ostringstream os;
      os << "blocks=" << G().blocks.size() << ",live=" << (CFG_CAT == 0 ? 0 : liveCount());
      ret = os.str();
      // leaked blocks / objects are forgotten so that the next case starts clean
      for (auto &b : G().blocks) std::free(b.first);
      G().blocks.clear();
      G().live.clear();
      for (int c = 0; c < gPool; ++c) new (gStore[c]) Vec();
      for (int c = 0; c < gPool2; ++c) new (gStore2[c]) Vec2();
    } else if (op == "thr") {
      armed = N(1);
    } else if (op.size() > 1 && op.back() == '2' && op != "sw2") {
      // operations on the partner pool (used to set up swap2 operands): push2 apr2 rsv2 shr2 clr2 pop2
      int d = (int)N(1);
      Vec2 &w = *W(d);
      Ref &r2 = gRef2[d];
      typedef typename Vec2::size_type ST2;
      try {
#ifndef AMC_NONSTD_FEATURES
        if (true) {
          skip = true;
        } else
#endif
        if (op == "push2") {
          Elem e((int)N(2));
          w.push_back(e);
          r2.push_back((int)N(2));
        } else if (op == "apr2") {
          std::vector<int> vals = parseList(T(2));
          std::vector<Elem> src(vals.begin(), vals.end());
          w.insert(w.end(), src.data(), src.data() + src.size());
          r2.insert(r2.end(), vals.begin(), vals.end());
        } else if (op == "rsv2") {
          w.reserve((ST2)N(2));
        } else if (op == "shr2") {
          w.shrink_to_fit();
        } else if (op == "clr2") {
          w.clear();
          r2.clear();
        } else if (op == "pop2") {
          if (w.empty()) skip = true;
          else {
            w.pop_back();
            r2.pop_back();
          }
        } else {
          res = "bad-op";
        }
      } catch (const std::overflow_error &) {
        res = "exc:overflow";
      } catch (const std::out_of_range &) {
        res = "exc:range";
      }
      if (skip) res = "skip";
    } else if (op == "sw2") {
      // V(c).swap2(W(d)): both operands keep their contents when it throws
      int c = (int)N(1), d = (int)N(2);
      Ref a0 = gRef[c], b0 = gRef2[d];
      G().fuel = armed;
      try {
#ifdef AMC_NONSTD_FEATURES
        V(c)->swap2(*W(d));
        gRef[c].swap(gRef2[d]);
#else
        res = "skip";
#endif
      } catch (const std::overflow_error &) {
        res = "exc:overflow";
      } catch (const std::out_of_range &) {
        res = "exc:range";
      } catch (const AllocThrow &) {
        res = "exc:alloc";
      } catch (const std::bad_alloc &) {
        res = "exc:alloc";
      }
      G().fuel = 0;
      armed = 0;
      if (res != "ok") oracle = (sameAsRefT(*V(c), a0) && sameAsRefT(*W(d), b0)) ? "unchanged" : "changed";
    } else if (op == "thr_unused") {
      armed = N(1);
    } else {
      int c = (int)N(1);
      Vec &v = *V(c);
      Ref &r = gRef[c];
      size_t sz = (size_t)v.size();
      Ref before = r;
      typedef typename Vec::size_type ST;
      // a count that is enormous AND representable in the size type (no capacity error would be raised): not materialised
      // (same rule in the model driver)
      auto hugeOk = [&](ST k) {
        return (unsigned long long)k > 1000000ULL &&
               (unsigned long long)sz + (unsigned long long)k <= (unsigned long long)std::numeric_limits<ST>::max();
      };
      try {
        // arguments are built before the fault schedule is armed
        if ((op == "insn" && hugeOk((ST)N(3))) || ((op == "apn" || op == "apv") && hugeOk((ST)N(2)))) {
          skip = true;
        } else if (op == "push") {
          Elem e((int)N(2));
          G().fuel = armed;
          v.push_back(e);
          G().fuel = 0;
          r.push_back((int)N(2));
        } else if (op == "pushm") {
          Elem e((int)N(2));
          G().fuel = armed;
          v.push_back(std::move(e));
          G().fuel = 0;
          r.push_back((int)N(2));
        } else if (op == "pushs") {
          if (sz == 0) skip = true;
          else {
            size_t i = N(2) % sz;
            G().fuel = armed;
            v.push_back(v[(ST)i]);
            G().fuel = 0;
            r.push_back(Ref(r)[i]);
          }
        } else if (op == "emb") {
          G().fuel = armed;
          v.emplace_back((int)N(2));
          G().fuel = 0;
          r.emplace_back((int)N(2));
        } else if (op == "embs") {
          if (sz == 0) skip = true;
          else {
            size_t i = N(2) % sz;
            G().fuel = armed;
            v.emplace_back(v[(ST)i]);
            G().fuel = 0;
            r.emplace_back(Ref(r)[i]);
          }
        } else if (op == "ins" || op == "insm") {
          size_t p = N(2) % (sz + 1);
          Elem e((int)N(3));
          G().fuel = armed;
          auto it = op == "ins" ? v.insert(v.begin() + p, e) : v.insert(v.begin() + p, std::move(e));
          G().fuel = 0;
          ret = std::to_string(it - v.begin());
          auto rit = r.insert(r.begin() + p, (int)N(3));
          if (rit - r.begin() != it - v.begin()) oracle = "MISMATCH-ret";
        } else if (op == "inss") {
          if (sz == 0) skip = true;
          else {
            size_t p = N(2) % (sz + 1), i = N(3) % sz;
            G().fuel = armed;
            auto it = v.insert(v.begin() + p, v[(ST)i]);
            G().fuel = 0;
            ret = std::to_string(it - v.begin());
            r.insert(r.begin() + p, Ref(r)[i]);
          }
        } else if (op == "insn") {
          size_t p = N(2) % (sz + 1);
          Elem e((int)N(4));
          G().fuel = armed;
          auto it = v.insert(v.begin() + p, (ST)N(3), e);
          G().fuel = 0;
          ret = std::to_string(it - v.begin());
          r.insert(r.begin() + p, (size_t)N(3), (int)N(4));
        } else if (op == "insns") {
          if (sz == 0) skip = true;
          else {
            size_t p = N(2) % (sz + 1), i = N(4) % sz;
            G().fuel = armed;
            auto it = v.insert(v.begin() + p, (ST)N(3), v[(ST)i]);
            G().fuel = 0;
            ret = std::to_string(it - v.begin());
            r.insert(r.begin() + p, (size_t)N(3), Ref(r)[i]);
          }
        } else if (op == "insr" || op == "insri") {
          size_t p = N(2) % (sz + 1);
          std::vector<int> vals = parseList(T(3));
          std::vector<Elem> src(vals.begin(), vals.end());
          G().fuel = armed;
          typename Vec::iterator it;
          if (op == "insr") {
            it = v.insert(v.begin() + p, src.data(), src.data() + src.size());
          } else {
            auto f = std::make_shared<const Elem *>(src.data());
            it = v.insert(v.begin() + p, InIt(src.data(), f), InIt(src.data() + src.size(), f));
          }
          G().fuel = 0;
          ret = std::to_string(it - v.begin());
          r.insert(r.begin() + p, vals.begin(), vals.end());
        } else if (op == "emp") {
          size_t p = N(2) % (sz + 1);
          G().fuel = armed;
          auto it = v.emplace(v.begin() + p, (int)N(3));
          G().fuel = 0;
          ret = std::to_string(it - v.begin());
          r.emplace(r.begin() + p, (int)N(3));
        } else if (op == "emps") {
          if (sz == 0) skip = true;
          else {
            size_t p = N(2) % (sz + 1), i = N(3) % sz;
            G().fuel = armed;
            auto it = v.emplace(v.begin() + p, v[(ST)i]);
            G().fuel = 0;
            ret = std::to_string(it - v.begin());
            r.emplace(r.begin() + p, Ref(r)[i]);
          }
        } else if (op == "empa") {
          // emplace whose constructor argument is not a T but a reference INTO the element at index i (its value member)
          if (sz == 0) skip = true;
          else {
            size_t p = N(2) % (sz + 1), i = N(3) % sz;
            G().fuel = armed;
            auto it = v.emplace(v.begin() + p, innerRef(v[(ST)i]));
            G().fuel = 0;
            ret = std::to_string(it - v.begin());
            r.emplace(r.begin() + p, Ref(r)[i]);
          }
        } else if (op == "era") {
          if (sz == 0) skip = true;
          else {
            size_t p = N(2) % sz;
            auto it = v.erase(v.begin() + p);
            ret = std::to_string(it - v.begin());
            r.erase(r.begin() + p);
          }
        } else if (op == "eran") {
          size_t p = N(2) % (sz + 1);
          size_t q = p + N(3) % (sz - p + 1);
          auto it = v.erase(v.begin() + p, v.begin() + q);
          ret = std::to_string(it - v.begin());
          r.erase(r.begin() + p, r.begin() + q);
        } else if (op == "pop") {
          if (sz == 0) skip = true;
          else {
            v.pop_back();
            r.pop_back();
          }
        } else if (op == "popv") {
#ifdef AMC_NONSTD_FEATURES
          if (sz == 0) skip = true;
          else {
            {
              Elem e = v.pop_back_val();
              ret = std::to_string(valueOf(e));
            }
            if (ret != std::to_string(r.back())) oracle = "MISMATCH-ret";
            r.pop_back();
          }
#else
          skip = true;
#endif
        } else if (op == "clr") {
          v.clear();
          r.clear();
        } else if (op == "asn") {
          Elem e((int)N(3));
          G().fuel = armed;
          v.assign((ST)N(2), e);
          G().fuel = 0;
          r.assign((size_t)N(2), (int)N(3));
        } else if (op == "asns") {
          if (sz == 0) skip = true;
          else {
            size_t i = N(3) % sz;
            int val = r[i];
            G().fuel = armed;
            v.assign((ST)N(2), v[(ST)i]);
            G().fuel = 0;
            r.assign((size_t)N(2), val);
          }
        } else if (op == "asr" || op == "asri") {
          std::vector<int> vals = parseList(T(2));
          std::vector<Elem> src(vals.begin(), vals.end());
          G().fuel = armed;
          if (op == "asr") {
            v.assign(src.data(), src.data() + src.size());
          } else {
            auto f = std::make_shared<const Elem *>(src.data());
            v.assign(InIt(src.data(), f), InIt(src.data() + src.size(), f));
          }
          G().fuel = 0;
          r.assign(vals.begin(), vals.end());
        } else if (op == "rsz") {
          G().fuel = armed;
          v.resize((ST)N(2));
          G().fuel = 0;
          r.resize((size_t)N(2));
        } else if (op == "rszv") {
          Elem e((int)N(3));
          G().fuel = armed;
          v.resize((ST)N(2), e);
          G().fuel = 0;
          r.resize((size_t)N(2), (int)N(3));
        } else if (op == "rszs") {
          if (sz == 0) skip = true;
          else {
            size_t i = N(3) % sz;
            int val = r[i];
            G().fuel = armed;
            v.resize((ST)N(2), v[(ST)i]);
            G().fuel = 0;
            r.resize((size_t)N(2), val);
          }
        } else if (op == "rsv") {
          G().fuel = armed;
          v.reserve((ST)N(2));
          G().fuel = 0;
        } else if (op == "shr") {
          G().fuel = armed;
          v.shrink_to_fit();
          G().fuel = 0;
        } else if (op == "apr" || op == "apri") {
#ifdef AMC_NONSTD_FEATURES
          std::vector<int> vals = parseList(T(2));
          std::vector<Elem> src(vals.begin(), vals.end());
          G().fuel = armed;
          if (op == "apr") {
            v.append(src.data(), src.data() + src.size());
          } else {
            auto f = std::make_shared<const Elem *>(src.data());
            v.append(InIt(src.data(), f), InIt(src.data() + src.size(), f));
          }
          G().fuel = 0;
          r.insert(r.end(), vals.begin(), vals.end());
#else
          skip = true;
#endif
        } else if (op == "apn") {
#ifdef AMC_NONSTD_FEATURES
          G().fuel = armed;
          v.append((ST)N(2));
          G().fuel = 0;
          r.resize(r.size() + (size_t)N(2));
#else
          skip = true;
#endif
        } else if (op == "apv") {
#ifdef AMC_NONSTD_FEATURES
          Elem e((int)N(3));
          G().fuel = armed;
          v.append((ST)N(2), e);
          G().fuel = 0;
          r.insert(r.end(), (size_t)N(2), (int)N(3));
#else
          skip = true;
#endif
        } else if (op == "apvs") {
#ifdef AMC_NONSTD_FEATURES
          if (sz == 0) skip = true;
          else {
            size_t i = N(3) % sz;
            int val = r[i];
            G().fuel = armed;
            v.append((ST)N(2), v[(ST)i]);
            G().fuel = 0;
            r.insert(r.end(), (size_t)N(2), val);
          }
#else
          skip = true;
#endif
        } else if (op == "cpy") {
          int d = (int)N(2);
          G().fuel = armed;
          v = *V(d);
          G().fuel = 0;
          r = Ref(gRef[d]);
        } else if (op == "mov") {
          int d = (int)N(2);
          v = std::move(*V(d));
          if (c != d) {
            r = std::move(gRef[d]);
            gRef[d].clear();
            // a moved-from amc vector is left empty; std::vector too
          }
        } else if (op == "swp") {
          int d = (int)N(2);
          if (c == d) skip = true;
          else {
            v.swap(*V(d));
            r.swap(gRef[d]);
          }
        } else if (op == "cct") {
          int d = (int)N(2);
          if (c == d) skip = true;
          else {
            v.~Vec();
            r.clear();
            G().fuel = armed;
            try {
              new (gStore[c]) Vec(*V(d));
            } catch (...) {
              G().fuel = 0;
              new (gStore[c]) Vec();
              throw;
            }
            G().fuel = 0;
            r = gRef[d];
          }
        } else if (op == "mct") {
          int d = (int)N(2);
          if (c == d) skip = true;
          else {
            v.~Vec();
            new (gStore[c]) Vec(std::move(*V(d)));
            r = std::move(gRef[d]);
            gRef[d].clear();
          }
        } else if (op == "reloc") {
          // move the container object to another address by a raw byte copy, abandoning the source (only if it claims the trait)
          if (!relocateBytes(c)) skip = true;
        } else if (op == "at") {
          // the index is converted to size_type by the caller (at() takes a size_type): the oracle sees the converted value
          const size_t idx = (size_t)(ST)N(2);
          const Elem &e = v.at((ST)N(2));
          ret = std::to_string(valueOf(e));
          if (idx >= r.size() || r[idx] != valueOf(e)) oracle = "MISMATCH-ret";
        } else if (op == "cmp") {
          int d = (int)N(2);
          bool eq = v == *V(d), lt = v < *V(d);
          ret = std::string(eq ? "1" : "0") + (lt ? "1" : "0");
          if (eq != (r == gRef[d]) || lt != (r < gRef[d])) oracle = "MISMATCH-ret";
          if ((v != *V(d)) == eq || (v <= *V(d)) != (r <= gRef[d]) || (v > *V(d)) != (r > gRef[d]) ||
              (v >= *V(d)) != (r >= gRef[d]))
            oracle = "MISMATCH-cmp";
        } else {
          res = "bad-op";
        }
      } catch (const std::overflow_error &) {
        res = "exc:overflow";
      } catch (const std::out_of_range &) {
        res = "exc:range";
      } catch (const AllocThrow &) {
        res = "exc:alloc";
      } catch (const std::bad_alloc &) {
        res = "exc:alloc";
      } catch (const ElemThrow &) {
        res = "exc:elem";
      }
      G().fuel = 0;
      armed = 0;
      if (skip) res = "skip";
      if (res.rfind("exc:", 0) == 0) {
        // after an exception: is the container exactly as before? then resynchronise the oracle
        bool same = true;
        gRef[c] = before;
        same = sameAsRef(c);
        oracle = same ? "unchanged" : "changed";
        Vec &vv = *V(c);
        gRef[c].clear();
        for (size_t i = 0; i < (size_t)vv.size(); ++i) {
#if CFG_CAT == 0
          gRef[c].push_back(vv[(ST)i]);
#else
          gRef[c].push_back(vv[(ST)i].val);
#endif
        }
      } else {
        for (int k = 0; k < gPool; ++k)
          if (!sameAsRef(k) && oracle == "ok") oracle = "MISMATCH-c" + std::to_string(k);
      }
    }
    if (res == "ok" && oracle == "ok")
      for (int k = 0; k < gPool2; ++k)
        if (!sameAsRefT(*W(k), gRef2[k])) oracle = "MISMATCH-w" + std::to_string(k);
    std::cout << n << " " << res << " ret=" << ret;
    for (int c = 0; c < gPool; ++c) std::cout << " | " << showCont(c);
    for (int c = 0; c < gPool2; ++c) std::cout << " | " << showContT(*W(c));
    std::cout << " | al=" << G().ev.al << "," << G().ev.de << "," << G().ev.re << " blocks=" << G().blocks.size()
              << " live=";
    if (CFG_CAT == 0) std::cout << "-";
    else std::cout << liveCount();
    std::cout << " # oracle=" << oracle << " faults=" << faultsStr() << " ev=" << G().ev.cc << "," << G().ev.mc << ","
              << G().ev.ca << "," << G().ev.ma << "," << G().ev.dt << "," << G().ev.vi << "," << G().ev.ic << " maxsz=";
    // what max_size() itself reports (C07: size() <= capacity() <= max_size())
    for (int c = 0; c < gPool; ++c) std::cout << (c ? "," : "") << (unsigned long long)V(c)->max_size();
    for (int c = 0; c < gPool2; ++c) std::cout << "," << (unsigned long long)W(c)->max_size();
    std::cout << "\n";
    G().faults.clear();
    ++n;
  }
  for (int c = 0; c < gPool; ++c) V(c)->~Vec();
  for (int c = 0; c < gPool2; ++c) W(c)->~Vec2();
  return 0;
}
