// Instrumented element types, allocators and ledgers shared by the correspondence harnesses.
#pragma once
#if __cplusplus >= 202002L
#include <compare>
#endif
#include <cstdint>
#include <cstdio>
#include <cstdlib>
#include <cstring>
#include <map>
#include <new>
#include <set>
#include <stdexcept>
#include <string>
#include <type_traits>
#include <unordered_map>
#include <vector>

// manual ASan poisoning of abandoned storage (memcpy-relocation tests)
#if defined(__SANITIZE_ADDRESS__)
#include <sanitizer/asan_interface.h>
#define VH_POISON(p, n) ASAN_POISON_MEMORY_REGION((p), (n))
#define VH_UNPOISON(p, n) ASAN_UNPOISON_MEMORY_REGION((p), (n))
#elif defined(__has_feature)
#if __has_feature(address_sanitizer)
#include <sanitizer/asan_interface.h>
#define VH_POISON(p, n) ASAN_POISON_MEMORY_REGION((p), (n))
#define VH_UNPOISON(p, n) ASAN_UNPOISON_MEMORY_REGION((p), (n))
#endif
#endif
#ifndef VH_POISON
#define VH_POISON(p, n) ((void)0)
#define VH_UNPOISON(p, n) ((void)0)
#endif

namespace vh {

struct ElemThrow : std::exception {
  const char *what() const noexcept override { return "injected element exception"; }
};

/// what the instrumented allocators throw when a failure is injected: an allocator may throw any exception type, so the
/// containers must not rely on it being std::bad_alloc
struct AllocThrow : std::exception {
  const char *what() const noexcept override { return "injected allocator exception"; }
};

struct Counters {
  long cc = 0, mc = 0, ca = 0, ma = 0, dt = 0, vi = 0, ic = 0;
  long al = 0, de = 0, re = 0;
  void reset() { *this = Counters(); }
};

struct Globals {
  std::unordered_map<uint32_t, int> live;  // id -> 1 alive, 2 alive but moved-from
  std::vector<std::string> faults;
  uint32_t nextId = 1;
  long fuel = 0;  // 0: disabled; k: the k-th throwing event throws
  long fired = 0;
  Counters ev;
  std::map<void *, size_t> blocks;  // allocator ledger: pointer -> byte count
  long nullDealloc = 0;
  void fault(const std::string &f) {
    if (faults.size() < 8) faults.push_back(f);
  }
  bool tick() {
    if (fuel != 0 && --fuel == 0) {
      ++fired;
      return true;
    }
    return false;
  }
};
inline Globals &G() {
  static Globals g;
  return g;
}

// ---------------------------------------------------------------------------------------------------
// element with identity. SelfRef: the object stores its own address (non trivially relocatable type).
// DeclTR: the type declares `trivially_relocatable = std::true_type`.
// ---------------------------------------------------------------------------------------------------
template <bool SelfRef>
struct ElemBase {
  int val;
  uint32_t id;
  const void *self;

  bool okSelf() const {
    if (SelfRef && self != this) {
      G().fault("bitwiseNTR");
      return false;
    }
    return true;
  }
  // state of this object in the registry: 0 dead, 1 alive, 2 moved-from
  int state() const {
    auto it = G().live.find(id);
    return it == G().live.end() ? 0 : it->second;
  }
  void born(int v) {
    val = v;
    id = G().nextId++;
    self = this;
    G().live[id] = 1;
  }
  int readFrom(const ElemBase &o, const char *what) const {
    o.okSelf();
    int st = o.state();
    if (st == 0) G().fault(std::string("readDead:") + what);
    if (st == 2) G().fault(std::string("readHollow:") + what);
    return o.val;
  }

  ElemBase() {
    if (G().tick()) throw ElemThrow();
    born(0);
    ++G().ev.vi;
  }
  ElemBase(int v) {
    if (G().tick()) throw ElemThrow();
    born(v);
    ++G().ev.ic;
  }
  ElemBase(const ElemBase &o) {
    int v = readFrom(o, "cc");
    if (G().tick()) throw ElemThrow();
    born(v);
    ++G().ev.cc;
  }
  ElemBase(ElemBase &&o) noexcept {
    int v = readFrom(o, "mc");
    born(v);
    auto it = G().live.find(o.id);
    if (it != G().live.end()) it->second = 2;
    o.val = -777;  // a moved-from object does not keep its value
    ++G().ev.mc;
  }
  ElemBase &operator=(const ElemBase &o) {
    okSelf();
    if (state() == 0) G().fault("assignToDead:ca");
    int v = readFrom(o, "ca");
    if (G().tick()) throw ElemThrow();
    val = v;
    G().live[id] = 1;
    ++G().ev.ca;
    return *this;
  }
  ElemBase &operator=(ElemBase &&o) noexcept {
    okSelf();
    if (this == &o) {
      G().fault("selfMoveAssign");
      return *this;
    }
    if (state() == 0) G().fault("assignToDead:ma");
    int v = readFrom(o, "ma");
    val = v;
    G().live[id] = 1;
    auto it = G().live.find(o.id);
    if (it != G().live.end()) it->second = 2;
    o.val = -777;
    ++G().ev.ma;
    return *this;
  }
  ~ElemBase() {
    okSelf();
    auto it = G().live.find(id);
    if (it == G().live.end()) {
      G().fault("destroyDead");
    } else {
      G().live.erase(it);
    }
    ++G().ev.dt;
  }
  int get() const { return readFrom(*this, "get"); }
  bool operator==(const ElemBase &o) const { return get() == o.get(); }
  bool operator!=(const ElemBase &o) const { return !(*this == o); }
  bool operator<(const ElemBase &o) const { return get() < o.get(); }
#if __cplusplus >= 202002L
  auto operator<=>(const ElemBase &o) const { return get() <=> o.get(); }
#endif
};

struct ElemNTR : ElemBase<true> {
  using ElemBase<true>::ElemBase;
  ElemNTR() = default;
  ElemNTR(const ElemNTR &) = default;
  ElemNTR(ElemNTR &&) noexcept = default;
  ElemNTR &operator=(const ElemNTR &) = default;
  ElemNTR &operator=(ElemNTR &&) noexcept = default;
};
struct ElemTR : ElemBase<false> {
  using trivially_relocatable = std::true_type;
  using ElemBase<false>::ElemBase;
  ElemTR() = default;
  ElemTR(const ElemTR &) = default;
  ElemTR(ElemTR &&) noexcept = default;
  ElemTR &operator=(const ElemTR &) = default;
  ElemTR &operator=(ElemTR &&) noexcept = default;
};

inline int valueOf(int v) { return v; }
template <bool S>
inline int valueOf(const ElemBase<S> &e) {
  return e.get();
}
// value of an element that is only peeked at (no fault recorded twice)
inline std::string showVal(int v) { return std::to_string(v); }
template <bool S>
inline std::string showVal(const ElemBase<S> &e) {
  e.okSelf();
  int st = e.state();
  if (st == 0) {
    G().fault("visibleDead");
    return "D";
  }
  if (st == 2) {
    G().fault("visibleHollow");
    return "H";
  }
  return std::to_string(e.val);
}

// ---------------------------------------------------------------------------------------------------
// allocators with a pointer -> size ledger
// ---------------------------------------------------------------------------------------------------
inline void *ledgerAlloc(size_t bytes) {
  if (G().tick()) throw AllocThrow();
  void *p = std::malloc(bytes ? bytes : 1);
  if (!p) throw std::bad_alloc();
  G().blocks[p] = bytes;
  return p;
}
inline void ledgerFree(void *p, size_t bytes) {
  if (p == nullptr) {
    if (bytes != 0) G().fault("badDealloc:null");
    ++G().nullDealloc;
    return;
  }
  auto it = G().blocks.find(p);
  if (it == G().blocks.end()) {
    G().fault("badDealloc:unknown");
    return;
  }
  if (it->second != bytes) G().fault("badDealloc:size");
  G().blocks.erase(it);
  std::free(p);
}

/// "basic" allocator for amc::BasicAllocatorWrapper
struct InstrBasicAllocator {
  void *allocate(size_t n) {
    ++G().ev.al;
    return ledgerAlloc(n);
  }
  void *reallocate(void *p, size_t oldSz, size_t newSz) {
    ++G().ev.re;
    if (G().tick()) throw AllocThrow();
    if (p != nullptr) {
      auto it = G().blocks.find(p);
      if (it == G().blocks.end()) {
        G().fault("badRealloc:unknown");
      } else {
        if (it->second != oldSz) G().fault("badRealloc:size");
        G().blocks.erase(it);
      }
    } else if (oldSz != 0) {
      G().fault("badRealloc:null");
    }
    // always move the block so that stale pointers are caught by ASan
    void *q = std::malloc(newSz ? newSz : 1);
    if (!q) throw std::bad_alloc();
    if (p) {
      std::memcpy(q, p, oldSz < newSz ? oldSz : newSz);
      std::free(p);
    }
    G().blocks[q] = newSz;
    return q;
  }
  void deallocate(void *p, size_t n) {
    ++G().ev.de;
    ledgerFree(p, n);
  }
};

/// std-like allocator without `reallocate`, exact-size checking
template <class T>
struct LedgerAllocator {
  using value_type = T;
  using size_type = size_t;
  using difference_type = ptrdiff_t;
  using pointer = T *;
  using const_pointer = const T *;
  LedgerAllocator() = default;
  template <class U>
  LedgerAllocator(const LedgerAllocator<U> &) {}
  T *allocate(size_t n) {
    ++G().ev.al;
    return static_cast<T *>(ledgerAlloc(n * sizeof(T)));
  }
  void deallocate(T *p, size_t n) {
    ++G().ev.de;
    ledgerFree(p, n * sizeof(T));
  }
  template <class U>
  struct rebind {
    using other = LedgerAllocator<U>;
  };
  template <class U>
  bool operator==(const LedgerAllocator<U> &) const {
    return true;
  }
  template <class U>
  bool operator!=(const LedgerAllocator<U> &) const {
    return false;
  }
};

/// std-like allocator with its own realloc-style `reallocate` (moves the bytes): only legal for trivially relocatable types,
/// which is exactly what the containers must check before calling it
template <class T>
struct ReallocLedgerAllocator : LedgerAllocator<T> {
  using value_type = T;
  using size_type = size_t;
  using pointer = T *;
  ReallocLedgerAllocator() = default;
  template <class U>
  ReallocLedgerAllocator(const ReallocLedgerAllocator<U> &) {}
  T *reallocate(T *p, size_t oldCapa, size_t newCapa, size_t nConstructed) {
    ++G().ev.re;
    if (G().tick()) throw AllocThrow();
    if (nConstructed > oldCapa || nConstructed > newCapa) G().fault("badRealloc:live");
    if (p != nullptr) {
      auto it = G().blocks.find(p);
      if (it == G().blocks.end()) {
        G().fault("badRealloc:unknown");
      } else {
        if (it->second != oldCapa * sizeof(T)) G().fault("badRealloc:size");
        G().blocks.erase(it);
      }
    } else if (oldCapa != 0) {
      G().fault("badRealloc:null");
    }
    void *q = std::malloc(newCapa * sizeof(T) ? newCapa * sizeof(T) : 1);
    if (!q) throw std::bad_alloc();
    if (p) {
      std::memcpy(q, static_cast<void *>(p), (oldCapa < newCapa ? oldCapa : newCapa) * sizeof(T));
      std::free(p);
    }
    G().blocks[q] = newCapa * sizeof(T);
    return static_cast<T *>(q);
  }
  template <class U>
  struct rebind {
    using other = ReallocLedgerAllocator<U>;
  };
};

inline std::string faultsStr() {
  if (G().faults.empty()) return "-";
  std::string s;
  for (size_t i = 0; i < G().faults.size(); ++i) {
    if (i) s += ",";
    s += G().faults[i];
  }
  return s;
}

}  // namespace vh
