// C16: compile-time facts about the containers that must not depend on the language standard (noexcept specifications of swap /
// move construction / move assignment, the relocatability trait, trivial destructibility, object size) for element shapes that
// exercise the pre-C++17 emulations of the library (is_nothrow_swappable, conjunction, ...). One line per (container, element).
#include <cstdio>
#include <type_traits>
#include <utility>

#include <amc/fixedcapacityvector.hpp>
#include <amc/flatset.hpp>
#include <amc/smallvector.hpp>
#include <amc/vector.hpp>

struct Triv {
  int v;
};
struct NoexceptAll {  // user-provided noexcept moves, no own swap
  NoexceptAll();
  NoexceptAll(const NoexceptAll &);
  NoexceptAll(NoexceptAll &&) noexcept;
  NoexceptAll &operator=(const NoexceptAll &);
  NoexceptAll &operator=(NoexceptAll &&) noexcept;
  ~NoexceptAll();
  int v;
};
struct ThrowingSwap {  // noexcept moves, its own swap may throw
  ThrowingSwap();
  ThrowingSwap(const ThrowingSwap &);
  ThrowingSwap(ThrowingSwap &&) noexcept;
  ThrowingSwap &operator=(const ThrowingSwap &);
  ThrowingSwap &operator=(ThrowingSwap &&) noexcept;
  ~ThrowingSwap();
  friend void swap(ThrowingSwap &, ThrowingSwap &) noexcept(false);
  int v;
};
struct ThrowingMoveOwnSwap {  // moves may throw, its own swap does not
  ThrowingMoveOwnSwap();
  ThrowingMoveOwnSwap(const ThrowingMoveOwnSwap &);
  ThrowingMoveOwnSwap(ThrowingMoveOwnSwap &&) noexcept(false);
  ThrowingMoveOwnSwap &operator=(const ThrowingMoveOwnSwap &);
  ThrowingMoveOwnSwap &operator=(ThrowingMoveOwnSwap &&) noexcept(false);
  ~ThrowingMoveOwnSwap();
  friend void swap(ThrowingMoveOwnSwap &, ThrowingMoveOwnSwap &) noexcept;
  int v;
};
struct ThrowingMove {  // moves may throw, generic std::swap
  ThrowingMove();
  ThrowingMove(const ThrowingMove &);
  ThrowingMove(ThrowingMove &&) noexcept(false);
  ThrowingMove &operator=(const ThrowingMove &);
  ThrowingMove &operator=(ThrowingMove &&) noexcept(false);
  ~ThrowingMove();
  int v;
};
struct DeclaredTR {
  using trivially_relocatable = std::true_type;
  DeclaredTR();
  DeclaredTR(const DeclaredTR &);
  DeclaredTR(DeclaredTR &&) noexcept(false);
  DeclaredTR &operator=(const DeclaredTR &);
  DeclaredTR &operator=(DeclaredTR &&) noexcept(false);
  ~DeclaredTR();
  int v;
};
template <class T>
bool operator<(const T &, const T &);

template <class V>
static void line(const char *cont, const char *elem) {
  std::printf("%s<%s> swap=%d mctor=%d massign=%d tr=%d tdtor=%d size=%zu\n", cont, elem,
              (int)noexcept(std::declval<V &>().swap(std::declval<V &>())), (int)std::is_nothrow_move_constructible<V>::value,
              (int)std::is_nothrow_move_assignable<V>::value, (int)amc::is_trivially_relocatable<V>::value,
              (int)std::is_trivially_destructible<V>::value, sizeof(V));
}
template <class E>
static void elem(const char *name) {
  line<amc::vector<E>>("vector", name);
  line<amc::SmallVector<E, 4>>("SmallVector4", name);
  line<amc::FixedCapacityVector<E, 4>>("FixedCapacityVector4", name);
  line<amc::FlatSet<E>>("FlatSet", name);
}
int main() {
  elem<Triv>("Triv");
  elem<NoexceptAll>("NoexceptAll");
  elem<ThrowingSwap>("ThrowingSwap");
  elem<ThrowingMoveOwnSwap>("ThrowingMoveOwnSwap");
  elem<ThrowingMove>("ThrowingMove");
  elem<DeclaredTR>("DeclaredTR");
  return 0;
}
