// C09 / C17: swap, move construction and move assignment between vectors with INLINE storage of an element type whose move
// constructor may throw and which has its own noexcept swap. The exception must reach the caller (a wrong noexcept
// specification turns it into std::terminate), nothing may be leaked or destroyed twice, every visible slot must hold an
// object (possibly moved-from: with a throwing move nothing more can be promised), and both vectors must stay usable.
// One line per scenario; `TOTAL` line at the end. A crash / terminate leaves the scenario line without its verdict.
#include <sys/wait.h>
#include <unistd.h>

#include <cstdio>
#include <string>

#include "elem.hpp"
#include <amc/fixedcapacityvector.hpp>
#include <amc/smallvector.hpp>

using namespace vh;

struct ElemTM : ElemBase<true> {
  static ElemTM &gate(ElemTM &o) {
    if (G().tick()) throw ElemThrow();
    return o;
  }
  ElemTM(int v) : ElemBase<true>(v) {}
  ElemTM(const ElemTM &o) : ElemBase<true>(static_cast<const ElemBase<true> &>(o)) {}
  ElemTM(ElemTM &&o) noexcept(false) : ElemBase<true>(static_cast<ElemBase<true> &&>(gate(o))) {}
  ElemTM &operator=(const ElemTM &o) {
    ElemBase<true>::operator=(static_cast<const ElemBase<true> &>(o));
    return *this;
  }
  ElemTM &operator=(ElemTM &&o) noexcept(false) {
    gate(o);
    ElemBase<true>::operator=(static_cast<ElemBase<true> &&>(o));
    return *this;
  }
  // the type's own swap: exchanges the values in place, never throws
  friend void swap(ElemTM &a, ElemTM &b) noexcept {
    a.okSelf();
    b.okSelf();
    if (a.state() != 1 || b.state() != 1) G().fault("swapOfNonLive");
    int t = a.val;
    a.val = b.val;
    b.val = t;
  }
};
static_assert(!std::is_nothrow_move_constructible<ElemTM>::value, "the element's move constructor may throw");

template <class V>
static void fill(V &v, int n, int base) {
  for (int i = 0; i < n; ++i) v.push_back(ElemTM(base + i));
}

template <class V>
static std::string verdict(V &x, V *y, bool threw, long expectedObjects) {
  std::string bad;
  size_t visible = x.size() + (y ? y->size() : 0);
  for (auto &e : x)
    if (e.state() == 0) bad += " deadVisible";
  if (y)
    for (auto &e : *y)
      if (e.state() == 0) bad += " deadVisible";
  if (G().live.size() != visible) bad += " objects=" + std::to_string(G().live.size()) + "!=visible=" + std::to_string(visible);
  if (!threw && expectedObjects >= 0 && (long)visible != expectedObjects) bad += " lostOrDuplicated";
  for (auto &f : G().faults) bad += " " + f;
  return bad;
}

static long gScen = 0, gExc = 0, gBad = 0;

template <class V>
static void scenario(const char *name, const char *op, int a, int b, long k) {
  G().faults.clear();
  G().live.clear();
  G().fuel = 0;
  std::printf("%s %s a=%d b=%d k=%ld ->", name, op, a, b, k);
  std::fflush(stdout);
  std::string bad;
  bool threw = false;
  {
    V x, y;
    fill(x, a, 100);
    fill(y, b, 200);
    G().fuel = k;
    try {
      if (op[0] == 's') {
        x.swap(y);
        if (x.size() != (size_t)b || y.size() != (size_t)a) bad += " sizesNotExchanged";
      } else if (op[0] == 'a') {
        x = std::move(y);
      } else {
        V z(std::move(y));
        G().fuel = 0;
        bad += verdict(z, &x, false, -1);
        // z destroyed here; its objects leave the registry
      }
    } catch (const ElemThrow &) {
      threw = true;
    }
    G().fuel = 0;
    if (op[0] == 'c') {
      // after a (possibly failed) move construction: x untouched, y valid
      bad += verdict(x, &y, true, 0);
    } else {
      bad += verdict(x, &y, threw, op[0] == 's' ? a + b : -1);
    }
    // still usable
    try {
      x.clear();
      y.clear();
      x.push_back(ElemTM(1));
      y.push_back(ElemTM(2));
      if (x.size() != 1 || y.size() != 1) bad += " unusable";
    } catch (...) {
      bad += " unusableThrow";
    }
  }
  if (!G().live.empty()) bad += " leaked=" + std::to_string(G().live.size());
  for (auto &f : G().faults)
    if (bad.find(f) == std::string::npos) bad += " " + f;
  ++gScen;
  if (threw) ++gExc;
  if (!bad.empty()) ++gBad;
  std::printf(" %s%s%s\n", threw ? "exc" : "ok", bad.empty() ? "" : " VIOLATION", bad.c_str());
}

// every scenario runs in a child process, so that std::terminate / a sanitizer abort is the verdict of that scenario only
template <class V>
static void forked(const char *name, const char *op, int a, int b, long k) {
  std::fflush(stdout);
  pid_t pid = fork();
  if (pid == 0) {
    gBad = gExc = 0;
    scenario<V>(name, op, a, b, k);
    std::fflush(stdout);
    _exit(gBad ? 10 : (gExc ? 12 : 0));
  }
  int st = 0;
  waitpid(pid, &st, 0);
  ++gScen;
  if (WIFEXITED(st) && WEXITSTATUS(st) == 0) return;
  if (WIFEXITED(st) && WEXITSTATUS(st) == 12) {
    ++gExc;
    return;
  }
  ++gBad;
  if (!(WIFEXITED(st) && WEXITSTATUS(st) == 10)) {
    // no verdict was printed by the child
    if (WIFSIGNALED(st)) std::printf(" CRASH VIOLATION signal=%d\n", WTERMSIG(st));
    else std::printf(" CRASH VIOLATION exit=%d\n", WEXITSTATUS(st));
  }
}

template <class V>
static void all(const char *name, int maxSize) {
  const char *ops[] = {"swap", "assign", "construct"};
  for (const char *op : ops)
    for (int a = 0; a <= maxSize; ++a)
      for (int b = 0; b <= maxSize; ++b)
        for (long k = 1; k <= maxSize + 2; ++k) forked<V>(name, op, a, b, k);
}

int main(int argc, char **argv) {
  if (argc == 6) {
    // one scenario (replay): <name> <op> <a> <b> <k>
    std::string nm = argv[1];
    int a = std::atoi(argv[3]), b = std::atoi(argv[4]);
    long k = std::atol(argv[5]);
    if (nm == "fixed4") forked<amc::FixedCapacityVector<ElemTM, 4>>("fixed4", argv[2], a, b, k);
    else forked<amc::SmallVector<ElemTM, 3>>("small3", argv[2], a, b, k);
    std::printf("TOTAL scenarios=%ld exc=%ld violations=%ld\n", gScen, gExc, gBad);
    return gBad ? 1 : 0;
  }
  all<amc::FixedCapacityVector<ElemTM, 4>>("fixed4", 4);
  all<amc::SmallVector<ElemTM, 3>>("small3", 5);  // sizes 4 and 5 are heap-backed
  std::printf("TOTAL scenarios=%ld exc=%ld violations=%ld\n", gScen, gExc, gBad);
  return gBad ? 1 : 0;
}
