// C17 — static contract matrix. One translation unit = one shard of the matrix
//
//     element types C17_TYPES (category, size, alignment)  x  N in C17_NS  x  size types C17_STS
//
// and prints, one line per cell, the values the COMPILER decides: sizeof / alignof of the three vector flavours, the
// relocatability trait of element / pairs / containers, trivial destructibility, FixedCapacityVector's size_type,
// and the noexcept operator on move construction, move assignment and swap. Nothing is executed on the containers
// (no member function body is instantiated); the element types only declare their special members.
//
// The element type's own std traits (trivially copyable / destructible, nothrow move, nothrow swappable) are measured
// with <type_traits> only, never through an amc trait, so that the model's inputs do not depend on the code under test.
//
// Shard parameters (all optional, defaults give a tiny smoke shard; tools/props/C17.py generates the real ones):
//   -DC17_TYPES=X(cat,size,align)X(cat,size,align)...   cat = 0..7 (enum Cat below), size a multiple of align
//   -DC17_NS=0,1,2   -DC17_STS=1,2,4,8 (bytes of the explicit size types)   -DC17_SETS=0|1 (FlatSet / SmallSet fields)
// Compiles as C++11, 14, 17, 20 (SmallSet needs C++17: the trSs* fields print -1 before).
#include <amc/fixedcapacityvector.hpp>
#include <amc/flatset.hpp>
#include <amc/smallvector.hpp>
#include <amc/type_traits.hpp>
#include <amc/vector.hpp>
#if __cplusplus >= 201703L
#include <amc/smallset.hpp>
#endif

#include <cstdint>
#include <cstdio>
#include <functional>
#include <limits>
#include <set>
#include <type_traits>
#include <utility>

#ifndef C17_TYPES
#define C17_TYPES X(0, 1, 1) X(0, 3, 1) X(1, 8, 4) X(3, 9, 1) X(4, 16, 16)
#endif
#ifndef C17_NS
#define C17_NS 0, 1, 2, 3, 8, 9
#endif
#ifndef C17_STS
#define C17_STS 1, 4
#endif
#ifndef C17_SETS
#define C17_SETS 1
#endif

namespace sm {

// ------------------------------------------------------------------------------------------------------------
// element types: E<size, align, category>
// ------------------------------------------------------------------------------------------------------------
enum Cat {
  kTriv = 0,  // trivially copyable, no declaration
  kTR = 1,    // declares trivially_relocatable = std::true_type; user copy / throwing move; user destructor
  kNTR = 2,   // user copy constructor, noexcept moves, trivial destructor; not relocatable
  kThr = 3,   // throwing move constructor and move assignment, user destructor; not relocatable
  kOpt = 4,   // trivially copyable but declares trivially_relocatable = std::false_type (opted out)
  kOdd = 5,   // trivially copyable, declares trivially_relocatable = int (anything but std::true_type)
  kNMA = 6,   // noexcept move constructor, throwing move assignment, noexcept ADL swap; not relocatable
  kTCD = 7,   // trivially copyable and declares std::true_type
  kTMS = 8    // throwing move constructor and move assignment, noexcept ADL swap; not relocatable
};

template <unsigned S, unsigned A, int C>
struct E;

template <unsigned S, unsigned A>
struct alignas(A) E<S, A, kTriv> {
  unsigned char b[S];
};

template <unsigned S, unsigned A>
struct alignas(A) E<S, A, kTR> {
  using trivially_relocatable = std::true_type;
  E();
  E(const E &);
  E(E &&) noexcept(false);
  E &operator=(const E &);
  E &operator=(E &&) noexcept(false);
  ~E();
  unsigned char b[S];
};

template <unsigned S, unsigned A>
struct alignas(A) E<S, A, kNTR> {
  E();
  E(const E &) noexcept;
  E(E &&) noexcept;
  E &operator=(const E &) noexcept;
  E &operator=(E &&) noexcept;
  unsigned char b[S];
};

template <unsigned S, unsigned A>
struct alignas(A) E<S, A, kThr> {
  E();
  E(const E &);
  E(E &&) noexcept(false);
  E &operator=(const E &);
  E &operator=(E &&) noexcept(false);
  ~E();
  unsigned char b[S];
};

template <unsigned S, unsigned A>
struct alignas(A) E<S, A, kOpt> {
  using trivially_relocatable = std::false_type;
  unsigned char b[S];
};

template <unsigned S, unsigned A>
struct alignas(A) E<S, A, kOdd> {
  using trivially_relocatable = int;
  unsigned char b[S];
};

template <unsigned S, unsigned A>
struct alignas(A) E<S, A, kNMA> {
  E();
  E(const E &);
  E(E &&) noexcept;
  E &operator=(const E &);
  E &operator=(E &&) noexcept(false);
  ~E();
  friend void swap(E &, E &) noexcept {}
  unsigned char b[S];
};

template <unsigned S, unsigned A>
struct alignas(A) E<S, A, kTMS> {
  E();
  E(const E &);
  E(E &&) noexcept(false);
  E &operator=(const E &);
  E &operator=(E &&) noexcept(false);
  ~E();
  friend void swap(E &, E &) noexcept {}
  unsigned char b[S];
};

template <unsigned S, unsigned A>
struct alignas(A) E<S, A, kTCD> {
  using trivially_relocatable = std::true_type;
  unsigned char b[S];
};

template <unsigned S, unsigned A, int C>
bool operator<(const E<S, A, C> &, const E<S, A, C> &);

/// declaration code given by the CATEGORY (what the source text of the type says), not by any detection idiom:
/// 2 = no declaration, 1 = std::true_type, 0 = something else
constexpr int DeclOf(int cat) {
  return (cat == kTR || cat == kTCD) ? 1 : (cat == kOpt || cat == kOdd) ? 0 : 2;
}

/// a comparator that is not trivially copyable and declares nothing: not relocatable
template <class T>
struct NtrLess {
  NtrLess();
  NtrLess(const NtrLess &);
  NtrLess &operator=(const NtrLess &);
  bool operator()(const T &, const T &) const;
};

/// a partner type that is not relocatable
struct Ntr {
  Ntr();
  Ntr(const Ntr &);
  Ntr &operator=(const Ntr &);
  int v;
};

namespace swapdetail {
using std::swap;
template <class T>
struct NothrowSwappable : std::integral_constant<bool, noexcept(swap(std::declval<T &>(), std::declval<T &>()))> {};
}  // namespace swapdetail

// ------------------------------------------------------------------------------------------------------------
// output
// ------------------------------------------------------------------------------------------------------------
inline void Emit(const char *tag, const long long *v, unsigned n) {
  std::fputs(tag, stdout);
  for (unsigned i = 0; i < n; ++i) {
    std::printf(" %lld", v[i]);
  }
  std::fputc('\n', stdout);
}

template <class V>
struct Nx {
  static constexpr bool mc = noexcept(V(std::declval<V &&>()));
  static constexpr bool ma = noexcept(std::declval<V &>() = std::declval<V &&>());
  static constexpr bool sw = noexcept(std::declval<V &>().swap(std::declval<V &>()));
};

template <unsigned B>
struct UInt;
template <>
struct UInt<1> {
  using type = uint8_t;
};
template <>
struct UInt<2> {
  using type = uint16_t;
};
template <>
struct UInt<4> {
  using type = uint32_t;
};
template <>
struct UInt<8> {
  using type = uint64_t;
};

// SmallVector<T, N, Alloc, ST> exists iff N < max(ST) (static_assert in Vector); print -1 otherwise
template <class T, uintmax_t N, class ST, bool Valid>
struct SvFields {
  static void put(long long *v) {
    using V = amc::SmallVector<T, N, amc::allocator<T>, ST>;
    v[0] = sizeof(V);
    v[1] = alignof(V);
    v[2] = amc::is_trivially_relocatable<V>::value;
    v[3] = Nx<V>::mc;
    v[4] = Nx<V>::ma;
    v[5] = Nx<V>::sw;
    v[6] = sizeof(typename V::size_type);
  }
};
template <class T, uintmax_t N, class ST>
struct SvFields<T, N, ST, false> {
  static void put(long long *v) {
    for (int i = 0; i < 7; ++i) v[i] = -1;
  }
};

// FixedCapacityVector<T, N, G, ST> exists iff N <= max(ST)
template <class T, uintmax_t N, class ST, bool Valid>
struct FcvFields {
  static void put(long long *v) {
    using V = amc::FixedCapacityVector<T, N, amc::vec::ExceptionGrowingPolicy, ST>;
    v[0] = sizeof(V);
    v[1] = alignof(V);
    v[2] = amc::is_trivially_relocatable<V>::value;
    v[3] = std::is_trivially_destructible<V>::value;
    v[4] = Nx<V>::mc;
    v[5] = Nx<V>::ma;
    v[6] = Nx<V>::sw;
  }
};
template <class T, uintmax_t N, class ST>
struct FcvFields<T, N, ST, false> {
  static void put(long long *v) {
    for (int i = 0; i < 7; ++i) v[i] = -1;
  }
};

static const char *const kCellKeys =
    "H C cat s a N st szT alT vecS vecA trVec vecMC vecMA vecSW "
    "svS svA trSv svMC svMA svSW svST fcvS fcvA trFcv fcvTD fcvMC fcvMA fcvSW "
    "dfS dfA dfST dfTD dfTR";

/// one cell: element type T, inline capacity N, size type of SB bytes
template <int C, unsigned S, unsigned A, uintmax_t N, unsigned SB>
void Cell() {
  using T = E<S, A, C>;
  using ST = typename UInt<SB>::type;
  using Vec = amc::vector<T, amc::allocator<T>, ST>;
  using DefFcv = amc::FixedCapacityVector<T, N>;  // default growing policy, default (smallest) size type
  long long v[33];
  unsigned k = 0;
  v[k++] = C;
  v[k++] = S;
  v[k++] = A;
  v[k++] = static_cast<long long>(N);
  v[k++] = SB;
  v[k++] = sizeof(T);
  v[k++] = alignof(T);
  v[k++] = sizeof(Vec);
  v[k++] = alignof(Vec);
  v[k++] = amc::is_trivially_relocatable<Vec>::value;
  v[k++] = Nx<Vec>::mc;
  v[k++] = Nx<Vec>::ma;
  v[k++] = Nx<Vec>::sw;
  SvFields<T, N, ST, (N < static_cast<uintmax_t>(std::numeric_limits<ST>::max()))>::put(v + k);
  k += 7;
  FcvFields<T, N, ST, (N <= static_cast<uintmax_t>(std::numeric_limits<ST>::max()))>::put(v + k);
  k += 7;
  v[k++] = sizeof(DefFcv);
  v[k++] = alignof(DefFcv);
  v[k++] = sizeof(typename DefFcv::size_type);
  v[k++] = std::is_trivially_destructible<DefFcv>::value;
  v[k++] = amc::is_trivially_relocatable<DefFcv>::value;
  Emit("C", v, k);
}

static const char *const kElemKeys =
    "H E cat s a szT alT decl tc td nmc nma nsw trT trPairTI trPairIT trPairTT trPairTN trPairNest "
    "trFsVec trFsVecNC trFsSv trFsSvNC trFsFcv trSsStd trSsFs trSsFsNC trSsFsSv";

#if C17_SETS
template <class T>
struct SetFields {
  static void put(long long *v) {
    using Less = std::less<T>;
    using NC = NtrLess<T>;
    using A = amc::allocator<T>;
    using Vec = amc::vector<T, A>;
    using Sv = amc::SmallVector<T, 5, A>;
    using Fcv = amc::FixedCapacityVector<T, 5>;
    v[0] = amc::is_trivially_relocatable<amc::FlatSet<T, Less, A, Vec> >::value;
    v[1] = amc::is_trivially_relocatable<amc::FlatSet<T, NC, A, Vec> >::value;
    v[2] = amc::is_trivially_relocatable<amc::FlatSet<T, Less, A, Sv> >::value;
    v[3] = amc::is_trivially_relocatable<amc::FlatSet<T, NC, A, Sv> >::value;
    v[4] = amc::is_trivially_relocatable<amc::FlatSet<T, Less, amc::vec::EmptyAlloc, Fcv> >::value;
#if __cplusplus >= 201703L
    v[5] = amc::is_trivially_relocatable<amc::SmallSet<T, 5, Less, A, std::set<T, Less, A> > >::value;
    v[6] = amc::is_trivially_relocatable<amc::SmallSet<T, 5, Less, A, amc::FlatSet<T, Less, A, Vec> > >::value;
    v[7] = amc::is_trivially_relocatable<amc::SmallSet<T, 5, NC, A, amc::FlatSet<T, NC, A, Vec> > >::value;
    v[8] = amc::is_trivially_relocatable<amc::SmallSet<T, 5, Less, A, amc::FlatSet<T, Less, A, Sv> > >::value;
#else
    v[5] = v[6] = v[7] = v[8] = -1;
#endif
  }
};
#else
template <class T>
struct SetFields {
  static void put(long long *v) {
    for (int i = 0; i < 9; ++i) v[i] = -1;
  }
};
#endif

/// one element type: its own traits, pairs, sets
template <int C, unsigned S, unsigned A>
void Elem() {
  using T = E<S, A, C>;
  long long v[40];
  unsigned k = 0;
  v[k++] = C;
  v[k++] = S;
  v[k++] = A;
  v[k++] = sizeof(T);
  v[k++] = alignof(T);
  v[k++] = DeclOf(C);
  v[k++] = std::is_trivially_copyable<T>::value;
  v[k++] = std::is_trivially_destructible<T>::value;
  v[k++] = std::is_nothrow_move_constructible<T>::value;
  v[k++] = std::is_nothrow_move_assignable<T>::value;
  v[k++] = swapdetail::NothrowSwappable<T>::value;
  v[k++] = amc::is_trivially_relocatable<T>::value;
  v[k++] = amc::is_trivially_relocatable<std::pair<T, int> >::value;
  v[k++] = amc::is_trivially_relocatable<std::pair<int, T> >::value;
  v[k++] = amc::is_trivially_relocatable<std::pair<T, T> >::value;
  v[k++] = amc::is_trivially_relocatable<std::pair<T, Ntr> >::value;
  v[k++] = amc::is_trivially_relocatable<std::pair<std::pair<T, int>, T> >::value;
  SetFields<T>::put(v + k);
  k += 9;
  Emit("E", v, k);
}

// ------------------------------------------------------------------------------------------------------------
// iteration over the shard (C++11: pack expansion in a braced initializer)
// ------------------------------------------------------------------------------------------------------------
template <uintmax_t... Ns>
struct NList {};
template <unsigned... Bs>
struct BList {};

template <int C, unsigned S, unsigned A, uintmax_t N, unsigned... Bs>
void ForSts(BList<Bs...>) {
  int dummy[] = {0, (Cell<C, S, A, N, Bs>(), 0)...};
  (void)dummy;
}

template <int C, unsigned S, unsigned A, class Bl, uintmax_t... Ns>
void ForNs(NList<Ns...>, Bl bl) {
  int dummy[] = {0, (ForSts<C, S, A, Ns>(bl), 0)...};
  (void)dummy;
}

template <int C, unsigned S, unsigned A>
void Type() {
  static_assert(S % A == 0, "size must be a multiple of the alignment");
  Elem<C, S, A>();
  ForNs<C, S, A>(NList<C17_NS>(), BList<C17_STS>());
}

}  // namespace sm

int main() {
  std::printf("I std=%ld compiler=%s ptr=%u\n", static_cast<long>(__cplusplus),
#if defined(__clang__)
              "clang",
#else
              "gcc",
#endif
              static_cast<unsigned>(sizeof(void *)));
  std::puts(sm::kElemKeys);
  std::puts(sm::kCellKeys);
#define X(c, s, a) sm::Type<c, s, a>();
  C17_TYPES
#undef X
  std::puts("Z done");
  return 0;
}
