// C15 driver: runs every amc:: memory algorithm of <amc/memory.hpp> on fresh raw storage for
//   length 0..maxN  x  iterator category {ptr, ra, bidi, fwd, mv}  x  value category {int, pod, tr, ntr, ntrx}
//   x  throw index k (0 = no throw, k = the k-th throwing element operation throws)
// and prints one canonical observation line per case. Compiled four times (-std=c++11/14/17/20, -Wall
// -Werror=return-type, ASan+UBSan); the lines are diffed against the Lean model (Model/MemAlgo.lean, `Amc.*`).
// Where the standard library of that -std has the algorithm (or, for relocation / construct_at, the standard's own
// definition can be written down: move-construct + destroy / placement new) the same set-up is run through it and
// the observations are compared (field `std=`).
//
// usage: memalgo_harness <maxN> [<case key>|-] [trace]        (C++11 only: no generic lambdas, no if constexpr, no variable templates)
//
// line:  C15 <alg> T=<cat> it=<it> n=<n> k=<k> | exc=<0|1> adv=<-|a|a,b> dst=<slots> src=<slots> live=<delta> faults=<-|..> ;; std=<same|na|DIFF[..]> ev=<..>
// slots: n+1 comma separated tokens (slot n is a guard that must stay as it was): value of a live object, H for an
//        alive moved-from object, - for no object; for int/pod every slot prints its current value.
#include <amc/memory.hpp>

#include <cstddef>
#include <iterator>
#include <memory>
#include <set>
#include <string>
#include <type_traits>
#include <utility>

#include "elem.hpp"

using namespace vh;

#if __cplusplus >= 201703L
#define H17 1
#else
#define H17 0
#endif
#if __cplusplus >= 202002L
#define H20 1
#else
#define H20 0
#endif

// ---------------------------------------------------------------------------------------------------
// value categories
// ---------------------------------------------------------------------------------------------------
struct Pod {
  int a;
  char b;
};

/// not trivially relocatable, copy AND move construction may throw (consume fuel)
struct ElemNTRX : ElemBase<true> {
  static ElemBase<true> &&tk(ElemNTRX &o) {
    if (G().tick()) throw ElemThrow();
    return static_cast<ElemBase<true> &&>(o);
  }
  ElemNTRX() = default;
  ElemNTRX(int v) : ElemBase<true>(v) {}
  ElemNTRX(const ElemNTRX &) = default;
  ElemNTRX(ElemNTRX &&o) : ElemBase<true>(tk(o)) {}
  ElemNTRX &operator=(const ElemNTRX &) = default;
  ElemNTRX &operator=(ElemNTRX &&) = default;
};

static_assert(std::is_trivially_default_constructible<Pod>::value && std::is_trivial<Pod>::value, "pod");
static_assert(!std::is_trivially_copyable<ElemTR>::value && amc::is_trivially_relocatable<ElemTR>::value, "tr");
static_assert(!amc::is_trivially_relocatable<ElemNTR>::value && !amc::is_trivially_relocatable<ElemNTRX>::value, "ntr");
static_assert(std::is_nothrow_move_constructible<ElemNTR>::value && !std::is_nothrow_move_constructible<ElemNTRX>::value,
              "move noexcept");

template <class T>
struct IsElem : std::integral_constant<bool, std::is_base_of<ElemBase<true>, T>::value ||
                                                 std::is_base_of<ElemBase<false>, T>::value> {};

template <class T, bool E = IsElem<T>::value>
struct VT;

template <>
struct VT<int, false> {
  static const char *name() { return "int"; }
  static void fillRaw(void *p, size_t bytes) { std::memset(p, 0xFF, bytes); }
  static void make(int *p, int v) { *p = v; }
  static std::string render(const int *p, std::set<uint32_t> &) { return std::to_string(*p); }
  static long liveCount() { return 0; }
};
template <>
struct VT<Pod, false> {
  static const char *name() { return "pod"; }
  static void fillRaw(void *p, size_t bytes) { std::memset(p, 0xFF, bytes); }
  static void make(Pod *p, int v) {
    p->a = v;
    p->b = 'x';
  }
  static std::string render(const Pod *p, std::set<uint32_t> &) { return std::to_string(p->a); }
  static long liveCount() { return 0; }
};
template <class T>
struct ElemName;
template <>
struct ElemName<ElemTR> {
  static const char *name() { return "tr"; }
};
template <>
struct ElemName<ElemNTR> {
  static const char *name() { return "ntr"; }
};
template <>
struct ElemName<ElemNTRX> {
  static const char *name() { return "ntrx"; }
};
template <class T>
struct VT<T, true> {
  static const char *name() { return ElemName<T>::name(); }
  static void fillRaw(void *p, size_t bytes) { std::memset(p, 0, bytes); }  // id 0 is never alive
  static void make(T *p, int v) { ::new (static_cast<void *>(p)) T(v); }
  /// state of the slot from the registry of live ids; an id is owned by the first slot that shows it (a stale
  /// byte-wise duplicate left behind by a relocation is not an object)
  static std::string render(const T *p, std::set<uint32_t> &claimed) {
    uint32_t id = p->id;
    std::unordered_map<uint32_t, int>::const_iterator it = G().live.find(id);
    if (it == G().live.end()) return "-";
    if (!claimed.insert(id).second) return "-";
    p->okSelf();
    if (it->second == 2) return "H";
    return std::to_string(p->val);
  }
  static long liveCount() { return static_cast<long>(G().live.size()); }
};

// ---------------------------------------------------------------------------------------------------
// iterator categories
// ---------------------------------------------------------------------------------------------------
template <class T>
struct FwdIt {
  typedef std::forward_iterator_tag iterator_category;
  typedef T value_type;
  typedef std::ptrdiff_t difference_type;
  typedef T *pointer;
  typedef T &reference;
  T *p;
  FwdIt() : p(nullptr) {}
  explicit FwdIt(T *q) : p(q) {}
  reference operator*() const { return *p; }
  pointer operator->() const { return p; }
  FwdIt &operator++() {
    ++p;
    return *this;
  }
  FwdIt operator++(int) {
    FwdIt t(*this);
    ++p;
    return t;
  }
  bool operator==(const FwdIt &o) const { return p == o.p; }
  bool operator!=(const FwdIt &o) const { return p != o.p; }
  T *base() const { return p; }
};
template <class T>
struct BidiIt {
  typedef std::bidirectional_iterator_tag iterator_category;
  typedef T value_type;
  typedef std::ptrdiff_t difference_type;
  typedef T *pointer;
  typedef T &reference;
  T *p;
  BidiIt() : p(nullptr) {}
  explicit BidiIt(T *q) : p(q) {}
  reference operator*() const { return *p; }
  pointer operator->() const { return p; }
  BidiIt &operator++() {
    ++p;
    return *this;
  }
  BidiIt operator++(int) {
    BidiIt t(*this);
    ++p;
    return t;
  }
  BidiIt &operator--() {
    --p;
    return *this;
  }
  BidiIt operator--(int) {
    BidiIt t(*this);
    --p;
    return t;
  }
  bool operator==(const BidiIt &o) const { return p == o.p; }
  bool operator!=(const BidiIt &o) const { return p != o.p; }
  T *base() const { return p; }
};
template <class T>
struct RaIt {
  typedef std::random_access_iterator_tag iterator_category;
  typedef T value_type;
  typedef std::ptrdiff_t difference_type;
  typedef T *pointer;
  typedef T &reference;
  T *p;
  RaIt() : p(nullptr) {}
  explicit RaIt(T *q) : p(q) {}
  reference operator*() const { return *p; }
  pointer operator->() const { return p; }
  reference operator[](difference_type i) const { return p[i]; }
  RaIt &operator++() {
    ++p;
    return *this;
  }
  RaIt operator++(int) {
    RaIt t(*this);
    ++p;
    return t;
  }
  RaIt &operator--() {
    --p;
    return *this;
  }
  RaIt operator--(int) {
    RaIt t(*this);
    --p;
    return t;
  }
  RaIt &operator+=(difference_type d) {
    p += d;
    return *this;
  }
  RaIt &operator-=(difference_type d) {
    p -= d;
    return *this;
  }
  friend RaIt operator+(RaIt a, difference_type d) { return RaIt(a.p + d); }
  friend RaIt operator+(difference_type d, RaIt a) { return RaIt(a.p + d); }
  friend RaIt operator-(RaIt a, difference_type d) { return RaIt(a.p - d); }
  friend difference_type operator-(const RaIt &a, const RaIt &b) { return a.p - b.p; }
  bool operator==(const RaIt &o) const { return p == o.p; }
  bool operator!=(const RaIt &o) const { return p != o.p; }
  bool operator<(const RaIt &o) const { return p < o.p; }
  bool operator>(const RaIt &o) const { return p > o.p; }
  bool operator<=(const RaIt &o) const { return p <= o.p; }
  bool operator>=(const RaIt &o) const { return p >= o.p; }
  T *base() const { return p; }
};

template <class T>
T *baseOf(T *p) {
  return p;
}
template <class T>
T *baseOf(const FwdIt<T> &i) {
  return i.base();
}
template <class T>
T *baseOf(const BidiIt<T> &i) {
  return i.base();
}
template <class T>
T *baseOf(const RaIt<T> &i) {
  return i.base();
}
template <class T>
T *baseOf(const std::move_iterator<T *> &i) {
  return i.base();
}

/// random-access iterator that walks an array BACKWARDS (like std::reverse_iterator<T*>): random access but not contiguous in increasing
/// address order, so a memcpy/memmove of `n * sizeof(T)` bytes starting at `&*first` is wrong for it. `gBase`/`gCnt` describe the array the
/// current case runs on, so that a physical pointer can be mapped to the logical position and back.
template <class T>
struct RevRaIt {
  typedef std::random_access_iterator_tag iterator_category;
  typedef typename std::remove_cv<T>::type value_type;
  typedef std::ptrdiff_t difference_type;
  typedef T *pointer;
  typedef T &reference;
  static T *gBase;
  static int gCnt;
  T *p;
  RevRaIt() : p(nullptr) {}
  explicit RevRaIt(T *q) : p(q) {}
  reference operator*() const { return *p; }
  pointer operator->() const { return p; }
  reference operator[](difference_type d) const { return *(p - d); }
  RevRaIt &operator++() { --p; return *this; }
  RevRaIt operator++(int) { RevRaIt t(*this); --p; return t; }
  RevRaIt &operator--() { ++p; return *this; }
  RevRaIt operator--(int) { RevRaIt t(*this); ++p; return t; }
  RevRaIt &operator+=(difference_type d) { p -= d; return *this; }
  RevRaIt &operator-=(difference_type d) { p += d; return *this; }
  friend RevRaIt operator+(RevRaIt a, difference_type d) { return RevRaIt(a.p - d); }
  friend RevRaIt operator+(difference_type d, RevRaIt a) { return RevRaIt(a.p - d); }
  friend RevRaIt operator-(RevRaIt a, difference_type d) { return RevRaIt(a.p + d); }
  friend difference_type operator-(const RevRaIt &a, const RevRaIt &b) { return b.p - a.p; }
  bool operator==(const RevRaIt &o) const { return p == o.p; }
  bool operator!=(const RevRaIt &o) const { return p != o.p; }
  bool operator<(const RevRaIt &o) const { return p > o.p; }
  bool operator>(const RevRaIt &o) const { return p < o.p; }
  bool operator<=(const RevRaIt &o) const { return p >= o.p; }
  bool operator>=(const RevRaIt &o) const { return p <= o.p; }
};
template <class T>
T *RevRaIt<T>::gBase = nullptr;
template <class T>
int RevRaIt<T>::gCnt = 0;
/// logical position of a reverse iterator, as a pointer into the array seen in forward order
template <class T>
T *baseOf(const RevRaIt<T> &i) {
  return RevRaIt<T>::gBase + ((RevRaIt<T>::gCnt - 1) - (i.p - RevRaIt<T>::gBase));
}

struct KPtr {
  static const char *name() { return "ptr"; }
  template <class T>
  struct it {
    typedef T *src_t;
    typedef T *dst_t;
    static void prepare(T *, int) {}
    static src_t src(T *p) { return p; }
    static dst_t dst(T *p) { return p; }
  };
};
struct KRa {
  static const char *name() { return "ra"; }
  template <class T>
  struct it {
    typedef RaIt<T> src_t;
    typedef RaIt<T> dst_t;
    static void prepare(T *, int) {}
    static src_t src(T *p) { return src_t(p); }
    static dst_t dst(T *p) { return dst_t(p); }
  };
};
struct KBidi {
  static const char *name() { return "bidi"; }
  template <class T>
  struct it {
    typedef BidiIt<T> src_t;
    typedef BidiIt<T> dst_t;
    static void prepare(T *, int) {}
    static src_t src(T *p) { return src_t(p); }
    static dst_t dst(T *p) { return dst_t(p); }
  };
};
struct KFwd {
  static const char *name() { return "fwd"; }
  template <class T>
  struct it {
    typedef FwdIt<T> src_t;
    typedef FwdIt<T> dst_t;
    static void prepare(T *, int) {}
    static src_t src(T *p) { return src_t(p); }
    static dst_t dst(T *p) { return dst_t(p); }
  };
};
/// std::move_iterator over a pointer as the source, a pointer as the destination
struct KMv {
  static const char *name() { return "mv"; }
  template <class T>
  struct it {
    typedef std::move_iterator<T *> src_t;
    typedef T *dst_t;
    static void prepare(T *, int) {}
    static src_t src(T *p) { return src_t(p); }
    static dst_t dst(T *p) { return p; }
  };
};
/// reverse random-access iterator as the source (the logical sequence is the array read backwards), a pointer as the destination
struct KRra {
  static const char *name() { return "rra"; }
  template <class T>
  struct it {
    typedef RevRaIt<T> src_t;
    typedef T *dst_t;
    static void prepare(T *s, int n) {
      RevRaIt<T>::gBase = s;
      RevRaIt<T>::gCnt = n;
    }
    /// physical pointer s + j  ->  the iterator at logical position j
    static src_t src(T *p) { return src_t(RevRaIt<T>::gBase + (RevRaIt<T>::gCnt - 1) - (p - RevRaIt<T>::gBase)); }
    static dst_t dst(T *p) { return p; }
  };
};

// ---------------------------------------------------------------------------------------------------
// the two libraries
// ---------------------------------------------------------------------------------------------------
struct Amc {
  enum {
    has_construct = 1,
    has_destroy = 1,
    has_ucopy = 1,
    has_umove = 1,
    has_udefault = 1,
    has_reloc = 1
  };
  template <class T>
  static T *construct_copy(T *p, const T &v) {
    return amc::construct_at(p, v);
  }
  template <class T>
  static T *construct_move(T *p, T &&v) {
    return amc::construct_at(p, std::move(v));
  }
  template <class T>
  static T *construct_value(T *p) {
    return amc::construct_at(p);
  }
  template <class T>
  static void destroy_at(T *p) {
    amc::destroy_at(p);
  }
  template <class I>
  static void destroy(I f, I l) {
    amc::destroy(f, l);
  }
  template <class I>
  static I destroy_n(I f, int n) {
    return amc::destroy_n(f, n);
  }
  template <class I, class O>
  static O ucopy(I f, I l, O d) {
    return amc::uninitialized_copy(f, l, d);
  }
  template <class I, class O>
  static O ucopy_n(I f, int n, O d) {
    return amc::uninitialized_copy_n(f, n, d);
  }
  template <class I, class O>
  static O umove(I f, I l, O d) {
    return amc::uninitialized_move(f, l, d);
  }
  template <class I, class O>
  static std::pair<I, O> umove_n(I f, int n, O d) {
    return amc::uninitialized_move_n(f, n, d);
  }
  template <class I>
  static void udefault(I f, I l) {
    amc::uninitialized_default_construct(f, l);
  }
  template <class I>
  static I udefault_n(I f, int n) {
    return amc::uninitialized_default_construct_n(f, n);
  }
  template <class I>
  static void uvalue(I f, I l) {
    amc::uninitialized_value_construct(f, l);
  }
  template <class I>
  static I uvalue_n(I f, int n) {
    return amc::uninitialized_value_construct_n(f, n);
  }
  template <class I, class O>
  static O ureloc(I f, I l, O d) {
    return amc::uninitialized_relocate(f, l, d);
  }
  template <class I, class O>
  static std::pair<I, O> ureloc_n(I f, int n, O d) {
    return amc::uninitialized_relocate_n(f, n, d);
  }
  template <class T>
  static T *relocate_at(T *e, T *d) {
    return amc::relocate_at(e, d);
  }
};

/// the standard library of this -std; construct_at before C++20 and relocation are written as the standard defines
/// them (placement new; uninitialized_move + destroy)
struct Std {
  enum {
    has_construct = 1,
    has_destroy = H17,
    has_ucopy = 1,
    has_umove = H17,
    has_udefault = H17,
    has_reloc = H17
  };
  template <class T>
  static T *construct_copy(T *p, const T &v) {
#if H20
    return std::construct_at(p, v);
#else
    return ::new (static_cast<void *>(p)) T(v);
#endif
  }
  template <class T>
  static T *construct_move(T *p, T &&v) {
#if H20
    return std::construct_at(p, std::move(v));
#else
    return ::new (static_cast<void *>(p)) T(std::move(v));
#endif
  }
  template <class T>
  static T *construct_value(T *p) {
#if H20
    return std::construct_at(p);
#else
    return ::new (static_cast<void *>(p)) T();
#endif
  }
  template <class I, class O>
  static O ucopy(I f, I l, O d) {
    return std::uninitialized_copy(f, l, d);
  }
  template <class I, class O>
  static O ucopy_n(I f, int n, O d) {
    return std::uninitialized_copy_n(f, n, d);
  }
#if H17
  template <class T>
  static void destroy_at(T *p) {
    std::destroy_at(p);
  }
  template <class I>
  static void destroy(I f, I l) {
    std::destroy(f, l);
  }
  template <class I>
  static I destroy_n(I f, int n) {
    return std::destroy_n(f, n);
  }
  template <class I, class O>
  static O umove(I f, I l, O d) {
    return std::uninitialized_move(f, l, d);
  }
  template <class I, class O>
  static std::pair<I, O> umove_n(I f, int n, O d) {
    return std::uninitialized_move_n(f, n, d);
  }
  template <class I>
  static void udefault(I f, I l) {
    std::uninitialized_default_construct(f, l);
  }
  template <class I>
  static I udefault_n(I f, int n) {
    return std::uninitialized_default_construct_n(f, n);
  }
  template <class I>
  static void uvalue(I f, I l) {
    std::uninitialized_value_construct(f, l);
  }
  template <class I>
  static I uvalue_n(I f, int n) {
    return std::uninitialized_value_construct_n(f, n);
  }
  template <class I, class O>
  static O ureloc(I f, I l, O d) {
    d = std::uninitialized_move(f, l, d);
    std::destroy(f, l);
    return d;
  }
  template <class I, class O>
  static std::pair<I, O> ureloc_n(I f, int n, O d) {
    std::pair<I, O> r = std::uninitialized_move_n(f, n, d);
    std::destroy_n(f, n);
    return r;
  }
  template <class T>
  static T *relocate_at(T *e, T *d) {
    d = ::new (static_cast<void *>(d)) T(std::move(*e));
    std::destroy_at(e);
    return d;
  }
#endif
};

// ---------------------------------------------------------------------------------------------------
// the algorithms as functors: call(src, dst, n) runs the algorithm over [src, src+n) / [dst, dst+n) and returns the
// iterator advance(s) it reports
// ---------------------------------------------------------------------------------------------------
inline std::string adv1(std::ptrdiff_t a) { return std::to_string(a); }
inline std::string adv2(std::ptrdiff_t a, std::ptrdiff_t b) { return std::to_string(a) + "," + std::to_string(b); }

#define ALG_BEGIN(NAME, HAS)                      \
  template <class Lib, class K, class T>          \
  struct NAME {                                   \
    enum { available = Lib::HAS };                \
    typedef typename K::template it<T> I;         \
    static const char *name() { return #NAME; }   \
    static std::string call(T *s, T *d, int n) {  \
      (void)s;                                    \
      (void)d;                                    \
      (void)n;                                    \
      I::prepare(s, n);
#define ALG_END \
  }            \
  }            \
  ;

ALG_BEGIN(construct_at_copy, has_construct)
T *r = Lib::construct_copy(d, static_cast<const T &>(*s));
return adv1(r - d);
ALG_END
ALG_BEGIN(construct_at_move, has_construct)
T *r = Lib::construct_move(d, std::move(*s));
return adv1(r - d);
ALG_END
ALG_BEGIN(construct_at_value, has_construct)
T *r = Lib::construct_value(d);
return adv1(r - d);
ALG_END
ALG_BEGIN(destroy_at, has_destroy)
Lib::destroy_at(s);
return std::string("-");
ALG_END
ALG_BEGIN(destroy, has_destroy)
Lib::destroy(I::src(s), I::src(s + n));
return std::string("-");
ALG_END
ALG_BEGIN(destroy_n, has_destroy)
typename I::src_t r = Lib::destroy_n(I::src(s), n);
return adv1(baseOf(r) - s);
ALG_END
ALG_BEGIN(ucopy, has_ucopy)
typename I::dst_t r = Lib::ucopy(I::src(s), I::src(s + n), I::dst(d));
return adv1(baseOf(r) - d);
ALG_END
ALG_BEGIN(ucopy_n, has_ucopy)
typename I::dst_t r = Lib::ucopy_n(I::src(s), n, I::dst(d));
return adv1(baseOf(r) - d);
ALG_END
ALG_BEGIN(umove, has_umove)
typename I::dst_t r = Lib::umove(I::src(s), I::src(s + n), I::dst(d));
return adv1(baseOf(r) - d);
ALG_END
ALG_BEGIN(umove_n, has_umove)
std::pair<typename I::src_t, typename I::dst_t> r = Lib::umove_n(I::src(s), n, I::dst(d));
return adv2(baseOf(r.first) - s, baseOf(r.second) - d);
ALG_END
ALG_BEGIN(udefault, has_udefault)
Lib::udefault(I::dst(d), I::dst(d + n));
return std::string("-");
ALG_END
ALG_BEGIN(udefault_n, has_udefault)
typename I::dst_t r = Lib::udefault_n(I::dst(d), n);
return adv1(baseOf(r) - d);
ALG_END
ALG_BEGIN(uvalue, has_udefault)
Lib::uvalue(I::dst(d), I::dst(d + n));
return std::string("-");
ALG_END
ALG_BEGIN(uvalue_n, has_udefault)
typename I::dst_t r = Lib::uvalue_n(I::dst(d), n);
return adv1(baseOf(r) - d);
ALG_END
ALG_BEGIN(ureloc, has_reloc)
typename I::dst_t r = Lib::ureloc(I::src(s), I::src(s + n), I::dst(d));
return adv1(baseOf(r) - d);
ALG_END
ALG_BEGIN(ureloc_n, has_reloc)
std::pair<typename I::src_t, typename I::dst_t> r = Lib::ureloc_n(I::src(s), n, I::dst(d));
return adv2(baseOf(r.first) - s, baseOf(r.second) - d);
ALG_END
ALG_BEGIN(relocate_at, has_reloc)
T *r = Lib::relocate_at(s, d);
return adv1(r - d);
ALG_END

// ---------------------------------------------------------------------------------------------------
// one case
// ---------------------------------------------------------------------------------------------------
struct Obs {
  std::string text;  // exc= adv= dst= src= live= faults=
  std::string ev;
};

template <class T>
struct Fn {
  typedef std::string (*type)(T *, T *, int);
};

// (not a template over the algorithm: one instantiation per value category keeps the compile time down)
template <class T>
Obs runOne(typename Fn<T>::type call, int n, int k) {
  Globals &g = G();
  g.live.clear();
  g.faults.clear();
  g.fuel = 0;
  g.fired = 0;
  size_t bytes = sizeof(T) * static_cast<size_t>(n + 1);
  T *src = static_cast<T *>(std::malloc(bytes));
  T *dst = static_cast<T *>(std::malloc(bytes));
  VT<T>::fillRaw(src, bytes);
  VT<T>::fillRaw(dst, bytes);
  for (int i = 0; i <= n; ++i) VT<T>::make(src + i, 10 + i);
  unsigned char guardS[sizeof(T)], guardD[sizeof(T)];
  std::memcpy(guardS, static_cast<void *>(src + n), sizeof(T));
  std::memcpy(guardD, static_cast<void *>(dst + n), sizeof(T));
  long live0 = VT<T>::liveCount();
  g.ev.reset();
  std::string adv = "-";
  bool exc = false;
  g.fuel = k;
  try {
    adv = call(src, dst, n);
  } catch (const ElemThrow &) {
    exc = true;
  }
  g.fuel = 0;
  Counters ev = g.ev;
  long live1 = VT<T>::liveCount();
  if (std::memcmp(guardS, static_cast<void *>(src + n), sizeof(T)) != 0) g.fault("guardSrcTouched");
  if (std::memcmp(guardD, static_cast<void *>(dst + n), sizeof(T)) != 0) g.fault("guardDstTouched");
  std::set<uint32_t> claimed;
  std::string ds, ss;
  for (int i = 0; i <= n; ++i) {
    if (i) ds += ",";
    ds += VT<T>::render(dst + i, claimed);
  }
  for (int i = 0; i <= n; ++i) {
    if (i) ss += ",";
    ss += VT<T>::render(src + i, claimed);
  }
  if (static_cast<long>(claimed.size()) != live1) g.fault("orphanObject");
  Obs o;
  long d = live1 - live0;
  o.text = std::string("exc=") + (exc ? "1" : "0") + " adv=" + (exc ? std::string("-") : adv) + " dst=" + ds + " src=" + ss +
           " live=" + (d >= 0 ? "+" : "") + std::to_string(d) + " faults=" + faultsStr();
  o.ev = "cc:" + std::to_string(ev.cc) + ",mc:" + std::to_string(ev.mc) + ",dt:" + std::to_string(ev.dt) +
         ",vi:" + std::to_string(ev.vi);
  g.live.clear();
  g.faults.clear();
  std::free(src);
  std::free(dst);
  return o;
}

struct Options {
  std::string only;  // run only the case with this key ("<alg> T=<cat> it=<it> n=<n> k=<k>")
  bool trace;        // print "C15-BEGIN <key>" before each case (to name the case a sanitizer aborts in)
  Options() : trace(false) {}
};
inline Options &Opt() {
  static Options o;
  return o;
}

template <class T>
void runCases(const char *alg, const char *kname, typename Fn<T>::type amcFn, typename Fn<T>::type stdFn, int maxN,
              bool single) {
  for (int n = single ? 1 : 0; n <= (single ? 1 : maxN); ++n) {
    for (int k = 0; k <= n; ++k) {
      std::string key = std::string(alg) + " T=" + VT<T>::name() + " it=" + kname + " n=" + std::to_string(n) +
                        " k=" + std::to_string(k);
      if (!Opt().only.empty() && Opt().only != key) continue;
      if (Opt().trace) {
        std::printf("C15-BEGIN %s\n", key.c_str());
        std::fflush(stdout);
      }
      Obs a = runOne<T>(amcFn, n, k);
      std::string s = "na";
      if (stdFn != nullptr) {
        Obs r = runOne<T>(stdFn, n, k);
        s = r.text == a.text ? std::string("same") : "DIFF[" + r.text + "]";
      }
      std::printf("C15 %s | %s ;; std=%s ev=%s\n", key.c_str(), a.text.c_str(), s.c_str(), a.ev.c_str());
      std::fflush(stdout);
    }
  }
}

template <template <class, class, class> class A, class K, class T>
typename Fn<T>::type stdFnOf(std::true_type) {
  return &A<Std, K, T>::call;
}
template <template <class, class, class> class A, class K, class T>
typename Fn<T>::type stdFnOf(std::false_type) {
  return nullptr;
}

template <template <class, class, class> class A, class K, class T>
void runAlg(int maxN, bool single) {
  runCases<T>(A<Amc, K, T>::name(), K::name(), &A<Amc, K, T>::call,
              stdFnOf<A, K, T>(std::integral_constant<bool, (A<Std, K, T>::available != 0)>()), maxN, single);
}

template <class K, class T>
void runTwoRange(int maxN) {
  runAlg<ucopy, K, T>(maxN, false);
  runAlg<ucopy_n, K, T>(maxN, false);
  runAlg<umove, K, T>(maxN, false);
  runAlg<umove_n, K, T>(maxN, false);
}
template <class K, class T>
void runOneRange(int maxN) {
  runAlg<destroy, K, T>(maxN, false);
  runAlg<destroy_n, K, T>(maxN, false);
  runAlg<udefault, K, T>(maxN, false);
  runAlg<udefault_n, K, T>(maxN, false);
  runAlg<uvalue, K, T>(maxN, false);
  runAlg<uvalue_n, K, T>(maxN, false);
  // relocation from a std::move_iterator is ill-formed (destroy needs an lvalue), hence not in the mv column
  runAlg<ureloc, K, T>(maxN, false);
  runAlg<ureloc_n, K, T>(maxN, false);
}

template <class T>
void runType(int maxN) {
  runAlg<construct_at_copy, KPtr, T>(maxN, true);
  runAlg<construct_at_move, KPtr, T>(maxN, true);
  runAlg<construct_at_value, KPtr, T>(maxN, true);
  runAlg<destroy_at, KPtr, T>(maxN, true);
  runAlg<relocate_at, KPtr, T>(maxN, true);
  runTwoRange<KPtr, T>(maxN);
  runTwoRange<KRa, T>(maxN);
  runTwoRange<KBidi, T>(maxN);
  runTwoRange<KFwd, T>(maxN);
  runTwoRange<KMv, T>(maxN);
  // reverse random-access source: random access but not contiguous (an implementation may not memcpy/memmove it)
  runTwoRange<KRra, T>(maxN);
  runAlg<ureloc, KRra, T>(maxN, false);
  runAlg<ureloc_n, KRra, T>(maxN, false);
  runOneRange<KPtr, T>(maxN);
  runOneRange<KRa, T>(maxN);
  runOneRange<KBidi, T>(maxN);
  runOneRange<KFwd, T>(maxN);
}

int main(int argc, char **argv) {
  int maxN = argc > 1 ? std::atoi(argv[1]) : 6;
  if (argc > 2 && std::string(argv[2]) != "-") Opt().only = argv[2];
  if (argc > 3 && std::string(argv[3]) == "trace") Opt().trace = true;
  std::printf("C15-HEADER std=%ld maxN=%d\n", static_cast<long>(__cplusplus), maxN);
#if !defined(VCAT) || VCAT == 0
  runType<int>(maxN);
#endif
#if !defined(VCAT) || VCAT == 1
  runType<Pod>(maxN);
#endif
#if !defined(VCAT) || VCAT == 2
  runType<ElemTR>(maxN);
#endif
#if !defined(VCAT) || VCAT == 3
  runType<ElemNTR>(maxN);
#endif
#if !defined(VCAT) || VCAT == 4
  runType<ElemNTRX>(maxN);
#endif
  std::printf("C15-END\n");
  return 0;
}
