// Correspondence harness for FlatSet and SmallSet: executes a script on the real sets from /repo/include next to a
// std::set oracle and prints one canonical observation line per operation (same format as lean/Driver/SetDriver.lean).
//
// Compile-time configuration:
//   -DCFG_IMPL=0|1     0 = amc::FlatSet, 1 = amc::SmallSet
//   -DCFG_N=<n>        SmallSet inline capacity (also N of a SmallVector / FixedCapacityVector underlying vector)
//   -DCFG_BACK=0|1     SmallSet backing set: 0 = std::set, 1 = amc::FlatSet
//   -DCFG_UVEC=0..3    FlatSet underlying vector: 0 = amc::vector, 1 = SmallVector<T,CFG_N>, 2 = FixedCapacityVector<T,CFG_UCAP> (default 64),
//                      3 = std::vector
//   -DCFG_CMP=0..6     6 = less with a self-referential (not trivially relocatable) comparator object;
//   -DCFG_CMP=0..5     5 = transparent less with the heterogeneous key Band{d} (equivalent to every v with v / 4 == d);
//   -DCFG_CMP=0..4     4 = StatefulLess in a different state (m = 7 + 3c) in every set c of the pool; 0 = std::less, 1 = std::greater, 2 = ModLess (coarse: compares v % 5, stateless),
//                      3 = StatefulLess (compares v % m, m given at construction; default constructed m = 1000003)
//   -DCFG_CAT=0|2      0 = int, 2 = ElemNTR (identity tracked, self-referential)
#ifndef CFG_NO_EXTRAS
#define AMC_NONSTD_FEATURES
#endif
#ifndef CFG_IMPL
#define CFG_IMPL 0
#endif
#include <amc/fixedcapacityvector.hpp>
#include <amc/flatset.hpp>
#if CFG_IMPL == 1
#include <amc/smallset.hpp>
#endif
#include <amc/smallvector.hpp>
#include <amc/vector.hpp>

#include <algorithm>
#include <iostream>
#include <set>
#include <sstream>
#include <vector>

#include "elem.hpp"

using namespace vh;

#ifndef CFG_IMPL
#define CFG_IMPL 0
#endif
#ifndef CFG_N
#define CFG_N 3
#endif
#ifndef CFG_BACK
#define CFG_BACK 0
#endif
#ifndef CFG_UVEC
#define CFG_UVEC 0
#endif
#ifndef CFG_CMP
#define CFG_CMP 0
#endif
#ifndef CFG_CAT
#define CFG_CAT 0
#endif

static long gCmp = 0;  // comparator invocations

#if CFG_CAT == 0
using Elem = int;
static int val(const Elem &e) { return e; }
#else
using Elem = ElemNTR;
static int val(const Elem &e) { return e.get(); }
#endif

struct CountLess {
  bool operator()(const Elem &a, const Elem &b) const {
    ++gCmp;
    return val(a) < val(b);
  }
};
struct CountGreater {
  bool operator()(const Elem &a, const Elem &b) const {
    ++gCmp;
    return val(a) > val(b);
  }
};
struct ModLess {
  bool operator()(const Elem &a, const Elem &b) const {
    ++gCmp;
    return val(a) % 5 < val(b) % 5;
  }
};
struct Band {
  int d;
};
struct TranspLess {
  using is_transparent = void;
  bool operator()(const Elem &a, const Elem &b) const {
    ++gCmp;
    return val(a) < val(b);
  }
  bool operator()(const Elem &a, const Band &k) const {
    ++gCmp;
    return val(a) / 4 < k.d;
  }
  bool operator()(const Band &k, const Elem &b) const {
    ++gCmp;
    return k.d < val(b) / 4;
  }
};
// a comparator that is NOT trivially relocatable: it stores its own address (a byte-wise copy is detected at its next use)
struct SelfRefLess {
  const SelfRefLess *self;
  SelfRefLess() : self(this) {}
  SelfRefLess(const SelfRefLess &) : self(this) {}
  SelfRefLess &operator=(const SelfRefLess &) { return *this; }
  bool operator()(const Elem &a, const Elem &b) const {
    if (self != this) G().fault("bitwiseComparator");
    ++gCmp;
    return val(a) < val(b);
  }
};
struct StatefulLess {
  int m;
  StatefulLess() : m(1000003) {}
  explicit StatefulLess(int mm) : m(mm) {}
  bool operator()(const Elem &a, const Elem &b) const {
    ++gCmp;
    return val(a) % m < val(b) % m;
  }
};

#if CFG_CMP == 0
using Cmp = CountLess;
static Cmp makeCmp(int = 0) { return Cmp(); }
#elif CFG_CMP == 1
using Cmp = CountGreater;
static Cmp makeCmp(int = 0) { return Cmp(); }
#elif CFG_CMP == 2
using Cmp = ModLess;
static Cmp makeCmp(int = 0) { return Cmp(); }
#elif CFG_CMP == 3
using Cmp = StatefulLess;
static Cmp makeCmp(int = 0) { return Cmp(7); }
#elif CFG_CMP == 6
using Cmp = SelfRefLess;
static Cmp makeCmp(int = 0) { return Cmp(); }
#elif CFG_CMP == 5
// "transp": a transparent comparator; the heterogeneous key `Band{d}` is equivalent to every element v with v / 4 == d
// (a run of up to four consecutive elements: count may exceed 1, lower_bound / upper_bound delimit the run)
using Cmp = TranspLess;
static Cmp makeCmp(int = 0) { return Cmp(); }
#else
// "mix": every set of the pool holds a comparator object in a different state (as std::set allows)
using Cmp = StatefulLess;
static Cmp makeCmp(int c = 0) { return Cmp(7 + 3 * c); }
#endif

// SmallSet configurations count the allocator requests of the backing set (the inline-storage promise of C05);
// FlatSet configurations keep amc::allocator (realloc path of the underlying vector)
static long gAllocCalls = 0;
template <class T>
struct CountAlloc {
  using value_type = T;
  CountAlloc() = default;
  template <class U>
  CountAlloc(const CountAlloc<U> &) {}
  T *allocate(size_t n) {
    ++gAllocCalls;
    return static_cast<T *>(::operator new(n * sizeof(T)));
  }
  void deallocate(T *p, size_t) { ::operator delete(p); }
  template <class U>
  struct rebind {
    using other = CountAlloc<U>;
  };
  template <class U>
  bool operator==(const CountAlloc<U> &) const { return true; }
  template <class U>
  bool operator!=(const CountAlloc<U> &) const { return false; }
};
#if CFG_IMPL == 0
using Alloc = amc::allocator<Elem>;
#else
using Alloc = CountAlloc<Elem>;
#endif
#if CFG_UVEC == 0
using UVec = amc::vector<Elem, Alloc>;
#elif CFG_UVEC == 1
using UVec = amc::SmallVector<Elem, CFG_N, Alloc>;
#elif CFG_UVEC == 2
#ifndef CFG_UCAP
#define CFG_UCAP 64
#endif
using UVec = amc::FixedCapacityVector<Elem, CFG_UCAP>;
#else
using UVec = std::vector<Elem, Alloc>;
#endif

#if CFG_UVEC == 2
using FSet = amc::FlatSet<Elem, Cmp, amc::vec::EmptyAlloc, UVec>;
#else
using FSet = amc::FlatSet<Elem, Cmp, Alloc, UVec>;
#endif

#if CFG_IMPL == 0
using Set = FSet;
#elif CFG_BACK == 0
using Set = amc::SmallSet<Elem, CFG_N, Cmp, Alloc, std::set<Elem, Cmp, Alloc>>;
#else
using Set = amc::SmallSet<Elem, CFG_N, Cmp, Alloc, amc::FlatSet<Elem, Cmp, Alloc>>;
#endif
using Ref = std::set<Elem, Cmp>;
// a set of ANOTHER type as the source of merge: different comparator type (and, for SmallSet, different N)
#if CFG_CMP == 1
using Cmp2 = CountLess;
#else
using Cmp2 = CountGreater;
#endif
#if CFG_IMPL == 0
#if CFG_UVEC == 2
using Set2 = amc::FlatSet<Elem, Cmp2, amc::vec::EmptyAlloc, UVec>;
#else
using Set2 = amc::FlatSet<Elem, Cmp2, Alloc, UVec>;
#endif
#elif CFG_BACK == 0
using Set2 = amc::SmallSet<Elem, CFG_N + 2, Cmp2, Alloc, std::set<Elem, Cmp2, Alloc>>;
#else
using Set2 = amc::SmallSet<Elem, CFG_N + 2, Cmp2, Alloc, amc::FlatSet<Elem, Cmp2, Alloc>>;
#endif

static const int kMaxPool = 4;
static int gPool = 3;
alignas(Set) static unsigned char gStoreA[kMaxPool][sizeof(Set)];
alignas(Set) static unsigned char gStoreB[kMaxPool][sizeof(Set)];
static unsigned char *gStore[kMaxPool] = {gStoreA[0], gStoreA[1], gStoreA[2], gStoreA[3]};
static Set *S(int c) { return reinterpret_cast<Set *>(gStore[c]); }
static bool relocateBytes(int c) {
  if (!amc::is_trivially_relocatable<Set>::value) return false;
  unsigned char *from = gStore[c];
  unsigned char *to = from == gStoreA[c] ? gStoreB[c] : gStoreA[c];
  VH_UNPOISON(to, sizeof(Set));
  std::memcpy(to, from, sizeof(Set));
  std::memset(from, 0xAB, sizeof(Set));
  VH_POISON(from, sizeof(Set));  // the source is abandoned: any later access to it (a cached pointer, a self pointer) is reported
  gStore[c] = to;
  return true;
}
alignas(Ref) static unsigned char gRefStore[kMaxPool][sizeof(Ref)];
static Ref *R(int c) { return reinterpret_cast<Ref *>(gRefStore[c]); }

static void construct(int c) {
  new (gStore[c]) Set(makeCmp(c));
  new (gRefStore[c]) Ref(makeCmp(c));
}

static std::vector<int> parseList(const std::string &t) {
  std::vector<int> r;
  if (t == "-") return r;
  std::stringstream ss(t);
  std::string item;
  while (std::getline(ss, item, ',')) r.push_back(std::atoi(item.c_str()));
  return r;
}

template <class C>
static std::string listOf(const C &c) {
  std::ostringstream os;
  bool first = true;
  for (auto it = c.begin(); it != c.end(); ++it) {
    if (!first) os << ",";
    first = false;
    os << val(*it);
  }
  return os.str();
}

static std::string showCont(int c) {
  Set &s = *S(c);
  std::ostringstream os;
  os << (unsigned long long)s.size() << ":" << (s.empty() ? 1 : 0) << ":" << listOf(s);
  return os.str();
}

// oracle: same elements (as a sequence in comparator order for FlatSet; as a set for SmallSet), same size/emptiness
static bool sameAsRef(int c) {
  Set &s = *S(c);
  Ref &r = *R(c);
  if (s.size() != r.size() || s.empty() != r.empty()) return false;
  std::vector<int> a, b;
  for (auto it = s.begin(); it != s.end(); ++it) a.push_back(val(*it));
  for (auto it = r.begin(); it != r.end(); ++it) b.push_back(val(*it));
#if CFG_IMPL == 0
  return a == b;
#else
  // inline state keeps insertion order: compare as multisets of the *exact* values
  std::sort(a.begin(), a.end());
  std::sort(b.begin(), b.end());
  return a == b;
#endif
}

// what `it->` yields: operator-> of a class-type iterator, the pointer itself for a pointer iterator
template <class It>
static auto arrowOf(const It &it) -> decltype(it.operator->()) {
  return it.operator->();
}
template <class T>
static const T *arrowOf(const T *p) {
  return p;
}

template <class It, class C>
static std::string itVal(It it, const C &c) {
  return it == c.end() ? std::string("end") : std::to_string(val(*it));
}

int main() {
  std::ios::sync_with_stdio(false);
  std::string line;
  if (!std::getline(std::cin, line)) return 2;
  {
    std::stringstream ss(line);
    std::string tok;
    while (ss >> tok)
      if (tok.rfind("pool=", 0) == 0) gPool = std::atoi(tok.c_str() + 5);
    if (gPool > kMaxPool) return 2;
  }
  for (int c = 0; c < gPool; ++c) construct(c);
  long n = 0;
  while (std::getline(std::cin, line)) {
    std::stringstream ss(line);
    std::vector<std::string> t;
    std::string tok;
    while (ss >> tok) t.push_back(tok);
    if (t.empty()) continue;
    std::string res = "ok", ret = "-", oracle = "ok";
    auto N = [&](size_t i) -> long { return i < t.size() ? std::atol(t[i].c_str()) : 0; };
    const std::string &op = t[0];
    gCmp = 0;
    long cmpsOp = 0;
    bool skip = false;
    try {
      if (op == "new") {
        for (int c = 0; c < gPool; ++c) {
          S(c)->~Set();
          R(c)->~Ref();
        }
        std::ostringstream os;
        os << "live=" << (CFG_CAT == 0 ? 0 : (long)G().live.size());
        ret = os.str();
        G().live.clear();
        for (int c = 0; c < gPool; ++c) construct(c);
      } else {
        int c = (int)N(1);
        Set &s = *S(c);
        Ref &r = *R(c);
        size_t sz = s.size();
        if (op == "ins" || op == "insm" || op == "emp") {
          Elem e((int)N(2));
          Elem e2((int)N(2));
          gCmp = 0;
          std::pair<typename Set::iterator, bool> p =
              op == "ins" ? s.insert(e) : (op == "insm" ? s.insert(std::move(e)) : s.emplace((int)N(2)));
          cmpsOp = gCmp;
          ret = std::to_string(val(*p.first)) + ":" + (p.second ? "1" : "0");
          auto q = r.insert(e2);
          if (q.second != p.second || val(*q.first) != val(*p.first)) oracle = "MISMATCH-ret";
        } else if (op == "insh" || op == "emph") {
          size_t h = N(2) % (sz + 1);
          Elem e((int)N(3));
          Elem e2((int)N(3));
          auto hint = s.begin();
          std::advance(hint, h);
          auto rh = r.begin();
          std::advance(rh, std::min(h, r.size()));
          gCmp = 0;
          typename Set::iterator it = op == "insh" ? s.insert(hint, e) : s.emplace_hint(hint, (int)N(3));
          cmpsOp = gCmp;
          ret = itVal(it, s);
          auto q = r.insert(rh, e2);
          if (it == s.end() || val(*q) != val(*it)) oracle = "MISMATCH-ret";
        } else if (op == "insr" || op == "insl") {
          std::vector<int> vals = parseList(t[2]);
          std::vector<Elem> src(vals.begin(), vals.end());
          gCmp = 0;
          s.insert(src.begin(), src.end());
          cmpsOp = gCmp;
          for (int v : vals) r.insert(Elem(v));
        } else if (op == "era") {
          Elem e((int)N(2));
          gCmp = 0;
          auto k = s.erase(e);
          cmpsOp = gCmp;
          ret = std::to_string((unsigned long long)k);
          if (k != r.erase(e)) oracle = "MISMATCH-ret";
        } else if (op == "erap") {
          if (sz == 0) skip = true;
          else {
            size_t p = N(2) % sz;
            auto it = s.begin();
            std::advance(it, p);
            int victim = val(*it);
            gCmp = 0;
            auto nx = s.erase(it);
            cmpsOp = gCmp;
            ret = std::string(nx == s.end() ? "end" : "elem");
            // what the iterator designates must be a remaining element (or end)
            if (nx != s.end() && r.find(Elem(val(*nx))) == r.end()) oracle = "MISMATCH-ret";
            r.erase(Elem(victim));
#if CFG_IMPL == 0
            // FlatSet: returned iterator is the next element in order
            {
              auto rn = r.upper_bound(Elem(victim));
              std::string want = rn == r.end() ? "end" : std::to_string(val(*rn));
              std::string got = nx == s.end() ? "end" : std::to_string(val(*nx));
              ret = got;
              if (want != got) oracle = "MISMATCH-ret";
            }
#endif
          }
        } else if (op == "erar") {
          size_t p = N(2) % (sz + 1);
          size_t q = p + N(3) % (sz - p + 1);
          auto f = s.begin();
          std::advance(f, p);
          auto l = s.begin();
          std::advance(l, q);
          std::vector<int> victims;
          for (auto it = f; it != l; ++it) victims.push_back(val(*it));
          gCmp = 0;
          auto nx = s.erase(f, l);
          cmpsOp = gCmp;
          ret = std::string(nx == s.end() ? "end" : "elem");
          for (int v : victims) r.erase(Elem(v));
          if (nx != s.end() && r.find(Elem(val(*nx))) == r.end()) oracle = "MISMATCH-ret";
        } else if (op == "clr") {
          s.clear();
          r.clear();
        } else if (op == "find" || op == "has" || op == "cnt") {
          Elem e((int)N(2));
          gCmp = 0;
          if (op == "find") {
            auto it = s.find(e);
            cmpsOp = gCmp;
            ret = itVal(it, s);
            auto q = r.find(e);
            if ((q == r.end()) != (it == s.end()) || (q != r.end() && val(*q) != val(*it))) oracle = "MISMATCH-ret";
          } else if (op == "has") {
            bool b = s.contains(e);
            cmpsOp = gCmp;
            ret = b ? "1" : "0";
            if (b != (r.count(e) != 0)) oracle = "MISMATCH-ret";
          } else {
            auto k = s.count(e);
            cmpsOp = gCmp;
            ret = std::to_string((unsigned long long)k);
            if (k != r.count(e)) oracle = "MISMATCH-ret";
          }
#if CFG_CMP == 5
        } else if (op == "hfind" || op == "hhas" || op == "hcnt") {
          // heterogeneous lookups under a transparent comparator
          Band k{(int)N(2)};
          gCmp = 0;
          if (op == "hfind") {
            auto it = s.find(k);
            cmpsOp = gCmp;
            // WHICH of several equivalent elements is designated is unspecified: it must be one of the band
            ret = it == s.end() ? std::string("end") : (val(*it) / 4 == k.d ? "in-band" : "out-of-band:" + std::to_string(val(*it)));
            auto q = r.find(k);
            if ((q == r.end()) != (it == s.end()) || (it != s.end() && val(*it) / 4 != k.d)) oracle = "MISMATCH-ret";
          } else if (op == "hhas") {
            bool b = s.contains(k);
            cmpsOp = gCmp;
            ret = b ? "1" : "0";
            if (b != (r.count(k) != 0)) oracle = "MISMATCH-ret";
          } else {
            auto n = s.count(k);
            cmpsOp = gCmp;
            ret = std::to_string((unsigned long long)n);
            if (n != r.count(k)) oracle = "MISMATCH-ret";
          }
#if CFG_IMPL == 0
        } else if (op == "hlb" || op == "hub") {
          Band k{(int)N(2)};
          gCmp = 0;
          auto it = op == "hlb" ? s.lower_bound(k) : s.upper_bound(k);
          cmpsOp = gCmp;
          ret = itVal(it, s) + "@" + std::to_string(it - s.begin());
          auto q = op == "hlb" ? r.lower_bound(k) : r.upper_bound(k);
          if (itVal(q, r) != itVal(it, s) || (size_t)std::distance(r.begin(), q) != (size_t)(it - s.begin()))
            oracle = "MISMATCH-ret";
#endif
#endif
#if CFG_IMPL == 0
        } else if (op == "lb" || op == "ub") {
          Elem e((int)N(2));
          gCmp = 0;
          auto it = op == "lb" ? s.lower_bound(e) : s.upper_bound(e);
          cmpsOp = gCmp;
          ret = itVal(it, s) + "@" + std::to_string(it - s.begin());
          auto q = op == "lb" ? r.lower_bound(e) : r.upper_bound(e);
          if (itVal(q, r) != itVal(it, s) || (size_t)std::distance(r.begin(), q) != (size_t)(it - s.begin()))
            oracle = "MISMATCH-ret";
        } else if (op == "eqr") {
          Elem e((int)N(2));
          gCmp = 0;
          auto pr = s.equal_range(e);
          cmpsOp = gCmp;
          std::ostringstream os;
          for (auto it = pr.first; it != pr.second; ++it) os << val(*it) << ";";
          ret = "[" + os.str() + "]";
          auto qr = r.equal_range(e);
          std::ostringstream os2;
          for (auto it = qr.first; it != qr.second; ++it) os2 << val(*it) << ";";
          if (os.str() != os2.str()) oracle = "MISMATCH-ret";
        } else if (op == "fromv" || op == "asgv") {
#ifdef AMC_NONSTD_FEATURES
          std::vector<int> vals = parseList(t[2]);
#if CFG_UVEC != 2
          UVec v;
          for (int x : vals) v.push_back(Elem(x));
          gCmp = 0;
          if (op == "fromv") {
            Cmp kc = s.key_comp();  // the set keeps the comparator object it has (it may have come from another set)
            s.~Set();
            new (gStore[c]) Set(std::move(v), kc);
          } else {
            s = std::move(v);
          }
          cmpsOp = gCmp;
          r.clear();
          for (int x : vals) r.insert(Elem(x));
#else
          skip = true;
#endif
#else
          skip = true;
#endif
        } else if (op == "steal") {
#ifdef AMC_NONSTD_FEATURES
#if CFG_UVEC != 2
          UVec v = s.steal_vector();
          ret = "[" + listOf(v) + "]";
          if (listOf(v) != listOf(r)) oracle = "MISMATCH-ret";
          r.clear();
#else
          skip = true;
#endif
#else
          skip = true;
#endif
        } else if (op == "rngc") {
          // range construction
          std::vector<int> vals = parseList(t[2]);
          std::vector<Elem> src(vals.begin(), vals.end());
          Cmp kc = s.key_comp();
          s.~Set();
          gCmp = 0;
          new (gStore[c]) Set(src.begin(), src.end(), kc);
          cmpsOp = gCmp;
          r.clear();
          for (int x : vals) r.insert(Elem(x));
#endif
        } else if (op == "mrg") {
          int d = (int)N(2);
          if (c == d) skip = true;
          else {
#if CFG_IMPL == 1
            // The standard leaves the order in which merge visits the source unspecified; it matters only when two source
            // elements are equivalent for the TARGET's comparator object (possible when the two objects differ in state):
            // the reference visits the source in the order the implementation iterates it (an inline SmallSet is unordered).
            std::vector<int> srcOrder;
            for (auto it = S(d)->begin(); it != S(d)->end(); ++it) srcOrder.push_back(val(*it));
#endif
            gCmp = 0;
            s.merge(*S(d));
            cmpsOp = gCmp;
#if CFG_IMPL == 1
            for (int v : srcOrder) {
              auto it = R(d)->find(Elem(v));
              if (it != R(d)->end() && r.insert(*it).second) R(d)->erase(it);
            }
#elif __cplusplus >= 201703L
            r.merge(*R(d));
#else
            for (auto it = R(d)->begin(); it != R(d)->end();) {
              if (r.insert(*it).second) it = R(d)->erase(it);
              else ++it;
            }
#endif
          }
        } else if (op == "mrgx") {
          // merge from a set of another type (comparator type Cmp2; SmallSet: also another N) built from the listed values
          std::vector<int> vals = parseList(t[2]);
          Set2 tmp;
          for (int v : vals) tmp.insert(Elem(v));
          std::vector<int> srcOrder;
          for (auto it = tmp.begin(); it != tmp.end(); ++it) srcOrder.push_back(val(*it));
          gCmp = 0;
          s.merge(tmp);
          cmpsOp = gCmp;
          // reference: the source visited in the order the implementation iterates it (unspecified by the standard)
          std::vector<int> left;
          for (int v : srcOrder)
            if (!r.insert(Elem(v)).second) left.push_back(v);
          ret = "[" + listOf(tmp) + "]";
          std::vector<int> got;
          for (auto it = tmp.begin(); it != tmp.end(); ++it) got.push_back(val(*it));
          if (got != left) oracle = "MISMATCH-left";
        } else if (op == "xfer") {
#if __cplusplus >= 201703L
          // node = d.extract(v); c.insert(std::move(node)); a node that was not inserted goes back into d
          int d = (int)N(2);
          Elem e((int)N(3));
          if (c == d) skip = true;
          else {
            auto node = S(d)->extract(e);
            auto rnode = R(d)->extract(e);
            bool had = !node.empty();
            if (had != !rnode.empty()) oracle = "MISMATCH-node";
            if (had) {
              auto irt = s.insert(std::move(node));
              auto rirt = r.insert(std::move(rnode));
              ret = std::string(irt.inserted ? "1" : "0") + ":" + (irt.node.empty() ? "empty" : std::to_string(val(irt.node.value())));
              if (irt.inserted != rirt.inserted || irt.node.empty() != rirt.node.empty()) oracle = "MISMATCH-node";
              // `position` designates the inserted element, or the element that prevented the insertion
              if (irt.position == s.end() || rirt.position == r.end() || val(*irt.position) != val(*rirt.position)) oracle = "MISMATCH-nodepos";
              if (!irt.node.empty()) S(d)->insert(std::move(irt.node));
              if (!rirt.node.empty()) R(d)->insert(std::move(rirt.node));
            } else {
              ret = "absent";
            }
          }
#else
          skip = true;
#endif
        } else if (op == "extp") {
#if __cplusplus >= 201703L
          if (sz == 0) skip = true;
          else {
            size_t p = N(2) % sz;
            auto it = s.begin();
            std::advance(it, p);
            int victim = val(*it);
            auto node = s.extract(it);
            ret = node.empty() ? "empty" : std::to_string(val(node.value()));
            r.erase(Elem(victim));
            if (node.empty() || val(node.value()) != victim) oracle = "MISMATCH-node";
          }
#else
          skip = true;
#endif
        } else if (op == "swp") {
          int d = (int)N(2);
          if (c == d) skip = true;
          else {
            s.swap(*S(d));
            r.swap(*R(d));
          }
        } else if (op == "cpy") {
          int d = (int)N(2);
          s = *S(d);
          r = *R(d);
        } else if (op == "mov") {
          int d = (int)N(2);
          if (c == d) skip = true;
          else {
            s = std::move(*S(d));
            r = std::move(*R(d));
            R(d)->clear();
            S(d)->clear();  // a moved-from set is valid but unspecified: bring both to a known state
          }
        } else if (op == "cmp") {
          int d = (int)N(2);
          bool eq = s == *S(d), lt = s < *S(d);
          ret = std::string(eq ? "1" : "0") + (lt ? "1" : "0");
          // std::set compares element-wise with operator== / operator< of the elements
          bool req = r.size() == R(d)->size() && std::equal(r.begin(), r.end(), R(d)->begin(),
                                                           [](const Elem &a, const Elem &b) { return val(a) == val(b); });
          bool rlt = std::lexicographical_compare(r.begin(), r.end(), R(d)->begin(), R(d)->end(),
                                                  [](const Elem &a, const Elem &b) { return val(a) < val(b); });
          if (eq != req || lt != rlt) oracle = "MISMATCH-ret";
          if ((s != *S(d)) == eq || (s <= *S(d)) != !(*S(d) < s) || (s > *S(d)) != (*S(d) < s)) oracle = "MISMATCH-cmp";
        } else if (op == "reloc") {
          if (!relocateBytes(c)) skip = true;
        } else if (op == "iter") {
          // forward and reverse walks visit every element exactly once
          std::vector<int> f, b;
          bool arrowOk = true;  // `it->` designates the element `*it` designates, for forward and reverse iterators
          for (auto it = s.begin(); it != s.end(); ++it) {
            f.push_back(val(*it));
            if (arrowOf(it) != std::addressof(*it)) arrowOk = false;
          }
          for (auto it = s.rbegin(); it != s.rend(); ++it) {
            b.push_back(val(*it));
            if (arrowOf(it) != std::addressof(*it)) arrowOk = false;
          }
          if (!arrowOk) oracle = "MISMATCH-arrow";
          std::reverse(b.begin(), b.end());
          ret = std::to_string(f.size()) + (f == b ? "=" : "!") + std::to_string(b.size());
          if (f != b || f.size() != r.size()) oracle = "MISMATCH-iter";
        } else if (op == "eloop") {
          // the standard erase-while-iterating loop, with a trip limit so that a stale end() is a result, not a hang
          int k = (int)std::max<long>(1, N(2));
          size_t trips = 0, erased = 0, limit = 4 * sz + 8;
          for (auto it = s.begin(); it != s.end() && trips < limit; ++trips) {
            if (val(*it) % k == 0) {
              it = s.erase(it);
              ++erased;
            } else {
              ++it;
            }
          }
          size_t rerased = 0;
          for (auto it = r.begin(); it != r.end();) {
            if (val(*it) % k == 0) {
              it = r.erase(it);
              ++rerased;
            } else {
              ++it;
            }
          }
          ret = std::to_string(trips) + ":" + std::to_string(erased);
          if (trips != sz || erased != rerased) oracle = "MISMATCH-loop";
        } else {
          res = "bad-op";
        }
      }
#if CFG_IMPL == 1
    } catch (const std::bad_variant_access &) {
      res = "exc:variant";
#endif
    } catch (const std::out_of_range &) {
      res = "exc:range";
    } catch (const std::exception &) {
      res = "exc:other";
    }
    if (skip) res = "skip";
    if (res == "ok" && op != "new") {
      for (int k = 0; k < gPool; ++k)
        if (!sameAsRef(k) && oracle == "ok") oracle = "MISMATCH-c" + std::to_string(k);
    }
    std::cout << n << " " << res << " ret=" << ret;
    for (int c = 0; c < gPool; ++c) std::cout << " | " << showCont(c);
    std::cout << " | cmps=" << cmpsOp << " # oracle=" << oracle << " faults=" << faultsStr() << " live="
              << (CFG_CAT == 0 ? 0 : (long)G().live.size()) << " allocs=" << gAllocCalls << "\n";
    G().faults.clear();
    ++n;
  }
  for (int c = 0; c < gPool; ++c) {
    S(c)->~Set();
    R(c)->~Ref();
  }
  return 0;
}
