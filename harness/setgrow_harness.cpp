// C09: SmallSet::grow() (the transition from the inline vector to the backing set) interrupted by a throwing allocation.
// One line per scenario (backing set, number of inline elements N, throw at the k-th allocator call), each in its own process.
// After the exception: every visible element must be alive and not moved-from, no object may exist outside the set, erasing
// everything visible must leave an empty set (nothing stale reappears), and destruction must leave nothing alive.
#include <sys/wait.h>
#include <unistd.h>

#include <cstdio>
#include <set>
#include <string>
#include <vector>

#include "elem.hpp"
#include <amc/flatset.hpp>
#include <amc/smallset.hpp>

using namespace vh;
using Elem = ElemNTR;

static long gAllocFuel = 0;  // k: the k-th allocator call throws (element constructions are not counted here)
static bool allocTick() { return gAllocFuel != 0 && --gAllocFuel == 0; }

template <class T>
struct ThrowAlloc {
  using value_type = T;
  ThrowAlloc() = default;
  template <class U>
  ThrowAlloc(const ThrowAlloc<U> &) {}
  T *allocate(size_t n) {
    if (allocTick()) throw AllocThrow();
    return static_cast<T *>(::operator new(n * sizeof(T)));
  }
  void deallocate(T *p, size_t) { ::operator delete(p); }
  template <class U>
  struct rebind {
    using other = ThrowAlloc<U>;
  };
  template <class U>
  bool operator==(const ThrowAlloc<U> &) const { return true; }
  template <class U>
  bool operator!=(const ThrowAlloc<U> &) const { return false; }
};
struct Less {
  bool operator()(const Elem &a, const Elem &b) const { return a.val < b.val; }  // reads the value without the ledger
};

template <class S>
static std::string run(int n, long k, bool &threw) {
  std::string bad;
  {
    S s;
    for (int i = 0; i < n; ++i) s.insert(Elem(10 * (i + 1)));
    {
      Elem extra(5);
      gAllocFuel = k;
      try {
        s.insert(extra);
      } catch (const AllocThrow &) {
        threw = true;
      }
      gAllocFuel = 0;
    }
    std::vector<int> seen;
    for (auto it = s.begin(); it != s.end(); ++it) {
      int st = it->state();
      if (st == 0) bad += " deadVisible";
      if (st == 2) bad += " movedFromVisible";
      seen.push_back(it->val);
    }
    if (seen.size() != s.size()) bad += " sizeVsIteration";
    if (G().live.size() != s.size()) bad += " objects=" + std::to_string(G().live.size()) + "!=size=" + std::to_string(s.size());
    if (threw && (int)s.size() != n) bad += " elementsLost(" + std::to_string(s.size()) + "of" + std::to_string(n) + ")";
    for (int v : seen) s.erase(Elem(v));
    if (!s.empty() || s.begin() != s.end()) bad += " staleElementsReappear(" + std::to_string(s.size()) + ")";
  }
  if (!G().live.empty()) bad += " leaked=" + std::to_string(G().live.size());
  for (auto &f : G().faults) bad += " " + f;
  return bad;
}

static long gScen = 0, gBad = 0, gExc = 0;

template <class S>
static void forked(const char *name, int n, long k) {
  std::printf("grow %s n=%d k=%ld ->", name, n, k);
  std::fflush(stdout);
  pid_t pid = fork();
  if (pid == 0) {
    bool threw = false;
    std::string bad = run<S>(n, k, threw);
    std::printf(" %s%s%s\n", threw ? "exc" : "ok", bad.empty() ? "" : " VIOLATION", bad.c_str());
    std::fflush(stdout);
    _exit(bad.empty() ? (threw ? 12 : 0) : 10);
  }
  int st = 0;
  waitpid(pid, &st, 0);
  ++gScen;
  if (WIFEXITED(st) && WEXITSTATUS(st) == 0) return;
  if (WIFEXITED(st) && WEXITSTATUS(st) == 12) {
    ++gExc;
    return;
  }
  ++gBad;
  if (!(WIFEXITED(st) && WEXITSTATUS(st) == 10)) {
    if (WIFSIGNALED(st)) std::printf(" CRASH VIOLATION signal=%d\n", WTERMSIG(st));
    else std::printf(" CRASH VIOLATION exit=%d\n", WEXITSTATUS(st));
  }
}

template <int N>
static void all() {
  using A = ThrowAlloc<Elem>;
  for (long k = 1; k <= N + 2; ++k) {
    forked<amc::SmallSet<Elem, N, Less, A, std::set<Elem, Less, A>>>("stdset", N, k);
    forked<amc::SmallSet<Elem, N, Less, A, amc::FlatSet<Elem, Less, A>>>("flatset", N, k);
  }
}

int main() {
  all<1>();
  all<3>();
  all<4>();
  std::printf("TOTAL scenarios=%ld exc=%ld violations=%ld\n", gScen, gExc, gBad);
  return gBad ? 1 : 0;
}
