// C15 probe (not part of the grid): a source iterator whose operator* returns a prvalue / proxy (iterator_traits::reference is
// not a reference type): a counting iterator and std::vector<bool>::iterator. std::uninitialized_copy accepts both under every
// standard; the pre-C++17 amc::uninitialized_copy selects MemMoveInALoop for them (value type trivially copyable, reference
// not an rvalue reference) and takes std::addressof(*first) of a temporary, which is ill-formed.
// The check compiles this file under each -std and records which standards accept it.
#include <amc/memory.hpp>

#include <cstdio>
#include <iterator>
#include <vector>

struct Counting {
  typedef std::forward_iterator_tag iterator_category;
  typedef int value_type;
  typedef std::ptrdiff_t difference_type;
  typedef const int *pointer;
  typedef int reference;
  int v;
  int operator*() const { return v; }
  Counting &operator++() {
    ++v;
    return *this;
  }
  Counting operator++(int) {
    Counting t(*this);
    ++v;
    return t;
  }
  bool operator==(const Counting &o) const { return v == o.v; }
  bool operator!=(const Counting &o) const { return v != o.v; }
};

int main() {
  int a[3], b[3];
  bool c[3];
  Counting f = {5}, l = {8};
  std::uninitialized_copy(f, l, a);
  amc::uninitialized_copy(f, l, b);
  std::vector<bool> bits(3, true);
  amc::uninitialized_copy(bits.begin(), bits.end(), c);
  bool ok = a[0] == b[0] && a[1] == b[1] && a[2] == b[2] && c[0] && c[1] && c[2];
  std::printf("C15-PROBE prvalue-iterator %s\n", ok ? "ok" : "WRONG");
  return ok ? 0 : 1;
}
