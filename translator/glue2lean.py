#!/usr/bin/env python3
"""glue2lean -- generate the Lean model of the public vector operations ("glue") of amc from the C++ source.

usage: glue2lean.py --include <include dir> --out <VecGlue.lean> [--notes <file>]

Method: clang++-14 dumps the typed JSON AST of explicit instantiations of `VectorImpl`, `DynamicVector`, `StaticVector`
(three flavours: amc::vector, SmallVector, FixedCapacityVector); every selected member body is translated statement by
statement into a monadic Lean definition over the vocabulary of Model/Vec.lean, Prim/Helpers.lean and Prim/Slot.lean.
A member of `VectorImpl` is translated from all three instantiations and the three texts must coincide.

The translator knows a closed set of statements, operators and callees; on anything else it stops with a non-zero exit
status and a message naming file:line and the construct. Nothing is skipped or defaulted, except:
  * `assert(...)` statements (ignored),
  * casts between integer types (dropped: the model computes in unbounded Nat). Every dropped cast that can change the
    value (narrowing, or signed -> unsigned) must be on the reviewed list NARROWING below, else the translator stops.
"""
import argparse, json, os, re, subprocess, sys, tempfile

CLANG = 'clang++-14'
CLANG_TIMEOUT = 300


class Unsupported(Exception):
    pass


TU = r'''#define AMC_NONSTD_FEATURES
#include <amc/vector.hpp>
#include <amc/smallvector.hpp>
#include <amc/fixedcapacityvector.hpp>
#include <forward_list>
struct E { int v; bool operator==(const E& o) const { return v == o.v; } bool operator<(const E& o) const { return v < o.v; } };
using A = amc::allocator<E>;
using Dyn = amc::vec::DynamicGrowingPolicy;
using Exc = amc::vec::ExceptionGrowingPolicy;
template class amc::vec::DynamicVector<E, A, uint32_t, false>;
template class amc::vec::DynamicVector<E, A, uint32_t, true>;
template class amc::vec::StaticVector<E, uint8_t, Exc>;
template class amc::vec::VectorImpl<E, A, uint32_t, false, Dyn>;
template class amc::vec::VectorImpl<E, A, uint32_t, true, Dyn>;
template class amc::vec::VectorImpl<E, amc::vec::EmptyAlloc, uint8_t, true, Exc>;
template <class V> void glue2lean_use(V& v, const E& cr, std::forward_list<E>& fl) {
  v.emplace_back(cr); v.emplace(v.begin(), cr);
  v.insert(v.begin(), fl.begin(), fl.end()); v.assign(fl.begin(), fl.end()); v.append(fl.begin(), fl.end());
}
template void glue2lean_use(amc::vector<E>&, const E&, std::forward_list<E>&);
template void glue2lean_use(amc::SmallVector<E, 4>&, const E&, std::forward_list<E>&);
template void glue2lean_use(amc::FixedCapacityVector<E, 4>&, const E&, std::forward_list<E>&);
'''

INT_BITS = {'unsigned char': (8, False), 'unsigned short': (16, False), 'unsigned int': (32, False),
            'unsigned long': (64, False), 'unsigned long long': (64, False), 'signed char': (8, True),
            'short': (16, True), 'int': (32, True), 'long': (64, True), 'long long': (64, True),
            'bool': (1, False), 'char': (8, True)}

# ------------------------------------------------------------------------------------------------------------------
# Reviewed list of dropped integer casts that can change the value: (generated definition, C++ source type -> target
# type class, Lean term of the operand).  'S' stands for the size_type of the instantiation.  Each entry was checked by
# hand: the operand cannot exceed the target type on any path where the value is used (reason given).  A cast that is
# not listed makes the translator stop.
# ------------------------------------------------------------------------------------------------------------------
NARROWING = {
    # --- arguments of setSize: `setSize cfg c s` of the model stores s modulo 2^bits itself, the conversion IS modelled
    ('appendFill', 'call setSize', 'int', 'S', '(← vsize cfg c) + count'): 'argument of setSize (reduced modulo 2^bits by the model)',
    ('appendN', 'call setSize', 'int', 'S', '(← vsize cfg c) + count'): 'argument of setSize',
    ('appendRange', 'call setSize', 'long', 'S', '(← vsize cfg c) + vals.length'): 'argument of setSize',
    ('assignRange', 'call setSize', 'unsigned long', 'S', 'count'): 'argument of setSize',
    ('eraseRange', 'call setSize', 'int', 'S', '(← vsize cfg c) - n'): 'argument of setSize',
    ('insertCount', 'call setSize', 'int', 'S', '(← vsize cfg c) + count'): 'argument of setSize',
    ('insertRange', 'call setSize', 'long', 'S', '(← vsize cfg c) + count'): 'argument of setSize',
    # --- std::distance(first, last) of a valid range is not negative
    ('appendRange', 'call adjustCapacity', 'long', 'unsigned long', 'vals.length'): 'std::distance of a valid range, >= 0',
    ('assignRange', 'let count', 'long', 'unsigned long', 'vals.length'): 'std::distance of a valid range, >= 0',
    ('insertRange', 'assign pos', 'long', 'unsigned long', 'count'): 'inside `if (count > 0)`',
    # --- element counts that were checked by a successful adjustCapacity(count) just before (count <= capacity <= max S)
    ('assignRange', 'call assign_n', 'unsigned long', 'S', 'count'): 'after adjustCapacity(count) succeeded: count <= capacity()',
    ('insertRange', 'call copy_after_shift', 'long', 'S', 'count'): 'after adjustCapacity(size() + count) succeeded',
    ('insertRange', 'call shift_right', 'long', 'S', 'count'): 'after adjustCapacity(size() + count) succeeded',
    # --- differences of positions inside [begin(), end()] (the asserted preconditions of the members): 0 <= x <= size()
    ('dynEmplace', 'let idx', 'long', 'S', 'position'): 'begin() <= position <= end() (asserted)',
    ('dynEmplace', 'let nElemsToShift', 'long', 'S', '(← vsize cfg c) - position'): 'begin() <= position <= end() (asserted)',
    ('eraseRange', 'call erase_n', 'long', 'S', '(← vsize cfg c) - last'): 'last <= end() (asserted)',
    ('eraseRange', 'let n', 'long', 'S', 'last - first'): 'first <= last <= end() (asserted)',
    ('insertCopy', 'let nElemsToShift', 'long', 'S', '(← vsize cfg c) - position'): 'begin() <= position <= end() (asserted)',
    ('insertCount', 'let nElemsToShift', 'long', 'S', '(← vsize cfg c) - position'): 'begin() <= position <= end() (asserted)',
    ('insertRange', 'let nElemsToShift', 'long', 'S', '(← vsize cfg c) - position'): 'begin() <= position <= end() (asserted)',
}


def parse_concat(src):
    dec = json.JSONDecoder(); i = 0; objs = []
    while i < len(src):
        while i < len(src) and src[i].isspace():
            i += 1
        if i >= len(src):
            break
        o, j = dec.raw_decode(src, i); objs.append(o); i = j
    return objs


def clang_dump(include, src_path, flt):
    cmd = ['timeout', str(CLANG_TIMEOUT), CLANG, '-std=gnu++17', '-I', include, '-fsyntax-only', '-Xclang', '-ast-dump=json',
           '-Xclang', f'-ast-dump-filter={flt}', src_path]
    p = subprocess.run(cmd, capture_output=True, text=True)
    if p.returncode != 0:
        raise Unsupported('clang failed on the instantiation TU (filter %s):\n%s' % (flt, p.stderr[-3000:]))
    return parse_concat(p.stdout)


class LocState:
    def __init__(self):
        self.file = None; self.line = None


def annotate(node, st):
    """clang's JSON omits file/line when unchanged since the previously printed location: replay them in print order"""
    def upd(d):
        if not isinstance(d, dict):
            return
        if 'spellingLoc' in d or 'expansionLoc' in d:
            upd(d.get('spellingLoc')); upd(d.get('expansionLoc')); return
        if 'file' in d:
            st.file = d['file']
        if 'line' in d:
            st.line = d['line']
    if not isinstance(node, dict):
        return
    for k, v in list(node.items()):
        if k == 'loc':
            upd(v)
        elif k == 'range':
            upd(v.get('begin')); node['_file'] = st.file; node['_line'] = st.line; upd(v.get('end'))
        elif k == 'inner':
            for c in v:
                annotate(c, st)


INCLUDE_ROOT = None


def where(n):
    f = n.get('_file') or '?'
    if INCLUDE_ROOT and f.startswith(INCLUDE_ROOT.rstrip('/') + '/'):
        f = 'include/' + f[len(INCLUDE_ROOT.rstrip('/')) + 1:]
    return '%s:%s' % (f, n.get('_line', '?'))


def qt(n):
    t = n.get('type', {})
    return t.get('desugaredQualType', t.get('qualType', ''))


def int_info(ty):
    ty = ty.replace('const ', '').replace('volatile ', '').replace(' &&', '').replace(' &', '').strip()
    return INT_BITS.get(ty)


def paren(s):
    s = s.strip()
    if re.fullmatch(r"[A-Za-z_][A-Za-z0-9_.']*|\d+", s):
        return s
    if s.startswith('(') and s.endswith(')'):
        d = 0
        for i, ch in enumerate(s):
            if ch == '(':
                d += 1
            elif ch == ')':
                d -= 1
                if d == 0 and i != len(s) - 1:
                    break
        else:
            return s
    return '(' + s + ')'


class V:
    """a translated C++ value.
       kind 'nat'   : integer                          term : Nat
            'prop'  : condition                        term : Prop (decidable)
            'ref'   : const T& (lvalue of element type) term : Ref α
            'rval'  : T&& / std::move(outside object)   term : α
            'arg'   : Args&&...                         term : Arg α
            'elem'  : a local object of type T          term : α
            'ptr'   : pointer into the buffer of *this  idx : Nat term (position relative to begin()),
                                                        addr : Addr term, or None = `(← posAddr cfg c idx)`
            'addr'  : pointer elsewhere (temporary)     term : Addr
            'refptr': const T* designating a `const T&` term : Ref α
            'vals'  : the iterator range [first,last)   term : List α
            'unit'
    """
    def __init__(self, kind, term=None, idx=None, addr=None, name=None):
        self.kind, self.term, self.idx, self.addr, self.name = kind, term, idx, addr, name


SLOT_CALLEES = {}   # filled by the Translator methods named call_<callee>


class Fn:
    """one generated definition"""
    def __init__(self, lean_name, cpp_sig, loc):
        self.lean_name, self.cpp_sig, self.loc = lean_name, cpp_sig, loc
        self.params = []      # list of (name, type)
        self.ret = 'Unit'
        self.lines = []
        self.inhabited = False


class Translator:
    def __init__(self, cls, spec_tag, method, lean_name, range_type=None, notes=None, known=None):
        self.cls = cls                  # 'VectorImpl' | 'DynamicVector' | 'StaticVector'
        self.tag = spec_tag
        self.m = method
        self.fn = Fn(lean_name, method.get('type', {}).get('qualType', ''), where(method))
        self.range_type = range_type    # the template argument standing for ForwardIt / InputIt, if any
        self.env = {}
        self.stale = set()
        self.pre = []                   # statements to flush before the current one
        self.notes = notes if notes is not None else []
        self.known = known or {}
        self.ret_kind = None
        self.guarded = set()
        self.ctx = '?'
        self.size_ty = size_type_of(spec_tag)
        self.elem_type = 'E'

    # ----------------------------------------------------------------------------------------------------------
    def fail(self, n, what):
        raise Unsupported('%s: in %s::%s [%s]: %s' % (where(n), self.cls, self.m.get('name'), self.tag, what))

    # ---- types -----------------------------------------------------------------------------------------------
    def is_elem_ptr(self, ty):
        return ty in ('E *', 'const E *')

    def classify_param(self, p):
        name = p.get('name'); ty = qt(p); raw = p.get('type', {}).get('qualType', '')
        if name is None:
            if 'iterator_tag' in ty:
                return None
            if ty == 'const E **':
                return None
            self.fail(p, 'unnamed parameter of type ' + ty)
        if self.range_type is not None and raw in ('InputIt', 'ForwardIt', self.range_type) and name in ('first', 'last'):
            return ('vals', name)
        if name == 'args' and ty in ('const E &', 'E &&'):
            return ('arg', name)
        if ty == 'const E &':
            return ('ref', name)
        if ty == 'E &&':
            return ('rval', name)
        if self.is_elem_ptr(ty):
            if name == 'newElem':
                return ('addr', name)
            return ('ptr', name)
        if ty == 'const E **':
            return ('ptrptr', name)
        if int_info(ty) is not None and ty != 'bool':
            return ('nat', name)
        if 'iterator_tag' in ty:
            return None
        self.fail(p, 'parameter %s of unsupported type %s' % (name, ty))

    # ---- expression helpers -----------------------------------------------------------------------------------
    CAST_KINDS_TRANSPARENT = {None, 'NoOp', 'LValueToRValue', 'UncheckedDerivedToBase', 'DerivedToBase', 'FunctionToPointerDecay',
                              'ToVoid', 'ConstructorConversion'}
    WRAPPERS = {'ImplicitCastExpr', 'ParenExpr', 'ExprWithCleanups', 'MaterializeTemporaryExpr', 'CXXStaticCastExpr',
                'CXXConstCastExpr', 'CStyleCastExpr', 'CXXFunctionalCastExpr', 'CXXBindTemporaryExpr'}

    def strip(self, n):
        """remove value-preserving wrappers; integer casts are checked and recorded by `ex`"""
        while n.get('kind') in self.WRAPPERS and n.get('castKind') in self.CAST_KINDS_TRANSPARENT:
            n = n['inner'][0]
        return n

    def callee(self, n):
        """(name, member?, declaring class or None) of a call expression"""
        f = self.strip(n['inner'][0])
        if f['kind'] == 'MemberExpr':
            base = f['inner'][0]
            b = self.strip(base)
            cls = None
            bt = qt(base).replace('const ', '')
            mt = re.match(r'(?:amc::vec::)?(\w+)<', bt)
            if mt:
                cls = mt.group(1)
            return f.get('name'), True, cls, b
        if f['kind'] == 'DeclRefExpr':
            rd = f.get('referencedDecl', {})
            return rd.get('name'), False, None, None
        self.fail(n, 'callee expression of kind ' + f['kind'])

    def args_of(self, n):
        return [a for a in n['inner'][1:] if a.get('kind') != 'CXXDefaultArgExpr'], [a for a in n['inner'][1:] if a.get('kind') == 'CXXDefaultArgExpr']

    def record_cast(self, n, inner_val, from_ty, to_ty):
        fi, ti = int_info(from_ty), int_info(to_ty)
        if fi is None or ti is None:
            return
        (fb, fs), (tb, ts) = fi, ti
        if to_ty.strip() == 'bool' or from_ty.strip() == 'bool':
            self.fail(n, 'integer <-> bool conversion')
        changing = tb < fb or (fs and not ts) or (not fs and ts and tb <= fb)
        if not changing:
            return
        if re.fullmatch(r'\d+', inner_val.term) and int(inner_val.term) < 2 ** (tb - (1 if ts else 0)):
            return   # a literal that fits
        to_cls = 'S' if to_ty.strip() == self.size_ty else to_ty.strip()
        key = (self.fn.lean_name, self.ctx, from_ty.strip(), to_cls, inner_val.term)
        if key not in NARROWING:
            self.fail(n, "integer conversion %s -> %s of '%s' (in `%s`) can change the value and is not on the reviewed list NARROWING"
                      % (from_ty.strip(), to_ty.strip(), inner_val.term, self.ctx))
        self.notes.append(key + (where(n), self.tag))

    # ---- pointers ---------------------------------------------------------------------------------------------
    def mat(self, v, n):
        """Addr term of a pointer value"""
        if v.kind == 'addr':
            return v.term
        if v.kind != 'ptr':
            self.fail(n, 'an address is needed, found a value of kind ' + v.kind)
        if v.addr is not None:
            return v.addr
        if v.idx is None:
            self.fail(n, 'use of a pointer that designates no known position')
        return '(← posAddr cfg c %s)' % paren(v.idx)

    def use_var(self, name, n):
        if name in self.stale:
            self.fail(n, "use of pointer '%s' after a call that may reallocate the buffer (possibly invalidated)" % name)
        if name not in self.env:
            self.fail(n, "reference to unknown variable '%s'" % name)
        return self.env[name]

    def invalidate(self, keep=()):
        for k, v in self.env.items():
            if v.kind == 'ptr' and k not in keep:
                self.stale.add(k)

    # ---- expressions ------------------------------------------------------------------------------------------
    def ex(self, n):
        k = n.get('kind')
        if k in self.WRAPPERS:
            ck = n.get('castKind')
            inner = n['inner'][0]
            if ck == 'IntegralCast' or (k in ('CXXStaticCastExpr', 'CStyleCastExpr', 'CXXFunctionalCastExpr') and ck == 'NoOp'
                                        and int_info(qt(n)) is not None and int_info(qt(inner)) is not None):
                v = self.ex(inner)
                if v.kind in ('neg1', 'optnat'):
                    return v
                if v.kind != 'nat':
                    self.fail(n, 'integer cast of a value of kind ' + v.kind)
                self.record_cast(n, v, qt(inner), qt(n))
                return v
            if ck in self.CAST_KINDS_TRANSPARENT:
                return self.ex(inner)
            self.fail(n, '%s with cast kind %s' % (k, ck))
        if k == 'IntegerLiteral':
            return V('nat', str(int(n['value'])))
        if k == 'CXXBoolLiteralExpr':
            return V('bool', 'true' if n['value'] else 'false')
        if k == 'DeclRefExpr':
            rd = n.get('referencedDecl', {})
            if rd.get('kind') not in ('ParmVarDecl', 'VarDecl'):
                self.fail(n, 'reference to a %s' % rd.get('kind'))
            return self.use_var(rd.get('name'), n)
        if k == 'CXXThisExpr':
            return V('this')
        if k == 'BinaryOperator':
            return self.binop(n)
        if k == 'UnaryOperator':
            return self.unop(n)
        if k in ('CallExpr', 'CXXMemberCallExpr'):
            return self.call(n)
        if k == 'CXXTemporaryObjectExpr' or k == 'CXXConstructExpr':
            if self.range_type is not None and qt(n).replace('const ', '') == self.range_type and len(n.get('inner', [])) == 1:
                return self.ex(n['inner'][0])     # copy of an iterator of the range
            if qt(n).replace('const ', '') == self.elem_type and len(n.get('inner', [])) == 1:
                # copy / move construction of an element: the source decides (only T x = std::move(*p) and `return x` occur)
                v = self.ex(n['inner'][0])
                if v.kind in ('xval', 'elem'):
                    return v
                self.fail(n, 'construction of an element from a value of kind ' + v.kind)
            if 'iterator_tag' in qt(n):
                return V('tag', qt(n))
            self.fail(n, 'construction of ' + qt(n))
        if k == 'ConditionalOperator':
            c, t, f = n['inner']
            fv = self.ex(f)
            if fv.kind != 'neg1':
                self.fail(n, 'conditional operator (only `cond ? index : -1` is known)')
            cv = self.cond(c); tv = self.nat(t)
            # Lean does not lift `(← …)` out of the branches of an `if` term: the reads (const noexcept accessors) are
            # evaluated before the conditional expression, once each
            term = 'if %s then some %s else none' % (cv, paren(tv))
            for rd in sorted(set(re.findall(r'\(← (\w+) cfg c\)', term))):
                self.emit_pre('let r_%s ← %s cfg c' % (rd, rd))
                term = term.replace('(← %s cfg c)' % rd, 'r_%s' % rd)
            return V('optval', term)
        if k == 'ArraySubscriptExpr':
            b = self.ex(n['inner'][0]); i = self.nat(n['inner'][1])
            if b.kind != 'ptr':
                self.fail(n, 'subscript of a value of kind ' + b.kind)
            return V('lval', idx=None, addr='%s.add %s' % (paren(self.mat(b, n)), paren(i)))
        self.fail(n, 'expression of kind ' + str(k))

    def nat(self, n):
        v = self.ex(n)
        if v.kind == 'optnat':
            if v.term not in self.guarded:
                self.fail(n, "use of the optional index '%s' outside of `if (%s != -1)`" % (v.term, v.term))
            return '%s.getD 0' % v.term
        if v.kind != 'nat':
            self.fail(n, 'an integer is needed, found a value of kind ' + v.kind)
        return v.term

    def binop(self, n):
        op = n['opcode']; l, r = n['inner']
        if op in ('&&', '||'):
            a, b = self.ex(l), self.ex(r)
            if a.kind != 'prop' or b.kind != 'prop':
                self.fail(n, 'logical operator on non-conditions')
            return V('prop', '%s %s %s' % (paren(a.term), '∧' if op == '&&' else '∨', paren(b.term)))
        a, b = self.ex(l), self.ex(r)
        # pointer to a `const T&` argument compared with / subtracted from a pointer into the buffer
        if a.kind == 'refptr' and b.kind == 'ptr':
            if op == '>=':
                return V('prop', 'refGe %s %s = true' % (paren(a.term), paren(self.mat(b, n))))
            if op == '<':
                return V('prop', 'refLt %s %s = true' % (paren(a.term), paren(self.mat(b, n))))
            if op == '-':
                return V('nat', 'refDiff %s %s' % (paren(a.term), paren(self.mat(b, n))))
            self.fail(n, "operator '%s' between the address of a const T& and a buffer pointer" % op)
        if a.kind == 'optnat' and b.kind == 'neg1' and op in ('!=', '=='):
            return V('prop', '%s %s none' % (a.term, '≠' if op == '!=' else '='), name=('guard:' + a.term) if op == '!=' else None)
        if op in ('+', '-'):
            if a.kind == 'nat' and b.kind == 'nat':
                return V('nat', '%s %s %s' % (self.arith(a.term, op, True), op, self.arith(b.term, op, False)))
            if a.kind == 'ptr' and b.kind == 'nat':
                if a.idx is None:
                    return V('ptr', idx=None, addr=('%s.add %s' if op == '+' else 'subA %s %s') % (paren(self.mat(a, n)), paren(b.term)))
                if op == '+':
                    idx = b.term if a.idx == '0' else '%s + %s' % (self.arith(a.idx, '+', True), self.arith(b.term, '+', False))
                    # begin() + size() is end()
                    if a.addr == '(← vbegin cfg c)' and b.term == '(← vsize cfg c)':
                        return V('ptr', idx='(← vsize cfg c)', addr='(← vend cfg c)')
                    return V('ptr', idx=idx, addr='%s.add %s' % (paren(self.mat(a, n)), paren(b.term)))
                idx = '%s - %s' % (self.arith(a.idx, '-', True), self.arith(b.term, '-', False))
                return V('ptr', idx=idx, addr='subA %s %s' % (paren(self.mat(a, n)), paren(b.term)))
            if a.kind == 'ptr' and b.kind == 'ptr' and op == '-':
                if a.idx is None or b.idx is None:
                    self.fail(n, 'difference of pointers whose index is not tracked')
                if b.idx == '0':
                    return V('nat', a.idx)
                return V('nat', '%s - %s' % (self.arith(a.idx, '-', True), self.arith(b.idx, '-', False)))
            self.fail(n, "operator '%s' on values of kind %s, %s" % (op, a.kind, b.kind))
        if op in ('<', '>', '<=', '>=', '==', '!='):
            if a.kind == 'nat' and b.kind == 'nat':
                lop = {'<': '<', '>': '>', '<=': '≤', '>=': '≥', '==': '=', '!=': '≠'}[op]
                return V('prop', '%s %s %s' % (self.arith(a.term, '<', True), lop, self.arith(b.term, '<', False)))
            self.fail(n, "comparison '%s' on values of kind %s, %s" % (op, a.kind, b.kind))
        if op == '=':
            self.fail(n, 'assignment used as an expression')
        self.fail(n, "binary operator '%s'" % op)

    @staticmethod
    def arith(t, op, left):
        """parenthesise an operand of + / - / comparison when needed"""
        t = t.strip()
        if re.fullmatch(r"[A-Za-z_][A-Za-z0-9_.']*|\d+", t):
            return t
        if paren(t) == t:
            return t
        if op == '<':
            return t if not re.search(r'[<>≤≥=≠∧∨]', t) else '(' + t + ')'
        if op == '+' or (op == '-' and left):
            # a + b + c and a - b - c associate to the left
            return t if not re.search(r'[<>≤≥=≠∧∨]', t) and left else '(' + t + ')'
        return '(' + t + ')'

    def unop(self, n):
        op = n['opcode']; x = n['inner'][0]
        if op == '*':
            v = self.ex(x)
            if v.kind == 'refptr':
                return V('ref', v.term)
            if v.kind == 'ptr':
                return V('lval', idx=v.idx, addr=v.addr)
            self.fail(n, 'dereference of a value of kind ' + v.kind)
        if op == '-':
            v = self.ex(x)
            if v.kind == 'nat' and v.term == '1':
                return V('neg1')      # the sentinel -1 of an optional index
            self.fail(n, "unary minus")
        if op == '!':
            v = self.ex(x)
            if v.kind != 'prop':
                self.fail(n, "'!' on a value of kind " + v.kind)
            return V('prop', '¬ ' + paren(v.term))
        if op == '&':
            s = self.strip(x)
            if s['kind'] == 'DeclRefExpr' and self.env.get(s['referencedDecl'].get('name'), V('x')).kind == 'ptr':
                return V('ptrptr', name=s['referencedDecl']['name'])
            self.fail(n, "address-of")
        self.fail(n, "unary operator '%s'" % op)

    # ---- calls ------------------------------------------------------------------------------------------------
    def emit_pre(self, line):
        self.pre.append(line)

    def call(self, n):
        name, is_member, cls, base = self.callee(n)
        args, defaults = self.args_of(n)
        h = getattr(self, ('m_' if is_member else 'f_') + str(name), None)
        if h is None:
            self.fail(n, "call of unknown %s '%s'" % ('member' if is_member else 'function', name))
        if is_member:
            if base.get('kind') != 'CXXThisExpr':
                # e.ptr() on the ElemStorage temporary is the only member call on another object
                if not (name == 'ptr' and base.get('kind') == 'DeclRefExpr' and self.env.get(base['referencedDecl'].get('name'), V('x')).kind == 'tmp'):
                    self.fail(n, "member call '%s' on an object other than *this" % name)
            return h(n, args, defaults, cls)
        return h(n, args, defaults)

    # members of the base classes (Words*.lean) and of VectorImpl -------------------------------------------------
    def noargs(self, n, args, name):
        if args:
            self.fail(n, "'%s' with arguments" % name)

    def m_size(self, n, args, d, cls):
        self.noargs(n, args, 'size'); return V('nat', '(← vsize cfg c)')

    def m_capacity(self, n, args, d, cls):
        self.noargs(n, args, 'capacity'); return V('nat', '(← vcap cfg c)')

    def m_begin(self, n, args, d, cls):
        self.noargs(n, args, 'begin'); return V('ptr', idx='0', addr='(← vbegin cfg c)')

    m_cbegin = m_begin

    def m_end(self, n, args, d, cls):
        self.noargs(n, args, 'end'); return V('ptr', idx='(← vsize cfg c)', addr='(← vend cfg c)')

    m_cend = m_end

    def m_dynStorage(self, n, args, d, cls):
        self.noargs(n, args, 'dynStorage'); return V('ptr', idx='0', addr='(← vdyn cfg c)')

    def m_back(self, n, args, d, cls):
        # reference back() { assert(!empty()); return *(end() - 1); }   (checked: see BACK_BODY)
        self.noargs(n, args, 'back')
        return V('lval', idx='(← vsize cfg c) - 1', addr='subA (← vend cfg c) 1')

    def m_ptr(self, n, args, d, cls):
        self.noargs(n, args, 'ptr'); return V('addr', 'tmpAddr')

    def stmt_call(self, line, growing=False, keep=()):
        """an effectful call: returns unit; the line is emitted by the statement translator"""
        if growing:
            self.invalidate(keep)
        return V('action', line)

    def m_incrSize(self, n, args, d, cls):
        self.noargs(n, args, 'incrSize'); return self.stmt_call('incrSize cfg c')

    def m_decrSize(self, n, args, d, cls):
        self.noargs(n, args, 'decrSize'); return self.stmt_call('decrSize cfg c')

    def m_setSize(self, n, args, d, cls):
        if len(args) != 1:
            self.fail(n, 'setSize arity')
        return self.stmt_call('setSize cfg c %s' % paren(self.nat(args[0])))

    def m_grow(self, n, args, d, cls):
        if len(args) == 2:
            e = self.ex(args[1])
            if e.kind != 'bool':
                self.fail(n, 'grow: second argument')
            exact = e.term
        elif len(args) == 1 and len(d) == 1:
            exact = 'false'     # void grow(uintmax_t minSize, bool exact = false)  (checked: see GROW_DEFAULT)
        else:
            self.fail(n, 'grow arity')
        return self.stmt_call('grow cfg c %s %s' % (paren(self.nat(args[0])), exact), growing=True)

    def m_growOrDestroy(self, n, args, d, cls):
        a = self.ex(args[0])
        return self.stmt_call('growOrDestroy cfg c %s' % paren(self.mat(a, n)), growing=True)

    def m_adjustCapacity(self, n, args, d, cls):
        if cls not in ('DynamicVector', 'StaticVector'):
            self.fail(n, 'adjustCapacity of class ' + str(cls))
        own = self.cls in ('DynamicVector', 'StaticVector')     # a call inside the flavour class itself
        pre = ('dyn' if self.cls == 'DynamicVector' else 'static') if own else ''
        def nm(s):
            return (pre + s[0].upper() + s[1:]) if pre else s
        needed = paren(self.nat(args[0]))
        if len(args) == 1:
            return self.stmt_call('%s cfg c %s' % (nm('adjustCapacity'), needed), growing=True)
        a1 = self.ex(args[1])
        if len(args) == 2 and a1.kind == 'ptr':
            # T* adjustCapacity(n, position): positions are indices, the returned pointer designates the same index
            line = '%s cfg c %s' % (nm('adjustCapacity'), needed)
            self.emit_pre(line)
            self.invalidate()
            return V('ptr', idx=a1.idx, addr=None)
        if len(args) == 2 and a1.kind == 'ref':
            self.invalidate()
            return V('refaction', '%s cfg c %s %s' % (nm('adjustCapacityRef'), needed, paren(a1.term)))
        if len(args) == 3 and a1.kind == 'ref':
            a2 = self.ex(args[2])
            if a2.kind != 'ptrptr':
                self.fail(n, 'adjustCapacity: third argument')
            # the position is an index: re-based by construction
            self.invalidate(keep=(a2.name,))
            return V('refaction', '%s cfg c %s %s' % (nm('adjustCapacityRef'), needed, paren(a1.term)))
        self.fail(n, 'adjustCapacity overload')

    def m_Check(self, n, args, d, cls):
        self.fail(n, 'Check as a member call')

    # generated members called by other members
    def gen_member(self, n, cname, nargs_expected):
        if cname not in self.known:
            self.fail(n, "call of member '%s' which is not generated" % cname)
        return self.known[cname]

    def m_pop_back(self, n, args, d, cls):
        self.noargs(n, args, 'pop_back'); return self.stmt_call('popBack cfg c')

    def m_clear(self, n, args, d, cls):
        self.noargs(n, args, 'clear'); return self.stmt_call('clear cfg c')

    def range_args(self, n, args):
        a, b = self.ex(args[0]), self.ex(args[1])
        if not (a.kind == 'vals' and b.kind == 'vals' and a.name == 'first' and b.name == 'last'):
            self.fail(n, 'a call with the range [first, last) is expected')
        return 'vals'

    def m_insert_range(self, n, args, d, cls):
        p = self.ex(args[0]); self.range_args(n, args[1:3]); t = self.ex(args[3])
        if t.kind != 'tag' or 'forward_iterator_tag' not in t.term or p.kind != 'ptr':
            self.fail(n, 'insert_range: only the forward iterator dispatch is generated (tag %s)' % t.term)
        self.invalidate()
        return V('ptraction', 'insertRange cfg c %s vals' % paren(p.idx))

    def m_assign_range(self, n, args, d, cls):
        self.range_args(n, args[0:2]); t = self.ex(args[2])
        if t.kind != 'tag' or 'forward_iterator_tag' not in t.term:
            self.fail(n, 'assign_range: only the forward iterator dispatch is generated (tag %s)' % t.term)
        return self.stmt_call('assignRange cfg c vals', growing=True)

    def m_append_range(self, n, args, d, cls):
        self.range_args(n, args[0:2]); t = self.ex(args[2])
        if t.kind != 'tag' or 'forward_iterator_tag' not in t.term:
            self.fail(n, 'append_range: only the forward iterator dispatch is generated (tag %s)' % t.term)
        return self.stmt_call('appendRange cfg c vals', growing=True)

    # free functions --------------------------------------------------------------------------------------------
    def f_move(self, n, args, d):
        x = self.strip(args[0])
        if len(args) != 1:
            self.fail(n, 'std::move with %d arguments' % len(args))
        v = self.ex(args[0])
        if v.kind == 'rval':
            return V('rval', v.term)
        if v.kind == 'lval':
            return V('xval', idx=v.idx, addr=v.addr)
        self.fail(n, 'std::move of a value of kind ' + v.kind)

    def f_forward(self, n, args, d):
        v = self.ex(args[0])
        if v.kind not in ('arg',):
            self.fail(n, 'std::forward of a value of kind ' + v.kind)
        return v

    def f_distance(self, n, args, d):
        self.range_args(n, args)
        return V('nat', 'vals.length')

    def f_addressof(self, n, args, d):
        v = self.ex(args[0])
        if v.kind != 'ref':
            self.fail(n, 'std::addressof of a value of kind ' + v.kind)
        return V('refptr', v.term)

    def elemarg(self, v, n):
        """the Arg α designating the source of a construction / insertion"""
        if v.kind == 'ref':
            return '(.copy %s)' % v.term if ' ' not in v.term else '(.copy (%s))' % v.term
        if v.kind == 'rval':
            return '(.move %s)' % v.term
        if v.kind == 'arg':
            return v.term
        self.fail(n, 'an element argument is needed, found a value of kind ' + v.kind)

    def f_construct_at(self, n, args, d):
        p = self.mat(self.ex(args[0]), n)
        if len(args) != 2:
            self.fail(n, 'construct_at with %d arguments' % len(args))
        v = self.ex(args[1])
        if v.kind == 'ref':
            return self.stmt_call('constructCopyRef %s %s' % (paren(p), paren(v.term)))
        if v.kind == 'rval':
            return self.stmt_call('constructFromRvalue %s %s' % (paren(p), paren(v.term)))
        if v.kind == 'arg':
            return self.stmt_call('constructArg %s %s' % (paren(p), paren(v.term)))
        self.fail(n, 'construct_at from a value of kind ' + v.kind)

    def f_destroy_at(self, n, args, d):
        return self.stmt_call('destroyAt %s' % paren(self.mat(self.ex(args[0]), n)))

    def f_destroy_n(self, n, args, d):
        return self.stmt_call('destroyN %s %s' % (paren(self.mat(self.ex(args[0]), n)), paren(self.nat(args[1]))))

    def f_destroy(self, n, args, d):
        a = self.ex(args[0]); b = self.ex(args[1])
        if a.kind != 'ptr' or b.kind != 'ptr':
            self.fail(n, 'amc::destroy on values of kind %s, %s' % (a.kind, b.kind))
        return self.stmt_call('destroyN %s (%s - %s)' % (paren(self.mat(a, n)), self.arith(b.idx, '-', True), self.arith(a.idx, '-', False)))

    def f_uninitialized_value_construct_n(self, n, args, d):
        self.fn.inhabited = True
        return self.stmt_call('uninitValueN %s %s' % (paren(self.mat(self.ex(args[0]), n)), paren(self.nat(args[1]))))

    def ref_of(self, a, n):
        v = self.ex(a)
        if v.kind != 'ref':
            self.fail(n, 'a const T& is needed, found a value of kind ' + v.kind)
        return paren(v.term)

    def f_uninitialized_fill_n(self, n, args, d):
        return self.stmt_call('uninitFillRef %s %s %s' % (paren(self.mat(self.ex(args[0]), n)), paren(self.nat(args[1])), self.ref_of(args[2], n)))

    def f_fill_n(self, n, args, d):
        return self.stmt_call('fillRef %s %s %s' % (paren(self.mat(self.ex(args[0]), n)), paren(self.nat(args[1])), self.ref_of(args[2], n)))

    def need_count(self, n, a):
        t = self.nat(a)
        if self.expand(t) != 'vals.length':
            self.fail(n, "the element count '%s' of a range operation is not std::distance(first, last)" % t)

    def expand(self, t):
        """inline the pure local definitions (used to compare counts)"""
        for _ in range(8):
            t2 = t
            for k, v in self.env.items():
                if v.kind == 'nat' and v.name == 'let' and v.idx is not None:
                    t2 = re.sub(r'\b%s\b' % re.escape(k), v.idx, t2)
            if t2 == t:
                break
            t = t2
        return t

    def first_only(self, n, a):
        v = self.ex(a)
        if not (v.kind == 'vals' and v.name == 'first'):
            self.fail(n, "'first' is expected")

    def f_uninitialized_copy_n(self, n, args, d):
        self.first_only(n, args[0]); self.need_count(n, args[1])
        return self.stmt_call('uninitCopyN %s vals' % paren(self.mat(self.ex(args[2]), n)))

    def f_uninitialized_copy(self, n, args, d):
        self.range_args(n, args[0:2])
        dst = self.ex(args[2])
        if dst.kind != 'ptr':
            self.fail(n, 'uninitialized_copy: destination')
        self.emit_pre('uninitCopyN %s vals' % paren(self.mat(dst, n)))
        return V('ptr', idx='%s + vals.length' % self.arith(dst.idx, '+', True), addr='%s.add vals.length' % paren(self.mat(dst, n)))

    def f_copy(self, n, args, d):
        self.range_args(n, args[0:2])
        dst = self.ex(args[2])
        if dst.kind != 'ptr':
            self.fail(n, 'std::copy: destination')
        self.emit_pre('copyN %s vals' % paren(self.mat(dst, n)))
        idx = 'vals.length' if dst.idx == '0' else '%s + vals.length' % self.arith(dst.idx, '+', True)
        return V('ptr', idx=idx, addr='%s.add vals.length' % paren(self.mat(dst, n)))

    def f_shift_right(self, n, args, d):
        p = paren(self.mat(self.ex(args[0]), n))
        if len(args) == 2:
            return self.stmt_call('shiftRight1 %s %s' % (p, paren(self.nat(args[1]))))
        if len(args) == 3:
            return self.stmt_call('shiftRightN %s %s %s' % (p, paren(self.nat(args[1])), paren(self.nat(args[2]))))
        self.fail(n, 'shift_right arity')

    def f_shift_left(self, n, args, d):
        return self.stmt_call('shiftLeft %s %s' % (paren(self.mat(self.ex(args[0]), n)), paren(self.nat(args[1]))))

    def f_fill_after_shift(self, n, args, d):
        return self.stmt_call('fillAfterShift %s %s %s %s' % (paren(self.mat(self.ex(args[0]), n)), paren(self.nat(args[1])),
                                                          paren(self.nat(args[2])), self.ref_of(args[3], n)))

    def f_copy_after_shift(self, n, args, d):
        self.first_only(n, args[0]); self.need_count(n, args[2])
        return self.stmt_call('copyAfterShift vals %s %s' % (paren(self.nat(args[1])), paren(self.mat(self.ex(args[3]), n))))

    def f_assign_n(self, n, args, d):
        self.first_only(n, args[0]); self.need_count(n, args[1])
        return self.stmt_call('assignN vals %s %s' % (paren(self.mat(self.ex(args[2]), n)), paren(self.nat(args[3]))))

    def f_fill(self, n, args, d):
        return self.stmt_call('fillHelper %s %s %s %s' % (paren(self.mat(self.ex(args[0]), n)), paren(self.nat(args[1])),
                                                      paren(self.nat(args[2])), self.ref_of(args[3], n)))

    def f_insert_n(self, n, args, d):
        return self.stmt_call('insertN %s %s %s' % (paren(self.mat(self.ex(args[0]), n)), paren(self.nat(args[1])), self.elemarg(self.ex(args[2]), n)))

    def f_emplace_n(self, n, args, d):
        if len(args) != 3:
            self.fail(n, 'emplace_n with %d arguments' % len(args))
        return self.stmt_call('emplaceN %s %s %s' % (paren(self.mat(self.ex(args[0]), n)), paren(self.nat(args[1])), self.elemarg(self.ex(args[2]), n)))

    def f_erase_at(self, n, args, d):
        return self.stmt_call('eraseAt %s %s' % (paren(self.mat(self.ex(args[0]), n)), paren(self.nat(args[1]))))

    def f_erase_n(self, n, args, d):
        return self.stmt_call('eraseN %s %s %s' % (paren(self.mat(self.ex(args[0]), n)), paren(self.nat(args[1])), paren(self.nat(args[2]))))

    def f_relocate_at(self, n, args, d):
        return self.stmt_call('relocateAt %s %s' % (paren(self.mat(self.ex(args[0]), n)), paren(self.mat(self.ex(args[1]), n))))

    def f_relocate_after_shift(self, n, args, d):
        return self.stmt_call('relocateAfterShift %s %s' % (paren(self.mat(self.ex(args[0]), n)), paren(self.mat(self.ex(args[1]), n))))

    def f_address_after_shift(self, n, args, d):
        v = self.ref_of(args[0], n)
        return V('refptr', 'addressAfterShift %s %s %s %s' % (v, paren(self.mat(self.ex(args[1]), n)), paren(self.nat(args[2])), paren(self.nat(args[3]))))

    def f_Check(self, n, args, d):
        # GrowingPolicy::Check(needed, capacity): the policy is a template parameter, `policyCheck` dispatches on cfg.checked
        return self.stmt_call('policyCheck cfg %s %s' % (paren(self.nat(args[0])), paren(self.nat(args[1]))))

    # ---- statements -------------------------------------------------------------------------------------------
    def is_assert(self, n):
        s = n
        while s.get('kind') in ('ParenExpr', 'ExprWithCleanups'):
            s = s['inner'][0]
        if s.get('kind') != 'ConditionalOperator' or qt(s) != 'void':
            return False
        f = s['inner'][2]
        if f.get('kind') != 'CallExpr':
            return False
        c = self.strip(f['inner'][0])
        return c.get('kind') == 'DeclRefExpr' and c.get('referencedDecl', {}).get('name') == '__assert_fail'

    def flush(self, out, ind):
        for l in self.pre:
            out.append(ind + l)
        self.pre = []

    def block(self, stmts, ind, last_in_fn):
        """translate a statement list; returns the lines"""
        out = []
        for i, s in enumerate(stmts):
            self.stmt(s, out, ind, last_in_fn and i == len(stmts) - 1)
        return out

    def stmts_of(self, n):
        if n.get('kind') == 'CompoundStmt':
            return n.get('inner', [])
        return [n]

    def stmt(self, n, out, ind, is_last):
        k = n.get('kind')
        if k == 'NullStmt':
            return
        if self.is_assert(n):
            return
        if k == 'CompoundStmt':
            for i, s in enumerate(n.get('inner', [])):
                self.stmt(s, out, ind, is_last and i == len(n['inner']) - 1)
            return
        if k == 'DeclStmt':
            for d in n['inner']:
                self.decl(d, out, ind)
            return
        if k == 'IfStmt':
            return self.ifstmt(n, out, ind)
        if k == 'ReturnStmt':
            return self.ret(n, out, ind, is_last)
        if k == 'CXXTryStmt':
            return self.trystmt(n, out, ind)
        if k in ('ForStmt', 'WhileStmt', 'DoStmt', 'CXXForRangeStmt', 'SwitchStmt', 'BreakStmt', 'ContinueStmt', 'GotoStmt'):
            self.fail(n, 'statement of kind ' + k)
        # expression statement
        s = self.strip(n)
        if s.get('kind') == 'BinaryOperator' and s.get('opcode') == '=':
            return self.assign(s, out, ind)
        if s.get('kind') in ('CallExpr', 'CXXMemberCallExpr'):
            self.ctx = 'call ' + str(self.callee(s)[0])
            v = self.call(s)
            self.flush(out, ind)
            if v.kind == 'action':
                out.append(ind + v.term)
                return
            if v.kind == 'ptr' and v.addr is None:
                return        # adjustCapacity(n, pos) whose result is unused: the call itself was emitted by flush
            self.fail(n, 'call used as a statement yields a value of kind ' + v.kind)
        self.fail(n, 'statement of kind ' + str(k))

    def decl(self, d, out, ind):
        if d.get('kind') != 'VarDecl':
            self.fail(d, 'declaration of kind ' + str(d.get('kind')))
        name = d['name']; ty = qt(d)
        self.ctx = 'let ' + name
        inits = [c for c in d.get('inner', []) if c.get('kind') not in ('FullComment',)]
        if ty.startswith('amc::vec::ElemStorage<'):
            # ElemStorage<T> e;  raw storage for one element: the temporary slot of the model
            if name != 'e':
                self.fail(d, 'ElemStorage local with an unexpected name')
            self.env[name] = V('tmp')
            return
        if not inits:
            if self.is_elem_ptr(ty):
                self.env[name] = V('ptr', idx=None, addr=None, name='undef')
                self.stale.add(name)   # unusable until assigned
                return
            self.fail(d, "local '%s' of type %s without initialiser" % (name, ty))
        init = inits[0]
        if ty == 'const E &':
            v = self.ex(init); self.flush(out, ind)
            if v.kind == 'refaction':
                out.append(ind + 'let %s ← %s' % (name, v.term))
                self.env[name] = V('ref', name)
                return
            self.fail(d, 'reference local bound to a value of kind ' + v.kind)
        if self.is_elem_ptr(ty):
            v = self.ex(init); self.flush(out, ind)
            if v.kind == 'refptr':
                if re.fullmatch(r'\w+', v.term):
                    self.env[name] = V('refptr', v.term)     # the address of a reference argument: an alias
                else:
                    out.append(ind + 'let %s := %s' % (name, v.term))
                    self.env[name] = V('refptr', name)
                return
            if v.kind != 'ptr':
                self.fail(d, 'pointer local bound to a value of kind ' + v.kind)
            self.bind_ptr(name, v, out, ind)
            return
        if int_info(ty) is not None and ty != 'bool':
            v = self.ex(init); self.flush(out, ind)
            if v.kind == 'optval':
                if int_info(ty)[1] is not True:
                    self.fail(d, 'optional index in an unsigned local')
                out.append(ind + 'let %s : Option Nat := %s' % (name, v.term))
                self.env[name] = V('optnat', name)
                return
            if v.kind != 'nat':
                self.fail(d, 'integer local bound to a value of kind ' + v.kind)
            # the conversion to the declared type
            self.record_cast(d, v, qt(init), ty)
            out.append(ind + 'let %s := %s' % (name, v.term))
            self.env[name] = V('nat', name, idx=v.term, name='let')
            return
        if ty == self.elem_type:
            v = self.ex(init); self.flush(out, ind)
            if v.kind == 'xval':
                # T x = std::move(*p): move construction of a local from a slot
                out.append(ind + 'let %s ← moveOut %s' % (name, paren(v.addr)))
                self.env[name] = V('elem', name)
                return
            self.fail(d, 'element local bound to a value of kind ' + v.kind)
        self.fail(d, "local '%s' of unsupported type %s" % (name, ty))

    def bind_ptr(self, name, v, out, ind):
        self.stale.discard(name)
        # the index a pointer variable designates is kept in terms of the arguments only (pure locals inlined); an index
        # that was read from the object (size()) is not tracked: a later use of it stops the translator
        idx = self.expand(v.idx) if v.idx is not None else None
        if idx is not None and '(←' in idx:
            idx = None
        v = V('ptr', idx=idx, addr=v.addr)
        if v.addr is None:
            # derived from an iterator argument only: stays an index
            self.env[name] = V('ptr', idx=v.idx, addr=None)
            return
        # computed from begin()/end(): evaluated now
        m = re.fullmatch(r'\(← vbegin cfg c\)\.add (.+)', v.addr)
        if m:
            out.append(ind + 'let %s ← posAddr cfg c %s' % (name, m.group(1)))
        elif re.fullmatch(r'\(← (\w+) cfg c\)', v.addr):
            out.append(ind + 'let %s ← %s' % (name, v.addr[3:-1]))
        else:
            out.append(ind + 'let %s := %s' % (name, v.addr))
        self.env[name] = V('ptr', idx=v.idx, addr=name)

    def assign(self, s, out, ind):
        l, r = s['inner']
        ls = self.strip(l)
        self.ctx = 'assign ' + str(ls.get('referencedDecl', {}).get('name'))
        if ls.get('kind') == 'DeclRefExpr' and ls['referencedDecl'].get('name') in self.env and \
                self.env[ls['referencedDecl']['name']].kind == 'ptr' and ls['referencedDecl'].get('kind') == 'VarDecl':
            v = self.ex(r); self.flush(out, ind)
            if v.kind != 'ptr':
                self.fail(s, 'pointer assigned a value of kind ' + v.kind)
            self.bind_ptr(ls['referencedDecl']['name'], v, out, ind)
            return
        self.fail(s, 'assignment to this left-hand side')

    def cond(self, n):
        v = self.ex(n)
        if v.kind != 'prop':
            self.fail(n, 'condition of kind ' + v.kind)
        return v.term

    def ifstmt(self, n, out, ind):
        parts = n['inner']
        if n.get('hasInit') or n.get('hasVar'):
            self.fail(n, 'if with initialiser')
        self.ctx = 'if'
        cv = self.ex(parts[0])
        if cv.kind != 'prop':
            self.fail(n, 'condition of kind ' + cv.kind)
        c = cv.term; self.flush(out, ind)
        env0, stale0 = dict(self.env), set(self.stale)
        g = cv.name[6:] if cv.name and cv.name.startswith('guard:') else None
        if g:
            self.guarded.add(g)
        tl = self.block(self.stmts_of(parts[1]), ind + '  ', False)
        if g:
            self.guarded.discard(g)
        env1, stale1 = self.env, self.stale
        self.env, self.stale = dict(env0), set(stale0)
        el = self.block(self.stmts_of(parts[2]), ind + '  ', False) if len(parts) > 2 else None
        env2, stale2 = self.env, self.stale
        out.append(ind + 'if %s then' % c)
        out.extend(tl if tl else [ind + '  pure ()'])
        if el:
            out.append(ind + 'else')
            out.extend(el)
        # join: only variables known before; pointer locals assigned in both branches must designate the same index
        env = {}
        for k, v0 in env0.items():
            a, b = env1.get(k), env2.get(k)
            if v0.kind == 'ptr':
                if a.idx == b.idx:
                    env[k] = V('ptr', idx=a.idx, addr=(a.addr if a.addr == b.addr and a.addr == v0.addr else None), name=a.name if a.idx is None else None)
                else:
                    env[k] = V('ptr', idx=None, addr=None, name='undef')
                    stale1 = stale1 | {k}
            else:
                env[k] = v0
        self.env = env
        self.stale = {k for k in (stale1 | stale2) if k in env}

    def ret(self, n, out, ind, is_last):
        kw = 'pure' if is_last else 'return'
        self.ctx = 'return'
        if not is_last and self.ret_kind != 'refr':
            self.fail(n, 'return that is not the last statement of the function')
        inner = n.get('inner', [])
        if not inner:
            return
        if self.ret_kind == 'ref':
            return    # the returned reference is not modelled (the definition returns Unit)
        v = self.ex(inner[0]); self.flush(out, ind)
        if self.ret_kind == 'idx':
            if v.kind == 'ptr' and v.idx is not None:
                out.append(ind + 'pure %s' % paren(v.idx)); return
            if v.kind == 'ptraction':
                out.append(ind + v.term); return
            self.fail(n, 'returned iterator of kind ' + v.kind)
        if self.ret_kind == 'elem':
            if v.kind == 'elem':
                out.append(ind + 'pure %s' % v.term); return
            self.fail(n, 'returned element of kind ' + v.kind)
        if self.ret_kind == 'refr':
            if v.kind == 'ref':
                out.append(ind + '%s %s' % (kw, paren(v.term))); return
            if v.kind == 'lval' and v.addr is not None:
                out.append(ind + '%s (Ref.at %s)' % (kw, paren(v.addr))); return
            self.fail(n, 'returned reference of kind ' + v.kind)
        self.fail(n, 'return of a value in a function returning ' + str(self.ret_kind))

    def trystmt(self, n, out, ind):
        body = n['inner'][0]; handlers = n['inner'][1:]
        if len(handlers) != 1 or handlers[0].get('kind') != 'CXXCatchStmt':
            self.fail(n, 'try with %d handlers' % len(handlers))
        h = handlers[0]
        hin = [c for c in h.get('inner', []) if c]
        # catch (...) has no exception declaration
        if any(c.get('kind') == 'VarDecl' for c in hin):
            self.fail(n, 'catch with an exception declaration')
        hb = [c for c in hin if c.get('kind') == 'CompoundStmt']
        if len(hb) != 1:
            self.fail(n, 'catch handler shape')
        hs = hb[0].get('inner', [])
        if not hs or self.strip(hs[-1]).get('kind') != 'CXXThrowExpr' or self.strip(hs[-1]).get('inner'):
            self.fail(n, 'catch handler that does not end with `throw;`')
        bl = self.block(self.stmts_of(body), ind + '    ', False)
        hl = self.block(hs[:-1], ind + '      ', False)
        out.append(ind + 'tryCatch (do')
        out.extend(bl if bl else [ind + '    pure ()'])
        out.append(ind + '  ) fun s => do')
        out.append(ind + '    match s with')
        out.append(ind + '    | .exc _ => do')
        out.extend(hl if hl else [ind + '      pure ()'])
        out.append(ind + '    | .fault _ => pure ()')
        out.append(ind + '    throw s')

    # ---- a whole member ---------------------------------------------------------------------------------------
    def run(self):
        m = self.m
        body = None
        params = []
        for c in m.get('inner', []):
            if c.get('kind') == 'ParmVarDecl':
                params.append(c)
            elif c.get('kind') == 'CompoundStmt':
                body = c
        if body is None:
            self.fail(m, 'member without body')
        sig = []
        seen_vals = False
        for p in params:
            cl = self.classify_param(p)
            if cl is None:
                continue
            kind, name = cl
            if kind == 'vals':
                self.env[name] = V('vals', 'vals', name=name)
                if not seen_vals:
                    sig.append(('vals', 'List α')); seen_vals = True
            elif kind == 'ref':
                self.env[name] = V('ref', name); sig.append((name, 'Ref α'))
            elif kind == 'rval':
                self.env[name] = V('rval', name); sig.append((name, 'α'))
            elif kind == 'arg':
                self.env[name] = V('arg', name); sig.append((name, 'Arg α'))
            elif kind == 'ptr':
                self.env[name] = V('ptr', idx=name, addr=None); sig.append((name, 'Nat'))
            elif kind == 'addr':
                self.env[name] = V('addr', name); sig.append((name, 'Addr'))
            elif kind == 'nat':
                self.env[name] = V('nat', name); sig.append((name, 'Nat'))
            elif kind == 'ptrptr':
                self.fail(p, 'pointer-to-position parameter')
        self.fn.params = sig
        rt = m.get('type', {}).get('qualType', '')
        rts = rt.split('(')[0].strip()
        if rts == 'void':
            self.ret_kind = 'unit'; self.fn.ret = 'Unit'
        elif rts.endswith('iterator') or rts in ('E *', 'T *'):
            self.ret_kind = 'idx'; self.fn.ret = 'Nat'
        elif rts.endswith('::reference'):
            self.ret_kind = 'ref'; self.fn.ret = 'Unit'
        elif rts == 'const E &':
            self.ret_kind = 'refr'; self.fn.ret = 'Ref α'
        elif rts == 'E':
            self.ret_kind = 'elem'; self.fn.ret = 'α'
        else:
            self.fail(m, 'return type ' + rts)
        self.fn.lines = self.block(body.get('inner', []), '  ', True)
        if not self.fn.lines:
            self.fn.lines = ['  pure ()']
        return self.fn


# ----------------------------------------------------------------------------------------------------------------------
# selection of the members
# ----------------------------------------------------------------------------------------------------------------------

def methods_of(spec):
    """(name, decl, template-arg) of every instantiated member with a body"""
    res = []
    for m in spec.get('inner', []):
        if m.get('kind') == 'CXXMethodDecl' and any(c.get('kind') == 'CompoundStmt' for c in m.get('inner', [])):
            res.append((m['name'], m, None))
        elif m.get('kind') == 'FunctionTemplateDecl':
            for s in m.get('inner', []):
                if s.get('kind') == 'CXXMethodDecl' and any(c.get('kind') == 'CompoundStmt' for c in s.get('inner', [])):
                    tas = [a for a in s.get('inner', []) if a.get('kind') == 'TemplateArgument']
                    ta = tas[0].get('type', {}).get('qualType') if tas and 'type' in tas[0] else ('pack' if tas else None)
                    res.append((s['name'], s, ta))
    return res


def param_types(m):
    return [qt(p) for p in m.get('inner', []) if p.get('kind') == 'ParmVarDecl']


# (C++ member, parameter type pattern) -> Lean name.  `It` = the iterator template argument
VECTORIMPL = [
    ('push_back', ['const E &'], 'pushBackCopy'),
    ('push_back', ['E &&'], 'pushBackMove'),
    ('pop_back', [], 'popBack'),
    ('pop_back_val', [], 'popBackVal'),
    ('clear', [], 'clear'),
    ('erase', ['const E *'], 'eraseOne'),
    ('erase', ['const E *', 'const E *'], 'eraseRange'),
    ('resize', ['S'], 'resize'),
    ('resize', ['S', 'const E &'], 'resizeFill'),
    ('insert', ['const E *', 'const E &'], 'insertCopy'),
    ('insert', ['const E *', 'E &&'], 'insertMove'),
    ('insert', ['const E *', 'S', 'const E &'], 'insertCount'),
    ('insert_range', ['const E *', 'It', 'It', 'std::forward_iterator_tag'], 'insertRange'),
    ('insert', ['const E *', 'It', 'It'], 'insertIter'),
    ('assign', ['S', 'const E &'], 'assignFill'),
    ('assign_range', ['It', 'It', 'std::forward_iterator_tag'], 'assignRange'),
    ('assign', ['It', 'It'], 'assignIter'),
    ('append', ['S'], 'appendN'),
    ('append', ['S', 'const E &'], 'appendFill'),
    ('append_range', ['It', 'It', 'std::forward_iterator_tag'], 'appendRange'),
    ('append', ['It', 'It'], 'appendIter'),
]
DYNAMIC = [
    ('growOrDestroy', ['E *'], 'growOrDestroy'),
    ('adjustCapacity', ['unsigned long'], 'dynAdjustCapacity'),
    ('adjustCapacity', ['unsigned long', 'const E &'], 'dynAdjustCapacityRef'),
    ('reserve', ['S'], 'dynReserve'),
    ('emplace_back', ['const E &'], 'dynEmplaceBack'),
    ('emplace', ['const E *', 'const E &'], 'dynEmplace'),
]
STATIC = [
    ('adjustCapacity', ['unsigned long'], 'staticAdjustCapacity'),
    ('adjustCapacity', ['unsigned long', 'const E &'], 'staticAdjustCapacityRef'),
    ('reserve', ['S'], 'staticReserve'),
    ('emplace_back', ['const E &'], 'staticEmplaceBack'),
    ('emplace', ['const E *', 'const E &'], 'staticEmplace'),
]


def match_sig(ptypes, pattern, size_ty, it_ty):
    if len(ptypes) != len(pattern):
        return False
    for t, p in zip(ptypes, pattern):
        if p == 'S':
            if t != size_ty:
                return False
        elif p == 'It':
            if it_ty is None or t != it_ty:
                return False
        elif t != p:
            return False
    return True


def render(fn):
    ps = ''.join(' (%s : %s)' % p for p in fn.params)
    head = 'def %s%s (cfg : Cfg) (c : Nat)%s : M α %s := do' % (fn.lean_name, ' [Inhabited α]' if fn.inhabited else '', ps, paren(fn.ret))
    return head + '\n' + '\n'.join(fn.lines) + '\n'


PRELUDE = '''import AmcVerif.Model.Vec
/-! GENERATED by translator/glue2lean.py from include/amc/vectorcommon.hpp -- do not edit.

Monadic definitions of the public vector operations (`VectorImpl`, `DynamicVector`, `StaticVector`), one per C++ member,
statement by statement, over the vocabulary of Model/Vec.lean / Prim/Helpers.lean / Prim/Slot.lean.
`Bridge/VecGlueBridge.lean` proves them equal to the hand-written definitions of Model/Vec.lean. -/
namespace AmcVerif.Gen.Glue
open AmcVerif
variable {α : Type}

/-- `p - k` on a pointer -/
def subA (a : Addr) (k : Nat) : Addr := ⟨a.r, a.i - k⟩

/-- `this->dynStorage()`: the stored heap pointer -/
def vdyn (_cfg : Cfg) (c : Nat) : M α Addr := do return resolve c c (← getW c).dyn

/-- `GrowingPolicy::Check(needed, capacity)`; the policy is a template parameter: `ExceptionGrowingPolicy` (cfg.checked) or
    `UncheckedGrowingPolicy` (an assert) -/
def policyCheck (cfg : Cfg) (needed capacity : Nat) : M α Unit :=
  if cfg.checked then
    match cfg.ops.check needed capacity with
    | .error e => raise e
    | .ok _ => pure ()
  else
    if capacity < needed then fault .precond else pure ()

/-- `std::addressof(v) >= b` for a buffer pointer `b` (pointers into different regions are unrelated) -/
def refGe (r : Ref α) (b : Addr) : Bool :=
  match r with
  | .at a => a.r == b.r && decide (b.i ≤ a.i)
  | .lit _ => false

/-- `std::addressof(v) < e` for a buffer pointer `e` -/
def refLt (r : Ref α) (e : Addr) : Bool :=
  match r with
  | .at a => a.r == e.r && decide (a.i < e.i)
  | .lit _ => false

/-- `std::addressof(v) - b` -/
def refDiff (r : Ref α) (b : Addr) : Nat :=
  match r with
  | .at a => a.i - b.i
  | .lit _ => 0

/-- `T x = std::move(*p)`: move construction of a local object from the slot at `p` -/
def moveOut (p : Addr) : M α α := do
  let v ← readLive p
  wr p (← movedFrom v)
  bumpEv fun ev => { ev with mc := ev.mc + 1 }
  pure v

'''


def load(include, workdir):
    src = os.path.join(workdir, 'glue2lean_tu.cpp')
    with open(src, 'w') as f:
        f.write(TU)
    specs = {}
    for flt in ('VectorImpl', 'DynamicVector', 'StaticVector'):
        objs = clang_dump(include, src, flt)
        st = LocState()
        for o in objs:
            annotate(o, st)
            if o.get('kind') == 'ClassTemplateSpecializationDecl' and o.get('name') == flt:
                tas = [a for a in o.get('inner', []) if a.get('kind') == 'TemplateArgument']
                tag = ', '.join(str(a.get('type', {}).get('qualType', a.get('value'))) for a in tas)
                tag = tag.replace('amc::BasicAllocatorWrapper<E, amc::SimpleAllocator>', 'A')
                specs.setdefault(flt, []).append((tag, o))
    return specs


def size_type_of(tag):
    for t in ('unsigned char', 'unsigned short', 'unsigned int', 'unsigned long'):
        if t in tag.split(', '):
            return t
    raise Unsupported('size type of instantiation ' + tag)


def generate(include, workdir):
    global INCLUDE_ROOT
    INCLUDE_ROOT = include
    specs = load(include, workdir)
    expect = {'VectorImpl': 3, 'DynamicVector': 2, 'StaticVector': 1}
    for k, nexp in expect.items():
        if len(specs.get(k, [])) != nexp:
            raise Unsupported('expected %d instantiations of %s, found %d' % (nexp, k, len(specs.get(k, []))))
    notes = []
    defs = []
    for cls, table in (('DynamicVector', DYNAMIC), ('StaticVector', STATIC), ('VectorImpl', VECTORIMPL)):
        for cname, pattern, lname in table:
            texts = []
            for tag, spec in specs[cls]:
                sty = size_type_of(tag)
                cands = []
                for name, m, ta in methods_of(spec):
                    if name != cname:
                        continue
                    it = ta if (ta not in (None, 'pack')) else None
                    if it == 'const E *' and 'It' in pattern:
                        continue      # the initializer_list instantiation: same template, the forward_list one is taken
                    if match_sig(param_types(m), pattern, sty, it):
                        cands.append((m, it))
                if len(cands) != 1:
                    raise Unsupported('%s::%s%s [%s]: %d matching instantiated members with a body (expected 1)' % (cls, cname, pattern, tag, len(cands)))
                m, it = cands[0]
                tr = Translator(cls, tag, m, lname, range_type=it, notes=notes)
                fn = tr.run()
                texts.append((tag, fn))
            first = render(texts[0][1])
            for tag, fn in texts[1:]:
                if render(fn) != first:
                    raise Unsupported('%s::%s: the instantiations [%s] and [%s] translate differently:\n%s\n--- vs ---\n%s' %
                                      (cls, cname, texts[0][0], tag, first, render(fn)))
            defs.append((cls, cname, pattern, texts[0][1]))
    return defs, notes


def main():
    ap = argparse.ArgumentParser()
    ap.add_argument('--include', required=True)
    ap.add_argument('--out', required=True)
    ap.add_argument('--notes', default=None, help='write the list of dropped value-changing integer casts here')
    a = ap.parse_args()
    try:
        with tempfile.TemporaryDirectory() as wd:
            defs, notes = generate(os.path.abspath(a.include), wd)
    except Unsupported as e:
        sys.stderr.write('glue2lean: UNSUPPORTED: %s\n' % e)
        sys.exit(2)
    out = [PRELUDE]
    for cls, cname, pattern, fn in defs:
        out.append('/-- `%s::%s(%s)`  (%s) -/\n' % (cls, cname, ', '.join(pattern), fn.loc))
        out.append(render(fn))
        out.append('\n')
    out.append('end AmcVerif.Gen.Glue\n')
    text = ''.join(out)
    with open(a.out, 'w') as f:
        f.write(text)
    if a.notes:
        with open(a.notes, 'w') as f:
            for nt in sorted(set(notes)):
                f.write('\t'.join(nt) + '\t' + NARROWING[nt[:5]] + '\n')
    sys.stderr.write('glue2lean: %d definitions written to %s\n' % (len(defs), a.out))


if __name__ == '__main__':
    main()
