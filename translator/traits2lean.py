#!/usr/bin/env python3
"""traits2lean -- generate the Lean model of the STATIC CONTRACT of the amc containers (relocatability trait, the
containers' `trivially_relocatable` typedefs, `noexcept` specifications, storage layout formulas, triviality of the
destructor) from the C++ source, and check it against clang.

usage: traits2lean.py --include <include dir> --out <TraitsGen.lean> [--keep DIR]

Method (same genre as memory2lean.py, whose clang driving / AST loading code is reused).  Per `-std=c++11/14/17/20`
(config.hpp derives AMC_CXX14/17/20 from __cplusplus) clang++-14 dumps the typed JSON AST of two translation units: the
container headers alone (filter `amc::`: the template PATTERNS) and the headers plus a grid of probes (filter `t2lgrid`).

  (a) SYMBOLICALLY, from the patterns: a small symbolic instantiator of class templates (class `Sym`) evaluates base-class
      clauses, member typedefs, static constexpr members, `noexcept(...)` operands, `enable_if` template parameters, array
      bounds and `alignas` operands -- clang prints dependent types / expressions as text (or gives the source range),
      `ExprParser` parses that text -- into expressions over a CLOSED list of inputs (`ATOMS`: sizeof(T), alignof(T),
      sizeof(SizeType), N, the std traits of the element type, `amc::is_trivially_relocatable` of a part, "T declares
      `trivially_relocatable`" / "... as std::true_type", "GrowingPolicy is DynamicGrowingPolicy", "Alloc has reallocate").
        * partial specialisations -> case distinctions on the (symbolic) template arguments; a specialisation pattern that is
          a dependent type (`enable_if<c>::type`, `make_void<typename T::X>::type`) -> the condition under which it is
          well-formed; a specialisation for a shape of type (`std::pair<T, U>`) -> a definition of its own;
        * `std::conditional` -> if-then-else; `std::integral_constant` / `true_type` / `is_same` / ... -> Booleans;
        * the class hierarchy of `Vector` (Vector / VectorWithInplaceStorage / VectorImpl / VectorDestr / DynamicVector |
          StaticVector / SmallVectorBase | StdVectorBase | StaticVectorBase) is WALKED through these case distinctions
          (`Builder.walk`): the `trivially_relocatable` typedef is the one of the first class that declares it, the data
          members are collected base first, a destructor is user-provided iff some class declares one, the
          `move_construct` / `move_assign` / `swap_impl` that `Vector` calls is the one of the first class declaring it;
        * alias templates (`SmallVector`, `vector`, `FixedCapacityVector`) -> the `Vector` definition with arguments; for
          `EmptyAlloc` the growing policy is read off Vector's own `static_assert`;
        * overloads of a function template selected by `enable_if<c>` / `enable_if<!c>` -> if-then-else of their
          exception specifications.
      The placement of data members (sizeof / alignof of a class from its members) is NOT in the source: the generated
      member lists are fed to `classOf` of Model/Layout.lean (Itanium ABI, LP64, empty allocator base).
      Anything outside the closed list of constructs stops the translator (exit 2, file:line).
  (b) CONCRETELY: every generated definition is evaluated (by the interpreter `ev_cov` of this file, `class_of` being the
      Python twin of `classOf`) on every point of the grid with the inputs clang computed with <type_traits> / sizeof /
      alignof / independent detectors only, and must predict the value clang computed for the amc entity (read from the
      evaluated template arguments of `Nums<...>` aliases of the probes): traits, typedefs, `sizeof` / `alignof` of
      ElemStorage / ElemWithPtrStorage / vector / SmallVector / FixedCapacityVector for 32 element types x 12 N x 4 size
      types, `noexcept` of the members (the protected ones through a derived class), `is_trivially_destructible`, ...
      Every condition of every definition must be seen true and false, and every Boolean input both ways.
  (c) emit; the definitions of the four standards are merged: identical -> one definition; different along the AMC_CXX14
      (or AMC_CXX17) line -> `if cxx14 then ... else ...`; anything else stops the translator.
  (d) Bridge/TraitsBridge.lean proves the definitions equal to Model/Layout.lean; Props/C17b.lean restates C17 / C14.

The translator exits with status 2 and a message naming file:line and the construct on anything it does not know.
Nothing is skipped or defaulted.  The output depends only on the headers (byte-stable).
"""
import argparse, json, os, re, subprocess, sys, tempfile

CLANG = 'clang++-14'
CLANG_TIMEOUT = 600

STDS = [('cxx11', 'c++11'), ('cxx14', 'c++14'), ('cxx17', 'c++17'), ('cxx20', 'c++20')]


class Unsupported(Exception):
    pass


# ----------------------------------------------------------------------------------------------------------------------
# clang driving / AST loading (from memory2lean.py / glue2lean.py)
# ----------------------------------------------------------------------------------------------------------------------

def parse_concat(src):
    dec = json.JSONDecoder(); i = 0; objs = []
    while i < len(src):
        while i < len(src) and src[i].isspace():
            i += 1
        if i >= len(src):
            break
        o, j = dec.raw_decode(src, i); objs.append(o); i = j
    return objs


def clang_dump(include, src_path, std, defines=(), flt='amc::'):
    cmd = ['timeout', str(CLANG_TIMEOUT), CLANG, '-std=' + std, '-I', include, '-fsyntax-only', '-w']
    cmd += ['-D' + d for d in defines]
    cmd += ['-Xclang', '-ast-dump=json', '-Xclang', '-ast-dump-filter=' + flt, src_path]
    p = subprocess.run(cmd, capture_output=True, text=True)
    if p.returncode != 0:
        raise Unsupported('clang failed on the instantiation TU (-std=%s):\n%s' % (std, p.stderr[-3000:]))
    return parse_concat(p.stdout)


class LocState:
    def __init__(self):
        self.file = None; self.line = None


def annotate(node, st):
    """clang's JSON omits file/line when unchanged since the previously printed location: replay them in print order"""
    def upd(d):
        if not isinstance(d, dict):
            return
        if 'spellingLoc' in d or 'expansionLoc' in d:
            upd(d.get('spellingLoc')); upd(d.get('expansionLoc')); return
        if 'file' in d:
            st.file = d['file']
        if 'line' in d:
            st.line = d['line']
    if not isinstance(node, dict):
        return
    for k, v in list(node.items()):
        if k == 'loc':
            upd(v); node['_locfile'] = st.file; node['_locline'] = st.line
        elif k == 'range':
            upd(v.get('begin')); node['_file'] = st.file; node['_line'] = st.line
            upd(v.get('end')); node['_endfile'] = st.file
        elif k == 'inner':
            for c in v:
                annotate(c, st)


INCLUDE_ROOT = None


def relfile(f):
    f = f or '?'
    if INCLUDE_ROOT and f.startswith(INCLUDE_ROOT.rstrip('/') + '/'):
        f = 'include/' + f[len(INCLUDE_ROOT.rstrip('/')) + 1:]
    return f


def where(n):
    return '%s:%s' % (relfile(n.get('_file')), n.get('_line', '?'))


def kids(n, kind=None):
    return [c for c in n.get('inner', []) if kind is None or c.get('kind') == kind]


_SRC = {}


def source_text(n):
    """the source text of an expression node (its range must lie in one file and outside macro expansions)"""
    r = n.get('range', {})
    b, e = r.get('begin', {}), r.get('end', {})
    if 'offset' not in b or 'offset' not in e or n.get('_file') != n.get('_endfile') or not n.get('_file'):
        raise Unsupported('%s: the expression comes from a macro expansion or spans files: its source text cannot be read' % where(n))
    f = n['_file']
    if f not in _SRC:
        with open(f, 'rb') as fh:
            _SRC[f] = fh.read()
    return _SRC[f][b['offset']:e['offset'] + e.get('tokLen', 0)].decode()


# ----------------------------------------------------------------------------------------------------------------------
# parser of the type / constant expressions that clang prints for dependent entities (or that are read from the source)
#   typename std::conditional<N <= std::numeric_limits<uint8_t>::max(), uint8_t, ...>::type
#   std::integral_constant<bool, amc::is_trivially_relocatable<T>::value || (... && ...)>
#   sizeof(T *) < sizeof(T) ? sizeof(T) : sizeof(T *)
# syntax trees:
#   ('name', [(identifier, template arguments | None)], suffix)   ('int', n)  ('bool', b)  ('not', e)  ('bin', op, a, b)
#   ('cond', c, a, b)  ('sizeof', e)  ('alignof', e)  ('cast', type, e)  ('call', f, [args])  ('mem', e, name)
# ----------------------------------------------------------------------------------------------------------------------

TOKEN = re.compile(r'\s*(::|&&|\|\||==|!=|<=|>=|\.\.\.|[<>,()!*&?:+\-/\[\].]|[A-Za-z_][A-Za-z0-9_]*|\d+[uUlL]*)')
BUILTIN_WORDS = {'unsigned', 'signed', 'long', 'short', 'int', 'char', 'bool', 'void'}


class ExprParser:
    def __init__(self, text, loc, values=()):
        self.text, self.loc = text, loc
        self.values = set(values)          # identifiers known to name VALUES: `x < y` after them is a comparison
        self.toks = []
        i = 0
        while i < len(text):
            m = TOKEN.match(text, i)
            if not m:
                if text[i:].strip() == '':
                    break
                raise Unsupported('%s: cannot tokenise the expression `%s` at `%s`' % (loc, text, text[i:i + 20]))
            self.toks.append(m.group(1)); i = m.end()
        self.i = 0
        self.no_gt = [False]               # innermost bracket is a template argument list: `>` closes it

    def err(self, msg):
        raise Unsupported('%s: expression `%s`: %s' % (self.loc, self.text, msg))

    def peek(self, k=0):
        return self.toks[self.i + k] if self.i + k < len(self.toks) else None

    def take(self, t=None):
        x = self.peek()
        if x is None or (t is not None and x != t):
            self.err('expected %s, found %s' % (t or 'a token', x))
        self.i += 1
        return x

    def parse(self):
        e = self.p_cond()
        if self.peek() is not None:
            self.err('trailing `%s`' % self.peek())
        return e

    def starts_primary(self, t):
        return t is not None and (t in ('!', '(') or re.match(r'[A-Za-z_\d]', t) is not None)

    def p_cond(self):
        c = self.p_or()
        if self.peek() == '?':
            self.take(); a = self.p_cond(); self.take(':'); b = self.p_cond()
            return ('cond', c, a, b)
        return c

    def p_or(self):
        e = self.p_and()
        while self.peek() == '||':
            self.take(); e = ('bin', '||', e, self.p_and())
        return e

    def p_and(self):
        e = self.p_cmp()
        while self.peek() == '&&' and self.starts_primary(self.peek(1)):
            self.take(); e = ('bin', '&&', e, self.p_cmp())
        return e

    def p_cmp(self):
        e = self.p_add()
        t = self.peek()
        if t in ('==', '!=', '<=', '<') or (t in ('>', '>=') and not self.no_gt[-1]):
            self.take(); e = ('bin', t, e, self.p_add())
        return e

    def p_add(self):
        e = self.p_mul()
        while self.peek() in ('+', '-'):
            op = self.take(); e = ('bin', op, e, self.p_mul())
        return e

    def p_mul(self):
        e = self.p_unary()
        while self.peek() == '/' or (self.peek() == '*' and self.starts_primary(self.peek(1))):
            op = self.take(); e = ('bin', op, e, self.p_unary())
        return e

    def p_unary(self):
        if self.peek() == '!':
            self.take(); return ('not', self.p_unary())
        return self.p_postfix()

    def p_paren_args(self):
        self.take('('); self.no_gt.append(False); args = []
        if self.peek() != ')':
            args.append(self.p_cond())
            while self.peek() == ',':
                self.take(); args.append(self.p_cond())
        self.take(')'); self.no_gt.pop()
        return args

    def p_postfix(self):
        e = self.p_primary()
        while True:
            if self.peek() == '(':
                e = ('call', e, self.p_paren_args())
            elif self.peek() == '.':
                self.take(); e = ('mem', e, self.take())
            else:
                return e

    def p_primary(self):
        t = self.peek()
        if t == '(':
            self.take(); self.no_gt.append(False); e = self.p_cond(); self.take(')'); self.no_gt.pop()
            return e
        if t is not None and re.match(r'\d', t):
            self.take(); return ('int', int(re.match(r'\d+', t).group(0)))
        if t in ('sizeof', 'alignof'):
            self.take(); a = self.p_paren_args()
            if len(a) != 1:
                self.err('%s with %d operands' % (t, len(a)))
            return (t, a[0])
        if t in ('static_cast',):
            self.take(); self.take('<'); self.no_gt.append(True); ty = self.p_cond(); self.take('>'); self.no_gt.pop()
            a = self.p_paren_args()
            if len(a) != 1:
                self.err('static_cast with %d operands' % len(a))
            return ('cast', ty, a[0])
        if t in ('noexcept', 'decltype', 'reinterpret_cast', 'const_cast', 'dynamic_cast', 'new', 'delete', 'throw'):
            self.err('`%s` expressions are not supported' % t)
        return self.p_qname()

    def p_qname(self):
        while self.peek() in ('typename', 'const', 'struct', 'class', 'volatile'):
            self.take()
        t = self.take()
        if t in ('true', 'false'):
            return ('bool', t == 'true')
        if not re.match(r'[A-Za-z_]', t):
            self.err('unexpected `%s`' % t)
        if t in BUILTIN_WORDS:
            words = [t]
            while self.peek() in BUILTIN_WORDS:
                words.append(self.take())
            segs = [(' '.join(words), None)]
        else:
            segs = []
            while True:
                args = None
                if self.peek() == '<' and t not in self.values:
                    self.take(); self.no_gt.append(True); args = []
                    if self.peek() != '>':
                        args.append(self.p_cond())
                        while self.peek() == ',':
                            self.take(); args.append(self.p_cond())
                    self.take('>'); self.no_gt.pop()
                segs.append((t, args))
                if self.peek() == '::':
                    self.take()
                    if self.peek() == 'template':
                        self.take()
                    t = self.take()
                    if not re.match(r'[A-Za-z_]', t):
                        self.err('unexpected `%s` after ::' % t)
                    continue
                break
        suffix = ''
        while True:
            p, q = self.peek(), self.peek(1)
            if p == 'const':
                self.take(); continue
            if p in ('*', '&', '&&', '...') and not self.starts_primary(q):
                suffix += self.take(); continue
            break
        return ('name', segs, suffix)


def parse_expr(text, loc, values=()):
    return ExprParser(text, loc, values).parse()


def syn_str(e):
    if e[0] == 'name':
        return '::'.join(s + ('' if a is None else '<%s>' % ', '.join(map(syn_str, a))) for s, a in e[1]) + (' ' + e[2] if e[2] else '')
    if e[0] in ('int', 'bool'):
        return str(e[1]).lower()
    if e[0] == 'not':
        return '!' + syn_str(e[1])
    if e[0] == 'bin':
        return '(%s %s %s)' % (syn_str(e[2]), e[1], syn_str(e[3]))
    if e[0] == 'cond':
        return '(%s ? %s : %s)' % tuple(map(syn_str, e[1:]))
    if e[0] in ('sizeof', 'alignof'):
        return '%s(%s)' % (e[0], syn_str(e[1]))
    if e[0] == 'cast':
        return 'static_cast<%s>(%s)' % (syn_str(e[1]), syn_str(e[2]))
    if e[0] == 'call':
        return '%s(%s)' % (syn_str(e[1]), ', '.join(map(syn_str, e[2])))
    if e[0] == 'mem':
        return '%s.%s' % (syn_str(e[1]), e[2])
    return repr(e)


def noexcept_of(fn_type, loc):
    """the operand of the exception specification of a function type as printed by clang: syntax tree | ('bool', b)"""
    s = fn_type.strip()
    if s.endswith(')'):
        depth = 0
        for j in range(len(s) - 1, -1, -1):
            if s[j] == ')':
                depth += 1
            elif s[j] == '(':
                depth -= 1
                if depth == 0:
                    break
        head = s[:j].rstrip()
        if head.endswith('noexcept'):
            return s[j + 1:-1]
        if re.search(r'\bthrow$', head):
            raise Unsupported('%s: dynamic exception specification `%s`' % (loc, s))
        return None                  # the parameter list: no exception specification
    if re.search(r'\bnoexcept$', s):
        return 'true'
    if re.search(r'\)\s*(const|volatile|&|&&|\s)*$', s) or re.search(r'->', s):
        return None
    raise Unsupported('%s: cannot read the exception specification of `%s`' % (loc, s))


# ----------------------------------------------------------------------------------------------------------------------
# IR: expressions over the closed list of inputs
#   ('b', bool) ('n', int) ('var', name) ('and', a, b) ('or', a, b) ('not', a) ('ite', c, a, b) ('cmp', op, a, b)
#   ('arith', op, a, b) ('max', a, b) ('call', def name, [explicit arguments])
# ----------------------------------------------------------------------------------------------------------------------

# Lean parameter -> Lean type, in the canonical order of parameters
PARAMS = [('cxx14', 'Bool'), ('cxx17', 'Bool'), ('declared', 'Option Bool'), ('triviallyCopyable', 'Bool'),
          ('trT', 'Bool'), ('trU', 'Bool'), ('trCompare', 'Bool'), ('trVec', 'Bool'), ('trSet', 'Bool'), ('trValueType', 'Bool'),
          ('hasReallocate', 'Bool'), ('e', 'ElemTraits'), ('triviallyDestructible', 'Bool'), ('dyn', 'Bool'),
          ('sT', 'Nat'), ('aT', 'Nat'), ('sS', 'Nat'), ('N', 'Nat')]
PARAM_TYPE = dict(PARAMS)
PARAM_RANK = {n: i for i, (n, _) in enumerate(PARAMS)}

# atom -> (Lean text, Lean parameter it needs | None, 'Bool' | 'Nat')
ATOMS = {
    'hasTypedef': ('declared.isSome', 'declared', 'Bool'),
    'typedefIsTrue': ('(declared == some true)', 'declared', 'Bool'),
    'tc': ('triviallyCopyable', 'triviallyCopyable', 'Bool'),
    'trT': ('trT', 'trT', 'Bool'), 'trU': ('trU', 'trU', 'Bool'), 'trCompare': ('trCompare', 'trCompare', 'Bool'),
    'trVec': ('trVec', 'trVec', 'Bool'), 'trSet': ('trSet', 'trSet', 'Bool'), 'trValueType': ('trValueType', 'trValueType', 'Bool'),
    'hasReallocate': ('hasReallocate', 'hasReallocate', 'Bool'),
    'e.tr': ('e.tr', 'e', 'Bool'), 'e.nmc': ('e.nothrowMoveCtor', 'e', 'Bool'), 'e.nma': ('e.nothrowMoveAssign', 'e', 'Bool'),
    'e.nsw': ('e.nothrowSwappable', 'e', 'Bool'),
    'td': ('triviallyDestructible', 'triviallyDestructible', 'Bool'),
    'dyn': ('dyn', 'dyn', 'Bool'),
    'sT': ('sT', 'sT', 'Nat'), 'aT': ('aT', 'aT', 'Nat'), 'sS': ('sS', 'sS', 'Nat'), 'N': ('N', 'N', 'Nat'),
    'ptrSize': ('ptrSize', None, 'Nat'), 'ptrAlign': ('ptrAlign', None, 'Nat'),
    'cxx14': ('cxx14', 'cxx14', 'Bool'), 'cxx17': ('cxx17', 'cxx17', 'Bool'),
}
PTR_SIZE, PTR_ALIGN = 8, 8          # Model/Layout.lean: LP64
# overriding an implicit parameter at a call: the parameter must be an atom of its own
PARAM_ATOM = {'dyn': 'dyn', 'N': 'N', 'sS': 'sS', 'sT': 'sT', 'aT': 'aT', 'trT': 'trT'}


def B(x):
    return ('b', bool(x))


def mk_and(a, b):
    if a[0] == 'b':
        return b if a[1] else a
    if b[0] == 'b':
        return a if b[1] else b
    return ('and', a, b)


def mk_or(a, b):
    if a[0] == 'b':
        return a if a[1] else b
    if b[0] == 'b':
        return b if b[1] else a
    return ('or', a, b)


def mk_not(a):
    if a[0] == 'b':
        return B(not a[1])
    return ('not', a)


def mk_ite(c, a, b):
    if c[0] == 'b':
        return a if c[1] else b
    if a == b:
        return a                    # both specialisations / both arms say the same
    if c[0] == 'not':
        return ('ite', c[1], b, a)
    return ('ite', c, a, b)


def ir_type(e, defs):
    k = e[0]
    if k in ('b', 'and', 'or', 'not', 'cmp'):
        return 'Bool'
    if k in ('n', 'arith', 'max'):
        return 'Nat'
    if k == 'var':
        return e[2]
    if k == 'ite':
        return ir_type(e[2], defs)
    if k == 'call':
        return defs[e[1]].rtype
    if k in ('sa', 'scalar', 'arr', 'classof'):
        return 'SA'
    if k in ('list', 'append'):
        return 'List SA'
    if k in ('size', 'align'):
        return 'Nat'
    raise Unsupported('internal: type of %r' % (e,))


def ir_vars(e, defs, acc):
    """Lean parameters an expression needs (transitively through calls)"""
    k = e[0]
    if k == 'var':
        if e[1] in ATOMS:
            p = ATOMS[e[1]][1]
            if p is not None:
                acc.add(p)
        else:
            acc.add(e[1])                    # a formal non-type template parameter of the definition
    elif k == 'call':
        d = defs[e[1]]
        ov = dict(e[3]) if len(e) > 3 else {}
        for p in d.implicit_params(defs):
            if p in ov:
                ir_vars(ov[p], defs, acc)
            else:
                acc.add(p)
        for a in e[2]:
            ir_vars(a, defs, acc)
    elif k in ('b', 'n'):
        pass
    elif k == 'list':
        for x in e[1]:
            ir_vars(x, defs, acc)
    else:
        for x in e[1:]:
            if isinstance(x, tuple):
                ir_vars(x, defs, acc)
    return acc


class Def:
    """one generated definition"""
    def __init__(self, name, formals, body, rtype, doc, loc, section):
        self.name, self.formals, self.body, self.rtype, self.doc, self.loc, self.section = name, formals, body, rtype, doc, loc, section
        # formals: [(Lean name, Lean type)] explicit parameters (the non-type template parameters), passed by the callers

    def implicit_params(self, defs):
        acc = ir_vars(self.body, defs, set())
        for f, _ in self.formals:
            acc.discard(f)
        return sorted(acc, key=lambda p: PARAM_RANK[p])

    def params(self, defs):
        return [(p, PARAM_TYPE[p]) for p in self.implicit_params(defs)] + list(self.formals)


def ev(e, env, defs):
    """the interpreter used by the grid check; `env`: Lean parameter / atom -> value"""
    k = e[0]
    if k in ('b', 'n'):
        return e[1]
    if k == 'var':
        n = e[1]
        if n == 'ptrSize':
            return PTR_SIZE
        if n == 'ptrAlign':
            return PTR_ALIGN
        if n not in env:
            raise Unsupported('internal: the grid point has no value for the input `%s`' % n)
        return env[n]
    if k == 'and':
        return ev(e[1], env, defs) and ev(e[2], env, defs)
    if k == 'or':
        return ev(e[1], env, defs) or ev(e[2], env, defs)
    if k == 'not':
        return not ev(e[1], env, defs)
    if k == 'ite':
        return ev(e[2], env, defs) if ev(e[1], env, defs) else ev(e[3], env, defs)
    if k == 'cmp':
        a, b = ev(e[2], env, defs), ev(e[3], env, defs)
        return {'==': a == b, '!=': a != b, '<=': a <= b, '<': a < b, '>': a > b, '>=': a >= b}[e[1]]
    if k == 'arith':
        a, b = ev(e[2], env, defs), ev(e[3], env, defs)
        if e[1] == '-':
            if a < b:
                raise Unsupported('internal: unsigned subtraction %d - %d wraps at a grid point (the Lean rendering truncates)' % (a, b))
            return a - b
        if e[1] == '/':
            if b == 0:
                raise Unsupported('internal: division by zero at a grid point')
            return a // b
        return a + b if e[1] == '+' else a * b
    if k == 'max':
        return max(ev(e[1], env, defs), ev(e[2], env, defs))
    if k == 'call':
        d = defs[e[1]]
        env2 = dict(env)
        for (f, _), a in zip(d.formals, e[2]):
            env2[f] = ev(a, env, defs)
        for p, a in (e[3] if len(e) > 3 else ()):
            env2[PARAM_ATOM[p]] = ev(a, env, defs)
        return ev(d.body, env2, defs)
    if k == 'sa':
        return (ev(e[1], env, defs), ev(e[2], env, defs))
    if k == 'scalar':
        x = ev(e[1], env, defs)
        return (x, x)
    if k == 'arr':
        n, (sz, al) = ev(e[1], env, defs), ev(e[2], env, defs)
        return (n * sz, al)
    if k == 'classof':
        return class_of(ev(e[1], env, defs))
    if k == 'list':
        return [ev(x, env, defs) for x in e[1]]
    if k == 'append':
        return ev(e[1], env, defs) + ev(e[2], env, defs)
    if k == 'size':
        return ev(e[1], env, defs)[0]
    if k == 'align':
        return ev(e[1], env, defs)[1]
    raise Unsupported('internal: ev %r' % (e,))


def round_up(x, a):
    return (x + a - 1) // a * a


def class_of(members):
    """Model/Layout.lean `classOf`: sequential placement of the members, size rounded up to the alignment"""
    dsize, align = 0, 1
    for sz, al in members:
        dsize = round_up(dsize, al) + sz
        align = max(align, al)
    return (round_up(max(dsize, 1), align), align)


def lean(e, defs, prec=0):
    """Lean text; prec: 0 top, 1 operand of || , 2 operand of &&, 3 operand of comparison/arith, 4 argument"""
    k = e[0]
    if k == 'b':
        return 'true' if e[1] else 'false'
    if k == 'n':
        return str(e[1])
    if k == 'var':
        return ATOMS[e[1]][0] if e[1] in ATOMS else e[1]
    if k == 'not':
        return '!' + lean(e[1], defs, 4)
    if k in ('and', 'or'):
        op, p = (' && ', 2) if k == 'and' else (' || ', 1)
        # `&&` / `||` are left associative in C++ and in Lean; a right operand of the same operator keeps its parentheses
        l = lean(e[1], defs, p)
        r = lean(e[2], defs, p + 1)
        if k == 'or':                     # keep the parentheses of the source around a conjunction inside a disjunction
            l = '(' + l + ')' if e[1][0] == 'and' else l
            r = '(' + r + ')' if e[2][0] == 'and' and not r.startswith('(') else r
        s = l + op + r
        return '(' + s + ')' if prec > p else s
    if k == 'ite':
        s = 'if %s then %s else %s' % (lean(e[1], defs, 0), lean(e[2], defs, 1 if e[2][0] == 'ite' else 0), lean(e[3], defs, 0))
        return '(' + s + ')' if prec > 0 else s
    if k == 'cmp':
        a, b = lean(e[2], defs, 3), lean(e[3], defs, 3)
        if e[1] in ('==', '!='):
            s = '%s %s %s' % (a, e[1], b)
            return '(' + s + ')' if prec > 2 else s
        return 'decide (%s %s %s)' % (a, {'<=': '≤', '<': '<', '>': '>', '>=': '≥'}[e[1]], b) if prec < 4 else \
            '(decide (%s %s %s))' % (a, {'<=': '≤', '<': '<', '>': '>', '>=': '≥'}[e[1]], b)
    if k == 'arith':
        s = '%s %s %s' % (lean(e[2], defs, 3), e[1], lean(e[3], defs, 4))
        return '(' + s + ')' if prec > 2 else s
    if k == 'max':
        s = 'max %s %s' % (lean(e[1], defs, 4), lean(e[2], defs, 4))
        return '(' + s + ')' if prec > 2 else s
    if k == 'call':
        d = defs[e[1]]
        ov = dict(e[3]) if len(e) > 3 else {}
        args = [lean(ov[p], defs, 4) if p in ov else p for p in d.implicit_params(defs)] + [lean(a, defs, 4) for a in e[2]]
        s = ' '.join([d.name] + args)
        return '(' + s + ')' if prec > 2 and args else s
    if k == 'sa':
        return '⟨%s, %s⟩' % (lean(e[1], defs, 0), lean(e[2], defs, 0))
    if k == 'scalar':
        s = 'scalar %s' % lean(e[1], defs, 4)
        return '(' + s + ')' if prec > 2 else s
    if k == 'arr':
        x = lean(e[2], defs, 4)
        return '⟨%s * %s.size, %s.align⟩' % (lean(e[1], defs, 3), x, x)
    if k == 'classof':
        s = 'classOf %s' % lean(e[1], defs, 4)
        return '(' + s + ')' if prec > 2 else s
    if k == 'list':
        return '[' + ', '.join(lean(x, defs, 0) for x in e[1]) + ']'
    if k == 'append':
        s = '%s ++ %s' % (lean(e[1], defs, 3), lean(e[2], defs, 3))
        return '(' + s + ')' if prec > 0 else s
    if k in ('size', 'align'):
        return '%s.%s' % (lean(e[1], defs, 4), k)
    raise Unsupported('internal: lean %r' % (e,))


# ----------------------------------------------------------------------------------------------------------------------
# the declarations of the headers
# ----------------------------------------------------------------------------------------------------------------------

class Rec:
    """a class definition: the pattern of a class template / of a partial specialisation, or a plain class"""
    def __init__(self, node):
        self.node = node
        self.bases = [(b['type']['qualType'], b.get('access')) for b in node.get('bases', [])]
        self.typedefs, self.statics, self.fields, self.methods, self.ftemplates = {}, {}, [], [], []
        self.user_dtor = None
        self.asserts = kids(node, 'StaticAssertDecl')
        for c in kids(node):
            k = c.get('kind')
            if c.get('virtual'):
                raise Unsupported('%s: virtual member function (the layout model has no vtable pointer)' % where(c))
            if k in ('TypeAliasDecl', 'TypedefDecl'):
                self.typedefs[c['name']] = c
            elif k == 'VarDecl':
                self.statics[c['name']] = c
            elif k == 'FieldDecl':
                self.fields.append(c)
            elif k in ('CXXMethodDecl', 'CXXConstructorDecl', 'CXXDestructorDecl'):
                if not c.get('isImplicit'):
                    self.methods.append(c)
                    if k == 'CXXDestructorDecl':
                        self.user_dtor = c
            elif k == 'FunctionTemplateDecl':
                self.ftemplates.append(c)


def tparams_of(node):
    out = []
    for c in kids(node):
        k = c.get('kind')
        if k == 'TemplateTypeParmDecl':
            out.append(('type', c.get('name'), c))
        elif k == 'NonTypeTemplateParmDecl':
            out.append(('nttp', c.get('name'), c))
        elif k == 'TemplateTemplateParmDecl':
            out.append(('tmpl', c.get('name'), c))
    return out


class Tmpl:
    def __init__(self, qname, node):
        self.qname, self.node = qname, node
        self.params = tparams_of(node)
        self.rec = None
        self.partials = []


class Partial:
    def __init__(self, node):
        self.node = node
        self.params = tparams_of(node)
        self.args = kids(node, 'TemplateArgument')
        self.rec = Rec(node)


class DB:
    """everything namespace amc declares, by qualified name"""
    def __init__(self, std, objs):
        self.std = std
        st = LocState()
        for o in objs:
            annotate(o, st)
        self.tmpls, self.aliases, self.funcs, self.classes = {}, {}, {}, {}
        pending = []
        for o in objs:
            self.collect(o, 'amc', pending)
        for q, n in pending:
            if q not in self.tmpls:
                raise Unsupported('%s: partial specialisation of the unknown template %s' % (where(n), q))
            self.tmpls[q].partials.append(Partial(n))

    def collect(self, o, ns, pending):
        k = o.get('kind')
        name = o.get('name')
        if k == 'NamespaceDecl':
            for c in kids(o):
                self.collect(c, ns + '::' + name if name else ns, pending)
            return
        q = ns + '::' + (name or '')
        if k == 'ClassTemplateDecl':
            t = self.tmpls.get(q) or Tmpl(q, o)
            recs = [c for c in kids(o, 'CXXRecordDecl') if c.get('completeDefinition')]
            if recs:
                t.node, t.params, t.rec = o, tparams_of(o), Rec(recs[0])
            self.tmpls[q] = t
        elif k == 'ClassTemplatePartialSpecializationDecl':
            pending.append((q, o))
        elif k == 'TypeAliasTemplateDecl':
            self.aliases[q] = o
        elif k == 'FunctionTemplateDecl':
            self.funcs.setdefault(q, []).append(o)
        elif k == 'CXXRecordDecl' and o.get('completeDefinition'):
            self.classes[q] = Rec(o)

    def find(self, table, name, loc):
        """resolve a (partially) qualified name as written inside namespace amc"""
        name = re.sub(r'^::', '', name)
        cands = [q for q in table if q == name or q.endswith('::' + name)]
        if len(cands) > 1:
            cands2 = [q for q in cands if q == 'amc::' + name or q == name]
            if len(cands2) == 1:
                return cands2[0]
            raise Unsupported('%s: the name `%s` is ambiguous: %s' % (loc, name, ', '.join(sorted(cands))))
        return cands[0] if cands else None


# ----------------------------------------------------------------------------------------------------------------------
# symbolic values of types
#   ('opaque', P)            the template parameter P of the entity being translated (T, U, Alloc, SizeType, GrowingPolicy, ...)
#   ('member', type, name)   typename T::name of an opaque T
#   ('ptr', type)  ('void',)  ('uint', bits)  ('boolty',)
#   ('ic', IR)               std::integral_constant<bool, IR> (std::true_type = ('ic', B(True))); also any class DERIVED from it
#   ('icn', IR)              std::integral_constant<std::size_t, IR>
#   ('named', qname)         a plain class of namespace amc
#   ('inst', qname, args)    an instantiation of a class template of namespace amc
#   ('tite', IR, a, b)       std::conditional
#   ('sfinae', IR, type)     `type` if the condition holds, otherwise a substitution failure
#   ('pair', a, b)           std::pair (in specialisation patterns)
#   ('array', type, IR)
# ----------------------------------------------------------------------------------------------------------------------

UINTS = {'uint8_t': 8, 'uint16_t': 16, 'uint32_t': 32, 'uint64_t': 64, 'uintmax_t': 64, 'size_t': 64,
         'unsigned char': 8, 'unsigned short': 16, 'unsigned int': 32, 'unsigned long': 64, 'unsigned long long': 64}

# std trait on an opaque type -> atom, by VIEW of the definition being translated and by the name of the template parameter
STD_BOOL_TRAITS = {
    ('std::is_trivially_copyable', 'T'): 'tc',
    ('std::is_nothrow_move_constructible', 'T'): 'e.nmc',
    ('std::is_nothrow_move_assignable', 'T'): 'e.nma',
    ('std::is_nothrow_swappable', 'T'): 'e.nsw',
    ('amc::is_nothrow_swappable', 'T'): 'e.nsw',
    ('std::is_trivially_destructible', 'T'): 'td',
}
# amc::is_trivially_relocatable<X>::value outside type_traits.hpp is an INPUT: the trait of a part
TR_ATOMS = {'T': 'trT', 'U': 'trU', 'Compare': 'trCompare', 'VecType': 'trVec', 'SetType': 'trSet'}
NAMESPACES = {'std', 'amc', 'vec', 'typetraits_details', 'detail', 'memory_details'}


class Scope:
    """where an expression is evaluated: bindings of template parameters, the class whose members are in scope"""
    def __init__(self, bind, rec, loc, view, owner=None):
        self.bind, self.rec, self.loc, self.view, self.owner = bind, rec, loc, view, owner

    def values(self):
        v = {n for n, (k, _) in self.bind.items() if k == 'V'}
        if self.rec is not None:
            v |= set(self.rec.statics)
        return v


class Sym:
    """symbolic instantiator over one DB (one language standard)"""
    def __init__(self, db, named):
        self.db = db
        self.named = named            # qualified template name -> (Lean definition name, kind) : referenced by CALL, not inlined
        self.used_atoms = set()

    # -- names ---------------------------------------------------------------------------------------------------------

    def atom(self, a):
        self.used_atoms.add(a)
        return ('var', a, ATOMS[a][2])

    def parse(self, text, sc):
        return parse_expr(text, sc.loc, sc.values())

    def type_of_text(self, text, sc):
        return self.ty(self.parse(text, sc), sc)

    def ty(self, e, sc):
        """syntax tree -> type value"""
        v = self.entity(e, sc)
        if v[0] == 'T':
            return v[1]
        raise Unsupported('%s: `%s` is used as a type but is a value' % (sc.loc, syn_str(e)))

    def ex(self, e, sc):
        """syntax tree -> IR"""
        k = e[0]
        if k == 'int':
            return ('n', e[1])
        if k == 'bool':
            return B(e[1])
        if k == 'not':
            return mk_not(self.ex(e[1], sc))
        if k == 'cond':
            return mk_ite(self.ex(e[1], sc), self.ex(e[2], sc), self.ex(e[3], sc))
        if k == 'bin':
            a, b = self.ex(e[2], sc), self.ex(e[3], sc)
            if e[1] == '&&':
                return mk_and(a, b)
            if e[1] == '||':
                return mk_or(a, b)
            if e[1] in ('==', '!=', '<=', '<', '>', '>='):
                return ('cmp', e[1], a, b)
            if e[1] in ('+', '-', '*', '/'):
                return ('arith', e[1], a, b)
        if k == 'sizeof':
            return self.sizeof(self.ty(e[1], sc), sc)
        if k == 'alignof':
            return self.alignof(self.ty(e[1], sc), sc)
        if k == 'cast':
            t = self.ty(e[1], sc)
            if t[0] != 'uint' or t[1] != 64:
                raise Unsupported('%s: static_cast to %s (only casts of small constants to std::size_t / uintmax_t are known)' % (sc.loc, syn_str(e[1])))
            return self.ex(e[2], sc)
        if k == 'call':
            return self.call(e, sc)
        if k == 'name':
            v = self.entity(e, sc)
            if v[0] == 'V':
                return v[1]
            raise Unsupported('%s: `%s` is used as a value but is a type' % (sc.loc, syn_str(e)))
        raise Unsupported('%s: unsupported expression `%s`' % (sc.loc, syn_str(e)))

    def call(self, e, sc):
        f, args = e[1], e[2]
        # std::divides<std::size_t>()(a, b) / std::less_equal<std::size_t>()(a, b): a temporary function object
        if f[0] == 'call' and f[2] == [] and f[1][0] == 'name':
            base = '::'.join(s for s, _ in f[1][1])
            targs = f[1][1][-1][1]
            if base in ('std::divides', 'std::less_equal') and targs is not None and len(targs) == 1 and len(args) == 2:
                t = self.ty(targs[0], sc)
                if t != ('uint', 64):
                    raise Unsupported('%s: %s over %s' % (sc.loc, base, syn_str(targs[0])))
                a, b = self.ex(args[0], sc), self.ex(args[1], sc)
                return ('arith', '/', a, b) if base == 'std::divides' else ('cmp', '<=', a, b)
        if f[0] == 'name':
            base = '::'.join(s for s, _ in f[1])
            last_args = f[1][-1][1]
            if base == 'std::max' and last_args is None and len(args) == 2:
                return ('max', self.ex(args[0], sc), self.ex(args[1], sc))
            if base == 'std::numeric_limits::max' and args == [] and f[1][1][1] is not None and len(f[1][1][1]) == 1:
                t = self.ty(f[1][1][1][0], sc)
                if t[0] == 'uint':
                    return ('n', 2 ** t[1] - 1)
                raise Unsupported('%s: std::numeric_limits<%s>::max() of a type that is not a fixed-width unsigned integer' % (sc.loc, syn_str(f[1][1][1][0])))
            q = self.db.find(self.db.funcs, base, sc.loc)
            if q == 'amc::vec::SanitizeInlineSize' and args == [] and last_args is not None and len(last_args) == 2:
                self.check_sanitize(q)
                return self.ex(last_args[0], sc)
        raise Unsupported('%s: unsupported call `%s`' % (sc.loc, syn_str(e)))

    def check_sanitize(self, q):
        """SanitizeInlineSize<N, SizeType>() must be `static_assert(...); return static_cast<SizeType>(N);`"""
        fts = self.db.funcs[q]
        if len(fts) != 1:
            raise Unsupported('%s: %d overloads of %s' % (where(fts[0]), len(fts), q))
        fd = [c for c in kids(fts[0], 'FunctionDecl') if not kids(c, 'TemplateArgument')][0]
        body = kids(fd, 'CompoundStmt')
        stmts = kids(body[0]) if body else []
        ok = len(stmts) == 2 and stmts[0].get('kind') == 'DeclStmt' and stmts[1].get('kind') == 'ReturnStmt'
        if ok:
            r = kids(stmts[1])
            ok = len(r) == 1 and r[0].get('kind') == 'CXXStaticCastExpr' and len(kids(r[0])) == 1 \
                and kids(r[0])[0].get('kind') == 'DeclRefExpr' and kids(r[0])[0].get('referencedDecl', {}).get('name') == 'N' \
                and kids(stmts[0])[0].get('kind') == 'StaticAssertDecl'
        if not ok:
            raise Unsupported('%s: SanitizeInlineSize is not `static_assert(...); return static_cast<SizeType>(N);`' % where(fd))

    def sizeof(self, t, sc):
        if t == ('opaque', 'T'):
            return self.atom('sT')
        if t == ('opaque', 'SizeType'):
            return self.atom('sS')
        if t[0] == 'ptr':
            return self.atom('ptrSize')
        if t[0] == 'uint':
            return ('n', t[1] // 8)
        raise Unsupported('%s: sizeof of %r is not an input of the model' % (sc.loc, t))

    def alignof(self, t, sc):
        if t == ('opaque', 'T'):
            return self.atom('aT')
        if t == ('opaque', 'SizeType'):
            return self.atom('sS')
        if t[0] == 'ptr':
            return self.atom('ptrAlign')
        if t[0] == 'uint':
            return ('n', t[1] // 8)
        raise Unsupported('%s: alignof of %r is not an input of the model' % (sc.loc, t))

    # -- entities: ('T', type value) | ('V', IR) -----------------------------------------------------------------------

    def entity(self, e, sc):
        if e[0] != 'name':
            raise Unsupported('%s: `%s` where a name is expected' % (sc.loc, syn_str(e)))
        segs, suffix = e[1], e[2]
        v, rest = self.head(segs, sc)
        for name, targs in rest:
            if targs is not None:
                raise Unsupported('%s: member template `%s<...>` in `%s`' % (sc.loc, name, syn_str(e)))
            v = self.member(v, name, sc)
        for s in suffix:
            if s == '*':
                if v[0] != 'T':
                    raise Unsupported('%s: pointer to a value in `%s`' % (sc.loc, syn_str(e)))
                v = ('T', ('ptr', v[1]))
            else:
                raise Unsupported('%s: reference / pack type `%s` in a constant expression' % (sc.loc, syn_str(e)))
        return v

    def head(self, segs, sc):
        """the longest prefix of a qualified name that designates an entity; returns (entity, remaining segments)"""
        name, targs = segs[0]
        if targs is None and name in sc.bind:
            return sc.bind[name], segs[1:]
        if targs is None and name in getattr(sc, 'opaque_typedefs', ()):
            return ('T', ('opaque', name)), segs[1:]
        if targs is None and sc.rec is not None and name in sc.rec.typedefs:
            return ('T', self.typedef(sc.rec, name, sc)), segs[1:]
        if targs is None and sc.rec is not None and name in sc.rec.statics:
            return ('V', self.static(sc.rec, name, sc)), segs[1:]
        if targs is None and (name in UINTS or name in ('bool', 'void')):
            return ('T', ('uint', UINTS[name]) if name in UINTS else (('boolty',) if name == 'bool' else ('void',))), segs[1:]
        # namespace prefix
        i = 0
        while i < len(segs) - 1 and segs[i][1] is None and segs[i][0] in NAMESPACES:
            i += 1
        prefix = [s for s, _ in segs[:i]]
        name, targs = segs[i]
        rest = segs[i + 1:]
        if prefix[:1] == ['std'] or (not prefix and self.is_std_name(name, targs, sc)):
            return self.std_entity(name, targs, sc), rest
        qn = '::'.join(prefix + [name])
        if targs is None and name in UINTS:
            return ('T', ('uint', UINTS[name])), rest
        # the injected class name / a template of namespace amc
        q = self.db.find(self.db.tmpls, qn, sc.loc)
        if q is not None:
            if targs is None:
                raise Unsupported('%s: the template `%s` without arguments (injected class name) is not supported here' % (sc.loc, qn))
            return ('T', self.inst(q, [self.targ(a, sc) for a in targs], sc)), rest
        q = self.db.find(self.db.aliases, qn, sc.loc)
        if q is not None and targs is not None:
            return ('T', self.alias(q, [self.targ(a, sc) for a in targs], sc)), rest
        q = self.db.find(self.db.classes, qn, sc.loc)
        if q is not None and targs is None:
            return ('T', ('named', q)), rest
        raise Unsupported('%s: unknown name `%s`' % (sc.loc, '::'.join(s for s, _ in segs)))

    def is_std_name(self, name, targs, sc):
        return name in ('pair', 'enable_if', 'conditional', 'integral_constant', 'true_type', 'false_type') and \
            self.db.find(self.db.tmpls, name, sc.loc) is None

    def targ(self, a, sc):
        """a template argument: ('T', type) | ('V', IR)"""
        if a[0] == 'name':
            return self.entity(a, sc)
        return ('V', self.ex(a, sc))

    def std_entity(self, name, targs, sc):
        if name in ('true_type', 'false_type') and targs is None:
            return ('T', ('ic', B(name == 'true_type')))
        if name in UINTS and targs is None:
            return ('T', ('uint', UINTS[name]))
        if targs is None:
            raise Unsupported('%s: std::%s is not in the list of std entities the translator knows' % (sc.loc, name))
        a = [self.targ(x, sc) for x in targs]
        kinds = ''.join(k for k, _ in a)
        if name == 'integral_constant' and kinds == 'TV' and a[0][1] == ('boolty',):
            return ('T', ('ic', a[1][1]))
        if name == 'conditional' and kinds == 'VTT':
            return ('T', ('std', 'conditional', a[0][1], a[1][1], a[2][1]))
        if name == 'enable_if' and kinds in ('V', 'VT'):
            return ('T', ('std', 'enable_if', a[0][1], a[1][1] if len(a) == 2 else ('void',)))
        if name == 'is_same' and kinds == 'TT':
            return ('T', ('ic', self.same(a[0][1], a[1][1], sc)))
        if name == 'pair' and kinds == 'TT':
            return ('T', ('pair', a[0][1], a[1][1]))
        if name == 'alignment_of' and kinds == 'T':
            return ('T', ('icn', self.alignof(a[0][1], sc)))
        if kinds == 'T' and a[0][1][0] == 'opaque' and ('std::' + name, a[0][1][1]) in STD_BOOL_TRAITS:
            return ('T', ('ic', self.std_trait('std::' + name, a[0][1][1], sc)))
        raise Unsupported('%s: std::%s<%s> is not in the list of traits the model knows (is_trivially_copyable<T>, '
                          'is_nothrow_move_constructible<T>, is_nothrow_move_assignable<T>, is_nothrow_swappable<T>, is_trivially_destructible<T>, '
                          'is_same, conditional, enable_if, integral_constant, alignment_of, pair)' % (sc.loc, name, ', '.join(map(syn_str, targs))))

    def std_trait(self, trait, p, sc):
        a = STD_BOOL_TRAITS[(trait, p)]
        if a.startswith('e.') and sc.view != 'elem':
            raise Unsupported('%s: %s<%s> outside the noexcept / vec:: traits' % (sc.loc, trait, p))
        return self.atom(a)

    def same(self, a, b, sc):
        # outside a specialisation pattern an ill-formed type is a hard error, not a case of the model
        if a[0] == 'sfinae':
            a = a[2]
        if b[0] == 'sfinae':
            b = b[2]
        if a == b:
            return B(True)
        for x, y in ((a, b), (b, a)):
            if x == ('opaque', 'GrowingPolicy') and y == ('named', 'amc::vec::DynamicGrowingPolicy'):
                return self.atom('dyn')
            if x == ('member', ('opaque', 'T'), 'trivially_relocatable') and y == ('ic', B(True)):
                return self.atom('typedefIsTrue')
            if x[0] == 'ic' and y == ('ic', B(True)):
                return x[1]
        if a[0] in ('named', 'uint', 'void', 'boolty') and b[0] in ('named', 'uint', 'void', 'boolty'):
            return B(False)
        raise Unsupported('%s: std::is_same<%r, %r> is not an input of the model' % (sc.loc, a, b))

    # -- members ---------------------------------------------------------------------------------------------------------

    def member(self, v, name, sc):
        if v[0] != 'T':
            raise Unsupported('%s: member `%s` of a value' % (sc.loc, name))
        t = v[1]
        if t[0] == 'std' and t[1] == 'conditional' and name == 'type':
            c, a, b = t[2], t[3], t[4]
            return ('T', a if c == B(True) else b if c == B(False) else ('tite', c, a, b))
        if t[0] == 'std' and t[1] == 'enable_if' and name == 'type':
            return ('T', t[3] if t[2] == B(True) else ('sfinae', t[2], t[3]))
        if t[0] == 'ic':
            if name == 'value':
                return ('V', t[1])
            if name == 'type':
                return ('T', t)
        if t[0] == 'icn' and name == 'value':
            return ('V', t[1])
        if t[0] == 'opaque':
            if name == 'trivially_relocatable' and t[1] == 'T' and sc.view == 'trait':
                return ('T', ('sfinae', self.atom('hasTypedef'), ('member', t, name)))
            if name == 'value_type' and t[1] == 'Alloc':
                return ('T', ('member', t, name))
            raise Unsupported('%s: member `%s` of the template parameter %s is not an input of the model' % (sc.loc, name, t[1]))
        if t[0] == 'sfinae':
            inner = self.member(('T', t[2]), name, sc)
            return ('T', ('sfinae', t[1], inner[1])) if inner[0] == 'T' else inner
        if t[0] == 'inst':
            return self.inst_member(t, name, sc)
        raise Unsupported('%s: member `%s` of %r' % (sc.loc, name, t))

    def typedef(self, rec, name, sc):
        n = rec.typedefs[name]
        sc2 = Scope(sc.bind, rec, where(n), sc.view, sc.owner)
        return self.type_of_text(n['type']['qualType'], sc2)

    def static(self, rec, name, sc):
        n = rec.statics[name]
        init = [c for c in kids(n) if c.get('kind', '').endswith('Expr') or c.get('kind', '').endswith('Operator')
                or c.get('kind') in ('ExprWithCleanups', 'IntegerLiteral', 'CXXBoolLiteralExpr')]
        if not n.get('constexpr') or len(init) != 1:
            raise Unsupported('%s: the static member %s is not `static constexpr` with an initialiser' % (where(n), name))
        sc2 = Scope(sc.bind, rec, where(n), sc.view, sc.owner)
        return self.ex(self.parse(source_text(init[0]), sc2), sc2)

    # -- templates of namespace amc ------------------------------------------------------------------------------------------

    def alias(self, q, args, sc):
        n = self.db.aliases[q]
        if q == 'amc::vec::has_reallocate':
            tad = kids(n, 'TypeAliasDecl')[0]
            if tad['type']['qualType'] not in ('is_detected<amc::vec::has_reallocate_t, T>', 'is_detected<has_reallocate_t, T>'):
                raise Unsupported('%s: has_reallocate is not `is_detected<has_reallocate_t, T>` but `%s`' % (where(n), tad['type']['qualType']))
            if args != [('T', ('opaque', 'Alloc'))]:
                raise Unsupported('%s: has_reallocate of something else than the allocator' % sc.loc)
            return ('ic', self.atom('hasReallocate'))
        if q == 'amc::is_nothrow_swappable':
            tad = kids(n, 'TypeAliasDecl')[0]
            if tad['type']['qualType'] != 'std::is_nothrow_swappable<T>':
                raise Unsupported('%s: amc::is_nothrow_swappable is an alias of `%s`' % (where(n), tad['type']['qualType']))
            if args != [('T', ('opaque', 'T'))]:
                raise Unsupported('%s: is_nothrow_swappable of something else than the element type' % sc.loc)
            return ('ic', self.std_trait('amc::is_nothrow_swappable', 'T', sc))
        params = tparams_of(n)
        tad = kids(n, 'TypeAliasDecl')[0]
        bind = self.bind_params(params, args, where(n), sc)
        return self.type_of_text(tad['type']['qualType'], Scope(bind, None, where(tad), sc.view, q))

    def bind_params(self, params, args, loc, sc, defaults_scope=None):
        bind = {}
        if len(args) > len(params):
            raise Unsupported('%s: %d template arguments for %d parameters' % (sc.loc, len(args), len(params)))
        for i, (k, name, node) in enumerate(params):
            if k == 'tmpl':
                raise Unsupported('%s: template template parameter' % loc)
            if i < len(args):
                v = args[i]
            else:
                d = kids(node, 'TemplateArgument')
                if not d:
                    raise Unsupported('%s: missing template argument %d' % (sc.loc, i))
                dsc = Scope(dict(bind), None, where(node), sc.view)
                if 'type' in d[0]:
                    v = ('T', self.type_of_text(d[0]['type']['qualType'], dsc))
                else:
                    ex = kids(d[0])
                    v = ('V', self.ex(self.parse(source_text(ex[0]), dsc), dsc))
            if (k == 'type') != (v[0] == 'T'):
                raise Unsupported('%s: template argument %d of the wrong kind' % (sc.loc, i))
            if name:
                bind[name] = v
            bind['#%d' % i] = v
        return bind

    def inst(self, q, args, sc):
        """an instantiation as a type value; the closed-list entities are resolved here"""
        if q == 'amc::is_trivially_relocatable':
            if len(args) == 1 and args[0][0] == 'T':
                t = args[0][1]
                if t[0] == 'opaque' and t[1] in TR_ATOMS:
                    a = TR_ATOMS[t[1]]
                    if t[1] == 'T' and sc.view == 'elem':
                        a = 'e.tr'
                    return ('ic', self.atom(a))
                if t == ('member', ('opaque', 'Alloc'), 'value_type'):
                    return ('ic', self.atom('trValueType'))
            raise Unsupported('%s: amc::is_trivially_relocatable of %r is not an input of the model' % (sc.loc, args))
        if q == 'amc::is_nothrow_swappable':
            if args == [('T', ('opaque', 'T'))]:
                return ('ic', self.std_trait('amc::is_nothrow_swappable', 'T', sc))
            raise Unsupported('%s: amc::is_nothrow_swappable of %r' % (sc.loc, args))
        conds = [a[1][1] for a in args if a[0] == 'T' and a[1][0] == 'sfinae']
        if conds:
            args = [('T', a[1][2]) if a[0] == 'T' and a[1][0] == 'sfinae' else a for a in args]
            c = conds[0]
            for x in conds[1:]:
                c = mk_and(c, x)
            return ('sfinae', c, self.inst(q, args, sc))
        return ('inst', q, args)

    def alternatives(self, q, args, sc, structural=None):
        """[(condition IR, Rec, bindings)]: the partial specialisations that may be selected, then the primary template.
        The conditions are exclusive: each is conjoined with the negation of the previous ones by the caller (decide)."""
        t = self.db.tmpls[q]
        if t.rec is None:
            raise Unsupported('%s: the template %s is declared but not defined' % (sc.loc, q))
        full = self.bind_params(t.params, args, where(t.node), sc)
        actual = [full['#%d' % i] for i in range(len(t.params))]
        alts = []
        for p in t.partials:
            if len(p.args) != len(actual):
                raise Unsupported('%s: partial specialisation with %d arguments for %d parameters' % (where(p.node), len(p.args), len(actual)))
            bind, cond, later = {}, B(True), []
            for idx, (pa, av) in enumerate(zip(p.args, actual)):
                if 'type' in pa:
                    m = re.fullmatch(r'type-parameter-0-(\d+)', pa['type']['qualType'])
                    if m:
                        if av[0] != 'T':
                            raise Unsupported('%s: kind mismatch in a partial specialisation' % where(p.node))
                        bind[p.params[int(m.group(1))][1]] = av
                    else:
                        later.append((pa, av))
                elif 'value' in pa:
                    c = pa['value']
                    if av[0] != 'V':
                        raise Unsupported('%s: kind mismatch in a partial specialisation' % where(p.node))
                    if t.params[idx][2]['type']['qualType'] == 'bool':
                        cond = mk_and(cond, av[1] if c != 0 else mk_not(av[1]))
                    else:
                        if av[1][0] == 'n':
                            cond = mk_and(cond, B(av[1][1] == c))
                        else:
                            cond = mk_and(cond, ('cmp', '==', av[1], ('n', c)))
                else:
                    ex = kids(pa)
                    if len(ex) == 1 and ex[0].get('kind') == 'DeclRefExpr' and ex[0].get('referencedDecl', {}).get('kind') == 'NonTypeTemplateParmDecl':
                        bind[ex[0]['referencedDecl']['name']] = av
                    else:
                        raise Unsupported('%s: unsupported argument pattern in a partial specialisation' % where(p.node))
            for pa, av in later:
                # the pattern is a dependent type: it must be well-formed and equal to the actual argument
                text = pa['type']['qualType']
                for i, (k, nm, _) in enumerate(p.params):
                    text = text.replace('type-parameter-0-%d' % i, nm)
                pbind = dict(bind)
                for k, nm, _ in p.params:
                    if nm not in pbind and k == 'type':
                        pbind[nm] = ('T', ('opaque', nm))       # deduced from the shape of the argument
                psc = Scope(pbind, None, where(p.node), sc.view, q)
                pv = self.type_of_text(text, psc)
                c2, core = (pv[1], pv[2]) if pv[0] == 'sfinae' else (B(True), pv)
                if core[0] == 'sfinae':
                    c2, core = mk_and(c2, core[1]), core[2]
                if core[0] == 'pair' and av[0] == 'T' and av[1][0] == 'opaque':
                    # a specialisation for a SHAPE of type (std::pair<T, U>): a case of its own, translated separately
                    if structural is None:
                        raise Unsupported('%s: specialisation for `%s` of a template applied to the opaque type %s' % (where(p.node), text, av[1][1]))
                    structural.append(p)
                    cond = B(False)
                    break
                if av[0] != 'T' or core != av[1]:
                    if av[0] == 'T' and core[0] in ('void', 'uint', 'boolty', 'named') and av[1][0] in ('void', 'uint', 'boolty', 'named'):
                        c2 = B(False)
                    else:
                        raise Unsupported('%s: cannot decide whether the specialisation pattern `%s` matches %r' % (where(p.node), text, av))
                cond = mk_and(cond, c2)
            if cond != B(False):
                alts.append((cond, p.rec, bind))
        named = {n: v for n, v in full.items() if not n.startswith('#')}
        alts.append((B(True), t.rec, named))
        return alts

    def decide(self, q, args, sc, f):
        """case distinction over the alternatives: f(Rec, bindings) -> IR"""
        alts = self.alternatives(q, args, sc)
        out = None
        for cond, rec, bind in reversed(alts):
            v = f(rec, bind)
            out = v if out is None else mk_ite(cond, v, out)
            if cond == B(True):
                out = v
        return out

    def base_types(self, rec, bind, view, owner):
        out = []
        for text, access in rec.bases:
            sc = Scope(bind, rec, where(rec.node), view, owner)
            out.append(self.type_of_text(text, sc))
        return out

    def value_of_type(self, t, sc, what='value'):
        """`t::value` of a type value (through base classes)"""
        if t[0] in ('ic', 'icn'):
            return t[1]
        if t[0] == 'inst':
            return self.inst_value(t, sc)
        if t[0] == 'tite':
            return mk_ite(t[1], self.value_of_type(t[2], sc), self.value_of_type(t[3], sc))
        raise Unsupported('%s: `::value` of %r' % (sc.loc, t))

    def inst_value(self, t, sc):
        q, args = t[1], t[2]
        if q in self.named and self.named[q][1] == 'value':
            return self.named_call(q, args, sc)
        return self.inline_value(q, args, sc)

    def inline_value(self, q, args, sc):
        def f(rec, bind):
            if 'value' in rec.statics:
                return self.static(rec, 'value', Scope(bind, rec, where(rec.node), sc.view, q))
            vals = []
            for bt in self.base_types(rec, bind, sc.view, q):
                if bt[0] in ('ic', 'icn', 'inst', 'tite'):
                    vals.append(self.value_of_type(bt, Scope(bind, rec, where(rec.node), sc.view, q)))
            if len(vals) != 1:
                raise Unsupported('%s: %s has %d base classes providing `value`' % (where(rec.node), q, len(vals)))
            return vals[0]
        return self.decide(q, args, sc, f)

    def named_call(self, q, args, sc):
        """reference to a generated definition: type arguments must be the parameters of the same name (identity)"""
        t = self.db.tmpls[q]
        explicit = []
        for (k, name, node), a in zip(t.params, args):
            if k == 'type':
                if a != ('T', ('opaque', name)):
                    raise Unsupported('%s: %s is applied to %r instead of its own parameter %s: the generated definition cannot be called' %
                                      (sc.loc, q, a, name))
            else:
                explicit.append(a[1])
        for k, name, node in t.params[len(args):]:
            if k != 'type' or not kids(node, 'TemplateArgument'):
                raise Unsupported('%s: %s without its argument %s' % (sc.loc, q, name))
        return ('call', self.named[q][0], explicit)

    def inst_member(self, t, name, sc):
        q, args = t[1], t[2]
        if name == 'value':
            return ('V', self.inst_value(t, sc))
        if (q, name) in self.named:
            # a static member generated as a definition of its own (ElemWithPtrStorage<T>::kNbSlots)
            tm = self.db.tmpls[q]
            for (k, pn, _), a in zip(tm.params, args):
                if k != 'type' or a != ('T', ('opaque', pn)):
                    raise Unsupported('%s: %s::%s of %r' % (sc.loc, q, name, args))
            return ('V', ('call', self.named[(q, name)][0], []))
        alts = self.alternatives(q, args, sc)
        res = None
        for cond, rec, bind in reversed(alts):
            v = self.rec_member(rec, bind, name, Scope(bind, rec, where(rec.node), sc.view, q), q)
            if res is None or cond == B(True):
                res = v
            else:
                if v[0] != res[0]:
                    raise Unsupported('%s: %s::%s is a type in one specialisation and a value in another' % (sc.loc, q, name))
                res = ('T', ('tite', cond, v[1], res[1])) if v[0] == 'T' else ('V', mk_ite(cond, v[1], res[1]))
        return res

    def rec_member(self, rec, bind, name, sc, q):
        if name in rec.typedefs:
            return ('T', self.typedef(rec, name, sc))
        if name in rec.statics:
            return ('V', self.static(rec, name, sc))
        if name == 'type':
            # integral_constant's `type`: the class derives from a Boolean constant
            for bt in self.base_types(rec, bind, sc.view, q):
                if bt[0] in ('ic', 'inst', 'tite'):
                    return ('T', ('ic', self.value_of_type(bt, sc)))
        for bt in self.base_types(rec, bind, sc.view, q):
            if bt[0] == 'inst':
                return self.inst_member(bt, name, sc)
            if bt[0] == 'tite':
                a = self.member(('T', bt[2]), name, sc)
                b = self.member(('T', bt[3]), name, sc)
                if a[0] == 'T' and b[0] == 'T':
                    return ('T', ('tite', bt[1], a[1], b[1]))
                if a[0] == 'V' and b[0] == 'V':
                    return ('V', mk_ite(bt[1], a[1], b[1]))
        raise Unsupported('%s: %s has no member `%s` the translator can find' % (where(rec.node), q, name))


def type_to_bool(t, loc):
    """`std::is_same<t, std::true_type>::value` of a typedef value"""
    if t[0] == 'ic':
        return t[1]
    if t[0] == 'tite':
        return mk_ite(t[1], type_to_bool(t[2], loc), type_to_bool(t[3], loc))
    raise Unsupported('%s: the typedef is %r, not a Boolean constant type' % (loc, t))


# ----------------------------------------------------------------------------------------------------------------------
# the definitions to generate
# ----------------------------------------------------------------------------------------------------------------------

# templates that become Lean definitions of their own and are referenced by call (everything else is inlined)
NAMED = {
    'amc::typetraits_details::has_trivially_relocatable': ('hasTriviallyRelocatable', 'value'),
    'amc::typetraits_details::is_trivially_relocatable_impl': ('isTriviallyRelocatableImpl', 'value'),
    ('amc::vec::ElemWithPtrStorage', 'kNbSlots'): ('kNbSlots', 'static'),
    'amc::vec::NoInlineStorage': ('noInlineStorage', 'value'),
    'amc::vec::DefineDestructor': ('defineDestructor', 'value'),
    'amc::vec::DefineVectorDestructor': ('defineVectorDestructor', 'value'),
    'amc::vec::is_swap_noexcept': ('isSwapNoexcept', 'value'),
    'amc::vec::is_shift_nothrow': ('isShiftNothrow', 'value'),
    'amc::vec::is_move_construct_nothrow': ('isMoveConstructNothrow', 'value'),
    ('amc::vec::ElemStorage', '#layout'): ('elemStorage', 'layout'),
    ('amc::vec::ElemWithPtrStorage', '#layout'): ('elemWithPtrStorage', 'layout'),
}
# classes whose data members become a definition of their own
CLASS_MEMBERS = {'amc::vec::StaticVectorBase': 'staticVectorBaseMembers', 'amc::vec::StdVectorBase': 'stdVectorBaseMembers',
                 'amc::vec::SmallVectorBase': 'smallVectorBaseMembers'}


def split_top(text, sep=','):
    out, depth, cur = [], 0, ''
    for ch in text:
        if ch in '<([':
            depth += 1
        elif ch in '>)]':
            depth -= 1
        if ch == sep and depth == 0:
            out.append(cur.strip()); cur = ''
        else:
            cur += ch
    if cur.strip():
        out.append(cur.strip())
    return out


def fn_params(fn_type, loc):
    """the parameter types of a function type as printed by clang"""
    depth, start = 0, None
    for i, ch in enumerate(fn_type):
        if ch == '<':
            depth += 1
        elif ch == '>':
            depth -= 1
        elif ch == '(' and depth == 0:
            start = i; break
    if start is None:
        raise Unsupported('%s: cannot read the parameter list of `%s`' % (loc, fn_type))
    d = 0
    for j in range(start, len(fn_type)):
        if fn_type[j] == '(':
            d += 1
        elif fn_type[j] == ')':
            d -= 1
            if d == 0:
                return split_top(fn_type[start + 1:j])
    raise Unsupported('%s: cannot read the parameter list of `%s`' % (loc, fn_type))


def camel(name):
    parts = name.split('_')
    return parts[0] + ''.join(x[:1].upper() + x[1:] for x in parts[1:])


def formal_name(name, i):
    if not name:
        return 'b%d' % i
    return name if len(name) == 1 else name[0].lower() + name[1:]


class Builder:
    """the definitions of one language standard"""
    def __init__(self, db):
        self.db = db
        self.sym = Sym(db, NAMED)
        self.defs = {}
        self.order = []

    def add(self, d):
        if d.name in self.defs:
            raise Unsupported('internal: definition %s generated twice' % d.name)
        self.defs[d.name] = d
        self.order.append(d.name)

    def template_args(self, q, params=None):
        """the template applied to its own parameters: type parameters opaque, non-type parameters formal variables"""
        t = self.db.tmpls[q]
        args, formals = [], []
        for i, (k, name, node) in enumerate(params if params is not None else t.params):
            if k == 'type':
                if kids(node, 'TemplateArgument') and not name:
                    break                      # an unnamed defaulted parameter (the SFINAE slot): left to its default
                args.append(('T', ('opaque', name)))
            elif k == 'nttp':
                ty = 'Bool' if node['type']['qualType'] == 'bool' else 'Nat'
                fn = formal_name(name, i)
                formals.append((fn, ty))
                args.append(('V', ('var', fn, ty)))
            else:
                raise Unsupported('%s: template template parameter of %s' % (where(node), q))
        return args, formals

    def tmpl(self, q):
        if q not in self.db.tmpls or self.db.tmpls[q].rec is None:
            raise Unsupported('include/amc (-std=%s): the class template %s is not defined' % (self.db.std, q))
        return self.db.tmpls[q]

    def value_template(self, q, name, view, section, structural_names=None):
        """`q<own parameters>::value` as a function of the inputs; one more definition per specialisation for a shape of type"""
        t = self.tmpl(q)
        args, formals = self.template_args(q)
        sc = Scope({}, None, where(t.node), view, q)
        structural = []
        body = self.inline_value_with(q, args, sc, structural)
        doc = '`%s<%s>::value`' % (q.replace('amc::', '', 1), ', '.join(n or '_' for _, n, _ in t.params))
        self.add(Def(name, formals, body, ir_type(body, self.defs), doc, where(t.node), section))
        if structural and not structural_names:
            raise Unsupported('%s: %s is specialised for a shape of type the model does not know' % (where(structural[0].node), q))
        for p in structural:
            text = p.args[0]['type']['qualType']
            key = re.sub(r'<.*', '', text)
            if len(p.args) != 1 or key not in structural_names:
                raise Unsupported('%s: %s is specialised for `%s`: the model knows only %s' % (where(p.node), q, text, ', '.join(structural_names)))
            bind = {n: ('T', ('opaque', n)) for k, n, _ in p.params if k == 'type'}
            if len(bind) != len(p.params):
                raise Unsupported('%s: non-type parameter in a specialisation for a shape of type' % where(p.node))
            vals = []
            for bt in self.sym.base_types(p.rec, bind, view, q):
                vals.append(self.sym.value_of_type(bt, Scope(bind, p.rec, where(p.node), view, q)))
            if len(vals) != 1:
                raise Unsupported('%s: %d base classes' % (where(p.node), len(vals)))
            for i, (k, n, _) in enumerate(p.params):
                text = text.replace('type-parameter-0-%d' % i, n)
            self.add(Def(structural_names[key], [], vals[0], ir_type(vals[0], self.defs),
                         '`%s<std::%s>::value`' % (q.replace('amc::', '', 1), text), where(p.node), section))

    def inline_value_with(self, q, args, sc, structural):
        sym = self.sym

        def f(rec, bind):
            vals = []
            for bt in sym.base_types(rec, bind, sc.view, q):
                if bt[0] in ('ic', 'icn', 'inst', 'tite'):
                    vals.append(sym.value_of_type(bt, Scope(bind, rec, where(rec.node), sc.view, q)))
            if len(vals) != 1:
                raise Unsupported('%s: %s has %d base classes providing `value`' % (where(rec.node), q, len(vals)))
            return vals[0]
        alts = sym.alternatives(q, args, sc, structural)
        out = None
        for cond, rec, bind in reversed(alts):
            v = f(rec, bind)
            out = v if out is None or cond == B(True) else mk_ite(cond, v, out)
        return out

    def static_member(self, q, member, name, view, section):
        t = self.tmpl(q)
        args, formals = self.template_args(q)
        if member not in t.rec.statics:
            raise Unsupported('%s: %s has no static member %s' % (where(t.node), q, member))
        if t.partials:
            raise Unsupported('%s: %s is partially specialised' % (where(t.partials[0].node), q))
        bind = self.sym.bind_params(t.params, args, where(t.node), Scope({}, None, where(t.node), view, q))
        bind = {n: v for n, v in bind.items() if not n.startswith('#')}
        body = self.sym.static(t.rec, member, Scope(bind, t.rec, where(t.node), view, q))
        self.add(Def(name, formals, body, ir_type(body, self.defs), '`%s<%s>::%s`' % (q.replace('amc::', '', 1), ', '.join(n or '_' for _, n, _ in t.params), member),
                     where(t.rec.statics[member]), section))

    # -- the chain of base classes of a class, with the conditions under which each specialisation / std::conditional arm is taken

    def walk(self, t, view):
        """type value of a class -> ('ite', cond, tree, tree) | ('leaf', [(qualified name, Rec, bindings)]) most derived class first"""
        sym = self.sym
        if t[0] == 'tite':
            return ('ite', t[1], self.walk(t[2], view), self.walk(t[3], view))
        if t[0] == 'named':
            rec = self.db.classes[t[1]]
            if rec.bases:
                raise Unsupported('%s: base classes of the plain class %s' % (where(rec.node), t[1]))
            return ('leaf', [(t[1], rec, {})])
        if t[0] != 'inst':
            raise Unsupported('internal: base class %r' % (t,))
        q, args = t[1], t[2]
        tm = self.tmpl(q)
        alts = sym.alternatives(q, args, Scope({}, None, where(tm.node), view, q))
        out = None
        for cond, rec, bind in reversed(alts):
            cls = []
            for bt in sym.base_types(rec, bind, view, q):
                if bt == ('opaque', 'Alloc') or bt == ('opaque', 'Compare'):
                    self.empty_bases.add(bt[1])      # assumed empty (empty-base optimisation); checked on the grid
                elif bt[0] in ('inst', 'tite', 'named'):
                    cls.append(bt)
                else:
                    raise Unsupported('%s: base class %r of %s' % (where(rec.node), bt, q))
            if len(cls) > 1:
                raise Unsupported('%s: %s has several non-empty base classes' % (where(rec.node), q))
            sub = self.walk(cls[0], view) if cls else ('leaf', [])
            node = self.prepend((q, rec, bind), sub)
            out = node if out is None or cond == B(True) else ('ite', cond, node, out)
        return out

    def prepend(self, x, tree):
        if tree[0] == 'ite':
            return ('ite', tree[1], self.prepend(x, tree[2]), self.prepend(x, tree[3]))
        return ('leaf', [x] + tree[1])

    def tree_map(self, tree, f):
        if tree[0] == 'ite':
            return mk_ite(tree[1], self.tree_map(tree[2], f), self.tree_map(tree[3], f))
        return f(tree[1])

    def leaves(self, tree):
        return self.leaves(tree[2]) + self.leaves(tree[3]) if tree[0] == 'ite' else [tree[1]]

    def chain_typedef(self, chain, name, view):
        for q, rec, bind in chain:
            if name in rec.typedefs:
                n = rec.typedefs[name]
                return type_to_bool(self.sym.typedef(rec, name, Scope(bind, rec, where(n), view, q)), where(n))
        raise Unsupported('%s: no class of the hierarchy declares `%s`' % (where(chain[0][1].node), name))

    def vector_type(self):
        """amc::Vector applied to its own parameters"""
        args, formals = self.template_args('amc::Vector')
        return ('inst', 'amc::Vector', args), formals

    def vector_quantity(self, name, view, section, doc, f):
        t, formals = self.vector_type()
        tree = self.walk(t, view)
        body = self.tree_map(tree, f)
        tm = self.tmpl('amc::Vector')
        names = []
        for ch in self.leaves(tree):
            nm = ch[-1][0].split('::')[-1]
            if nm not in names:
                names.append(nm)
        self.add(Def(name, formals, body, ir_type(body, self.defs), doc + ' (root classes of the hierarchy: %s)' % ', '.join(names), where(tm.node), section))

    def alias_to_vector(self, alias, target, name, section, doc):
        """an alias template of amc::Vector: the definition `target` of Vector with the alias' arguments"""
        q = self.db.find(self.db.aliases, alias, 'include/amc')
        if q is None:
            raise Unsupported('include/amc (-std=%s): the alias template %s is not declared' % (self.db.std, alias))
        n = self.db.aliases[q]
        params = tparams_of(n)
        bind, formals = {}, []
        for i, (k, pn, node) in enumerate(params):
            if k == 'type':
                bind[pn] = ('T', ('opaque', pn))
            else:
                fn = formal_name(pn, i)
                formals.append((fn, 'Bool' if node['type']['qualType'] == 'bool' else 'Nat'))
                bind[pn] = ('V', ('var', fn, formals[-1][1]))
        tad = kids(n, 'TypeAliasDecl')[0]
        sc = Scope(bind, None, where(tad), 'layout', q)
        t = self.sym.type_of_text(tad['type']['qualType'], sc)
        if t[0] != 'inst' or t[1] != 'amc::Vector' or len(t[2]) != 5:
            raise Unsupported('%s: %s is not an alias of amc::Vector<T, Alloc, SizeType, GrowingPolicy, N> but of %r' % (where(tad), alias, t))
        aT, aAlloc, aSize, aGP, aN = t[2]
        if aT != ('T', ('opaque', 'T')):
            raise Unsupported('%s: the element type of %s is not its parameter T' % (where(tad), alias))
        ov = {}
        if aSize != ('T', ('opaque', 'SizeType')):
            if aSize[0] == 'T' and aSize[1][0] == 'uint':
                ov['sS'] = ('n', aSize[1][1] // 8)
            else:
                raise Unsupported('%s: size type %r of %s' % (where(tad), aSize, alias))
        if aGP == ('T', ('named', 'amc::vec::DynamicGrowingPolicy')):
            ov['dyn'] = B(True)
        elif aGP[0] == 'T' and aGP[1][0] == 'named':
            ov['dyn'] = B(False)
        elif aGP != ('T', ('opaque', 'GrowingPolicy')):
            raise Unsupported('%s: growing policy %r of %s' % (where(tad), aGP, alias))
        if aAlloc == ('T', ('named', 'amc::vec::EmptyAlloc')) and 'dyn' not in ov:
            ov['dyn'] = self.dyn_from_asserts(aAlloc, aGP)
        elif aAlloc[0] != 'T' or aAlloc[1][0] not in ('opaque', 'named', 'inst'):
            raise Unsupported('%s: allocator %r of %s' % (where(tad), aAlloc, alias))
        d = self.defs[target]
        body = ('call', target, [aN[1]], tuple(sorted(ov.items())))
        self.add(Def(name, formals, body, d.rtype, doc + ' = `%s`' % tad['type']['qualType'], where(n), section))

    def dyn_from_asserts(self, aAlloc, aGP):
        """Vector's static_assert relating the growing policy and the allocator: what it says about `dyn` for this allocator"""
        tm = self.tmpl('amc::Vector')
        bind = {'Alloc': aAlloc, 'GrowingPolicy': aGP, 'T': ('T', ('opaque', 'T')), 'SizeType': ('T', ('opaque', 'SizeType')),
                'N': ('V', ('var', 'N', 'Nat'))}
        for a in tm.rec.asserts:
            ex = [c for c in kids(a) if c.get('kind') != 'StringLiteral']
            text = source_text(ex[0])
            if 'Alloc' not in text:
                continue
            sc = Scope(bind, tm.rec, where(a), 'layout', 'amc::Vector')
            c = self.sym.ex(self.sym.parse(text, sc), sc)
            if c[0] == 'cmp' and c[1] == '==' and c[2] == ('var', 'dyn', 'Bool') and c[3][0] == 'b':
                return c[3]
            raise Unsupported('%s: cannot read what `static_assert(%s)` says about the growing policy of a vector with EmptyAlloc' % (where(a), text))
        raise Unsupported('%s: no static_assert relates GrowingPolicy and Alloc: a FixedCapacityVector could be dynamic' % where(tm.node))

    def class_typedef(self, q, name, lean_name, section, opaque_typedefs=()):
        """the member typedef of a class template that has no base class providing it"""
        t = self.tmpl(q)
        if t.partials:
            raise Unsupported('%s: %s is partially specialised' % (where(t.partials[0].node), q))
        if name not in t.rec.typedefs:
            raise Unsupported('%s: %s does not declare `%s`' % (where(t.node), q, name))
        bind = {pn: ('T', ('opaque', pn)) for k, pn, _ in t.params if k == 'type'}
        n = t.rec.typedefs[name]
        sc = Scope(bind, t.rec, where(n), 'typedef', q)
        sc.opaque_typedefs = set(opaque_typedefs)
        body = type_to_bool(self.sym.type_of_text(n['type']['qualType'], sc), where(n))
        notes = ''
        for td in opaque_typedefs:
            notes += '; `%s` = `%s`' % (td, t.rec.typedefs[td]['type']['qualType'])
        self.add(Def(lean_name, [], body, 'Bool', '`%s<...>::%s` is `std::true_type`%s' % (q.replace('amc::', '', 1), name, notes), where(n), section))

    # -- noexcept ------------------------------------------------------------------------------------------------------

    def noexcept_ir(self, node, sc):
        text = noexcept_of(node['type']['qualType'], where(node))
        if text is None:
            return B(False)
        sc2 = Scope(sc.bind, sc.rec, where(node), 'elem', sc.owner)
        return self.sym.ex(self.sym.parse(text, sc2), sc2)

    def vector_method(self, kind, mname, pats, lean_name, section, doc):
        tm = self.tmpl('amc::Vector')
        args, formals = self.template_args('amc::Vector')
        bind = {pn: a for (k, pn, _), a in zip(tm.params, args)}
        found = []
        for m in tm.rec.methods:
            if m.get('kind') != kind or (mname is not None and m.get('name') != mname):
                continue
            ps = fn_params(m['type']['qualType'], where(m))
            if len(ps) == len(pats) and all(re.fullmatch(pt, x) for pt, x in zip(pats, ps)):
                found.append(m)
        if len(found) != 1:
            raise Unsupported('%s: %d members of Vector match %s(%s)' % (where(tm.node), len(found), mname or 'Vector', ', '.join(pats)))
        m = found[0]
        body = self.noexcept_ir(m, Scope(bind, tm.rec, where(m), 'elem', 'amc::Vector'))
        self.add(Def(lean_name, formals, body, 'Bool', doc + ': `noexcept(%s)`' % (noexcept_of(m['type']['qualType'], where(m)) or 'false'), where(m), section))

    def function_family(self, q, section, lean_base=None, rename=None, only=None):
        """the exception specifications of the overloads of a function template, grouped by parameter list; overloads of a
        group must be selected by `enable_if<c>` / `enable_if<!c>` non-type template parameters"""
        groups = {}
        for ft in self.db.funcs[q]:
            fds = [c for c in kids(ft, 'FunctionDecl') if not kids(c, 'TemplateArgument')]
            if len(fds) != 1:
                raise Unsupported('%s: function template %s without a unique pattern' % (where(ft), q))
            fd = fds[0]
            if only is not None and not all(re.fullmatch(only, x) for x in fn_params(fd['type']['qualType'], where(fd))):
                continue
            params = tparams_of(ft)
            bind, cond = {}, B(True)
            for k, pn, node in params:
                if k == 'type' and pn:
                    bind[rename.get(pn, pn) if rename else pn] = ('T', ('opaque', rename.get(pn, pn) if rename else pn))
                    if rename and pn in rename:
                        bind[pn] = bind[rename[pn]]
                elif k == 'nttp' and pn:
                    bind[pn] = ('V', ('var', pn, 'Bool' if node['type']['qualType'] == 'bool' else 'Nat'))
            for k, pn, node in params:
                if k == 'nttp' and not pn:
                    sc = Scope(bind, None, where(node), 'elem', q)
                    t = self.sym.type_of_text(node['type']['qualType'], sc)
                    if t[0] != 'sfinae' or t[2] != ('boolty',):
                        raise Unsupported('%s: unnamed non-type template parameter of type `%s` (expected an enable_if<..., bool>::type)' %
                                          (where(node), node['type']['qualType']))
                    cond = mk_and(cond, t[1])
            ps = tuple(fn_params(fd['type']['qualType'], where(fd)))
            spec = self.noexcept_ir(fd, Scope(bind, None, where(fd), 'elem', q))
            groups.setdefault(ps, []).append((cond, spec, fd))
        out = []
        for ps, ovs in groups.items():
            if len(ovs) == 1 and ovs[0][0] == B(True):
                body = ovs[0][1]
            elif len(ovs) == 2 and (ovs[0][0] == mk_not(ovs[1][0]) or ovs[1][0] == mk_not(ovs[0][0])):
                pos = ovs[0] if ovs[0][0][0] != 'not' else ovs[1]
                neg = ovs[1] if pos is ovs[0] else ovs[0]
                body = mk_ite(pos[0], pos[1], neg[1])
            else:
                raise Unsupported('%s: the %d overloads of %s(%s) are not one unconstrained overload or an enable_if<c> / enable_if<!c> pair' %
                                  (where(ovs[0][2]), len(ovs), q, ', '.join(ps)))
            out.append((ps, body, ovs))
        base = lean_base or camel(q.split('::')[-1])
        for ps, body, ovs in out:
            name = base + ('Noexcept' if len(out) == 1 else '%dNoexcept' % len(ps))
            self.add(Def(name, [], body, 'Bool', 'exception specification of `%s(%s)` (%d overload%s)' %
                         (q.replace('amc::', '', 1), ', '.join(ps), len(ovs), 's' if len(ovs) > 1 else ''),
                         ', '.join(where(o[2]) for o in ovs), section))

    def chain_method(self, chain, name, nparams):
        for q, rec, bind in chain:
            cands = [m for m in rec.methods if m.get('name') == name]
            tcands = [m for m in rec.ftemplates if m.get('name') == name]
            if not cands and not tcands:
                continue
            sel = [m for m in cands if len(fn_params(m['type']['qualType'], where(m))) == nparams]
            if len(sel) != 1:
                raise Unsupported('%s: %d non-template overloads of %s::%s with %d parameters' % (where(rec.node), len(sel), q, name, nparams))
            return self.noexcept_ir(sel[0], Scope(bind, rec, where(sel[0]), 'elem', q))
        raise Unsupported('%s: no class of the hierarchy declares `%s`' % (where(chain[0][1].node), name))

    # -- layout --------------------------------------------------------------------------------------------------------

    def field_sa(self, f, sc):
        text = f['type']['qualType']
        loc = where(f)
        sc = Scope(sc.bind, sc.rec, loc, 'layout', sc.owner)
        count = None
        m = re.fullmatch(r'(.*?)\[(.*)\]', text)
        if m and m.group(1).count('<') == m.group(1).count('>'):
            text, count = m.group(1).strip(), self.sym.ex(self.sym.parse(m.group(2), sc), sc)
        t = self.sym.type_of_text(text, sc)
        aligned = kids(f, 'AlignedAttr')
        al = None
        if aligned:
            inner = kids(aligned[0])
            if len(aligned) != 1 or len(inner) != 1:
                raise Unsupported('%s: alignas with %d operands' % (loc, len(inner)))
            x = inner[0]
            if x.get('kind') == 'UnaryExprOrTypeTraitExpr' and x.get('name') == 'alignof' and 'argType' in x:
                al = self.sym.alignof(self.sym.type_of_text(x['argType']['qualType'], sc), sc)
            else:
                al = self.sym.ex(self.sym.parse(source_text(x), sc), sc)
        if f.get('isBitfield'):
            raise Unsupported('%s: bit-field' % loc)
        if t == ('opaque', 'SizeType'):
            sa = ('scalar', self.sym.atom('sS'))
        elif t[0] == 'ptr':
            sa = ('sa', self.sym.atom('ptrSize'), self.sym.atom('ptrAlign'))
        elif t[0] == 'uint':
            sa = ('sa', ('n', t[1] // 8), ('n', t[1] // 8))
        elif t[0] == 'inst' and (t[1], '#layout') in NAMED and t[2] == [('T', ('opaque', 'T'))]:
            sa = ('call', NAMED[(t[1], '#layout')][0], [])
        else:
            raise Unsupported('%s: data member of type `%s`: not a size type, a pointer, a byte array or an element storage' % (loc, f['type']['qualType']))
        if al is not None:
            if t != ('uint', 8) or count is None:
                raise Unsupported('%s: alignas on a member that is not a byte array' % loc)
            return ('sa', count, al)            # count * sizeof(uint8_t), aligned as requested (at least 1)
        if count is not None:
            return ('arr', count, sa) if sa[0] == 'call' else ('sa', ('arith', '*', count, sa[1]), sa[2])
        return sa

    def rec_members(self, q, rec, bind):
        return ('list', [self.field_sa(f, Scope(bind, rec, where(f), 'layout', q)) for f in rec.fields])

    def class_layout(self, q, lean_name, section):
        t = self.tmpl(q)
        if t.partials or t.rec.bases:
            raise Unsupported('%s: %s has specialisations or base classes' % (where(t.node), q))
        bind = {pn: ('T', ('opaque', pn)) for k, pn, _ in t.params if k == 'type'}
        body = ('classof', self.rec_members(q, t.rec, bind))
        self.add(Def(lean_name, [], body, 'SA', 'size and alignment of `%s<%s>`: its data members %s' %
                     (q.replace('amc::', '', 1), ', '.join(pn for _, pn, _ in t.params), ', '.join('`%s %s`' % (f['type']['qualType'], f['name']) for f in t.rec.fields)),
                     where(t.rec.fields[0]) if t.rec.fields else where(t.node), section))

    def class_members(self, q, lean_name, section):
        t = self.tmpl(q)
        if t.partials:
            raise Unsupported('%s: %s has specialisations' % (where(t.node), q))
        bind = {pn: ('T', ('opaque', pn)) for k, pn, _ in t.params if k == 'type'}
        sc = Scope(bind, t.rec, where(t.node), 'layout', q)
        for bt in self.sym.base_types(t.rec, bind, 'layout', q):
            if bt != ('opaque', 'Alloc'):
                raise Unsupported('%s: base class %r of %s' % (where(t.node), bt, q))
            self.empty_bases.add('Alloc')
        body = self.rec_members(q, t.rec, bind)
        self.add(Def(lean_name, [], body, 'List SA', 'the data members of `%s<%s>`: %s%s' %
                     (q.replace('amc::', '', 1), ', '.join(pn for _, pn, _ in t.params), ', '.join('`%s %s`' % (f['type']['qualType'], f['name']) for f in t.rec.fields),
                      '; the base class Alloc is empty' if t.rec.bases else ''), where(t.node), section))

    def chain_members(self, chain):
        parts = []
        for q, rec, bind in reversed(chain):
            if not rec.fields:
                continue
            t = self.db.tmpls.get(q)
            ident = t is not None and all(bind.get(pn) == ('T', ('opaque', pn)) for k, pn, _ in t.params if k == 'type') and \
                all(k == 'type' for k, _, _ in t.params)
            if q in CLASS_MEMBERS and ident:
                parts.append(('call', CLASS_MEMBERS[q], []))
            else:
                parts.append(self.rec_members(q, rec, bind))
        if not parts:
            return ('list', [])
        out = parts[0]
        for x in parts[1:]:
            out = ('append', out, x)
        return out

    def typedef_sizeof(self, q, name, lean_name, section):
        t = self.tmpl(q)
        args, formals = self.template_args(q)
        bind = {pn: a for (k, pn, _), a in zip(t.params, args)}
        n = t.rec.typedefs.get(name)
        if n is None or t.partials:
            raise Unsupported('%s: %s::%s' % (where(t.node), q, name))
        sc = Scope(bind, t.rec, where(n), 'layout', q)
        ty = self.sym.type_of_text(n['type']['qualType'], sc)

        def sz(x):
            if x[0] == 'tite':
                return mk_ite(x[1], sz(x[2]), sz(x[3]))
            return self.sym.sizeof(x, sc)
        self.add(Def(lean_name, formals, sz(ty), 'Nat', 'sizeof `%s<%s>::%s`' % (q.replace('amc::', '', 1), ', '.join(pn for _, pn, _ in t.params), name), where(n), section))

    def build(self):
        self.empty_bases = set()
        S1 = 'amc::is_trivially_relocatable (type_traits.hpp)'
        self.value_template('amc::typetraits_details::has_trivially_relocatable', 'hasTriviallyRelocatable', 'trait', S1)
        self.value_template('amc::typetraits_details::is_trivially_relocatable_impl', 'isTriviallyRelocatableImpl', 'trait', S1)
        self.value_template('amc::is_trivially_relocatable', 'isTriviallyRelocatable', 'trait', S1, {'pair': 'isTriviallyRelocatablePair'})
        S2 = "the containers' `trivially_relocatable` typedefs (vectorcommon.hpp, smallvector.hpp, vector.hpp, fixedcapacityvector.hpp, flatset.hpp, smallset.hpp)"
        self.static_member('amc::vec::ElemWithPtrStorage', 'kNbSlots', 'kNbSlots', 'layout', S2)
        self.value_template('amc::vec::NoInlineStorage', 'noInlineStorage', 'layout', S2)
        self.vector_quantity('vectorTriviallyRelocatable', 'typedef', S2,
                             '`Vector<T, Alloc, SizeType, GrowingPolicy, N>::trivially_relocatable` is `std::true_type`: the typedef of the first class of the '
                             'hierarchy Vector / VectorWithInplaceStorage / VectorImpl / VectorDestr / DynamicVector | StaticVector / ...Base that declares it',
                             lambda ch: self.chain_typedef(ch, 'trivially_relocatable', 'typedef'))
        self.alias_to_vector('SmallVector', 'vectorTriviallyRelocatable', 'smallVectorTriviallyRelocatable', S2, '`SmallVector<T, N, Alloc, SizeType>`')
        self.alias_to_vector('vector', 'vectorTriviallyRelocatable', 'stdVectorTriviallyRelocatable', S2, '`vector<T, Alloc, SizeType>`')
        self.alias_to_vector('FixedCapacityVector', 'vectorTriviallyRelocatable', 'fixedCapacityVectorTriviallyRelocatable', S2,
                             '`FixedCapacityVector<T, N, GrowingPolicy, SizeType>`')
        self.class_typedef('amc::FlatSet', 'trivially_relocatable', 'flatSetTriviallyRelocatable', S2)
        if 'amc::SmallSet' in self.db.tmpls:
            self.class_typedef('amc::SmallSet', 'trivially_relocatable', 'smallSetTriviallyRelocatable', S2, ['VecType'])
        S3 = '`noexcept` specifications and `CanReallocate` (vectorcommon.hpp, smallvector.hpp)'
        self.value_template('amc::vec::is_swap_noexcept', 'isSwapNoexcept', 'elem', S3)
        self.value_template('amc::vec::is_shift_nothrow', 'isShiftNothrow', 'elem', S3)
        self.value_template('amc::vec::is_move_construct_nothrow', 'isMoveConstructNothrow', 'elem', S3)
        self.value_template('amc::vec::CanReallocate', 'canReallocate', 'elem', S3)
        V = r'(amc::)?Vector<T, Alloc, SizeType, GrowingPolicy, N> '
        self.vector_method('CXXConstructorDecl', None, [V + '&&'], 'vectorMoveCtorNoexcept', S3, '`Vector(Vector &&)`')
        self.vector_method('CXXConstructorDecl', None, [V + '&&', 'const Alloc &'], 'vectorMoveCtorAllocNoexcept', S3, '`Vector(Vector &&, const Alloc &)`')
        self.vector_method('CXXMethodDecl', 'operator=', [V + '&&'], 'vectorMoveAssignNoexcept', S3, '`Vector::operator=(Vector &&)`')
        self.vector_method('CXXMethodDecl', 'swap', [V + '&'], 'vectorSwapNoexcept', S3, '`Vector::swap(Vector &)`')
        self.function_family('amc::swap', S3, 'vectorFreeSwap', {'A': 'Alloc', 'S': 'SizeType', 'G': 'GrowingPolicy'}, r'(amc::)?Vector<T, A, S, G, N> &')
        for mname, k, ln in (('move_construct', 2, 'vectorBaseMoveConstructNoexcept'), ('move_assign', 2, 'vectorBaseMoveAssignNoexcept'),
                             ('swap_impl', 1, 'vectorBaseSwapImplNoexcept')):
            self.vector_quantity(ln, 'elem', S3, 'exception specification of the `%s` (%d parameter%s) that `Vector` inherits and calls in the member above' %
                                 (mname, k, 's' if k > 1 else ''), lambda ch, mname=mname, k=k: self.chain_method(ch, mname, k))
        for q in sorted(self.db.funcs):
            if q.startswith('amc::vec::') and any(re.search(r'noexcept\(', c['type']['qualType']) for ft in self.db.funcs[q] for c in kids(ft, 'FunctionDecl')):
                self.function_family(q, S3)
        S4 = 'storage layout (vectorcommon.hpp, fixedcapacityvector.hpp)'
        self.typedef_sizeof('amc::vec::SmallestSizeType', 'type', 'smallestSizeType', S4)
        self.class_layout('amc::vec::ElemStorage', 'elemStorage', S4)
        self.class_layout('amc::vec::ElemWithPtrStorage', 'elemWithPtrStorage', S4)
        for q in ('amc::vec::StaticVectorBase', 'amc::vec::StdVectorBase', 'amc::vec::SmallVectorBase'):
            self.class_members(q, CLASS_MEMBERS[q], S4)
        self.vector_quantity('vectorMembers', 'layout', S4, 'the data members of `Vector<T, Alloc, SizeType, GrowingPolicy, N>`, base classes first', self.chain_members)
        tm = self.tmpl('amc::Vector')
        self.add(Def('vectorSA', [('N', 'Nat')], ('classof', ('call', 'vectorMembers', [('var', 'N', 'Nat')])), 'SA',
                     'size and alignment of `Vector<T, Alloc, SizeType, GrowingPolicy, N>`', where(tm.node), S4))
        self.alias_to_vector('SmallVector', 'vectorSA', 'smallVectorSA', S4, '`SmallVector<T, N, Alloc, SizeType>`')
        self.alias_to_vector('vector', 'vectorSA', 'stdVectorSA', S4, '`vector<T, Alloc, SizeType>`')
        self.alias_to_vector('FixedCapacityVector', 'vectorSA', 'fixedCapacityVectorSA', S4, '`FixedCapacityVector<T, N, GrowingPolicy, SizeType>`')
        S5 = 'triviality of the destructor (vectorcommon.hpp)'
        self.value_template('amc::vec::DefineDestructor', 'defineDestructor', 'layout', S5)
        self.value_template('amc::vec::DefineVectorDestructor', 'defineVectorDestructor', 'layout', S5)
        self.vector_quantity('vectorHasUserDestructor', 'layout', S5, 'some class of the hierarchy of `Vector<T, Alloc, SizeType, GrowingPolicy, N>` declares a destructor',
                             lambda ch: B(any(rec.user_dtor is not None for _, rec, _ in ch)))
        self.alias_to_vector('FixedCapacityVector', 'vectorHasUserDestructor', 'fixedCapacityVectorHasUserDestructor', S5,
                             '`FixedCapacityVector<T, N, GrowingPolicy, SizeType>`')


# ----------------------------------------------------------------------------------------------------------------------
# the translation units: the headers alone (patterns, dumped with the filter `amc::`), and the grid of probes (dumped with
# the filter `t2lgrid`: only the probes, whose aliases carry the values clang computed)
# ----------------------------------------------------------------------------------------------------------------------

HEADERS = r"""#include <amc/type_traits.hpp>
#include <amc/vector.hpp>
#include <amc/smallvector.hpp>
#include <amc/fixedcapacityvector.hpp>
#include <amc/flatset.hpp>
#ifdef AMC_SMALLSET
#include <amc/smallset.hpp>
#endif
"""

# element classes of the grid: (name, C++ definition)
ELEMS = [
    ('int', None),
    ('A', 'struct A { int v; };'),
    ('B', 'struct B { using trivially_relocatable = std::true_type; B(); B(const B&); B(B&&); B& operator=(const B&); B& operator=(B&&); ~B(); int v; };'),
    ('C', 'struct C { using trivially_relocatable = std::false_type; int v; };'),
    ('D', 'struct D { using trivially_relocatable = int; int v; };'),
    ('E', 'struct E { E(); E(const E&); E(E&&) noexcept; E& operator=(const E&); E& operator=(E&&) noexcept; ~E(); int v; };'),
    ('F', 'struct F { using trivially_relocatable = std::true_type; int v; };'),
    ('G', 'struct G { using trivially_relocatable = std::false_type; G(const G&); int v; };'),
    ('H', 'struct H { H(); H(const H&); H(H&&); H& operator=(const H&); H& operator=(H&&); ~H(); long v; };'),
    ('I', 'struct I { I(); I(const I&); I(I&&) noexcept; I& operator=(const I&); I& operator=(I&&); ~I(); short v; friend void swap(I&, I&) noexcept; };'),
    ('J', 'struct J { J(); J(const J&); J(J&&) noexcept; J& operator=(const J&); J& operator=(J&&) noexcept; ~J(); char v; friend void swap(J&, J&); };'),
    ('K', 'struct K { K(); K(const K&); K(K&&); K& operator=(const K&); K& operator=(K&&) noexcept; ~K(); int v; };'),
] + [('R<%d, %d>' % sa, None) for sa in ((1, 1), (2, 2), (3, 1), (4, 4), (5, 1), (6, 2), (8, 8), (8, 4), (9, 1), (12, 4), (16, 16), (16, 8), (24, 8), (32, 32))] \
  + [('NT<%d, %d>' % sa, None) for sa in ((1, 1), (3, 1), (8, 8), (9, 1), (16, 16), (24, 8))]
ELEM_INDEX = {n: i for i, (n, _) in enumerate(ELEMS)}
# other classes the trait is asked about (comparators, std::set)
OTHERS = ['std::less<A>', 'std::less<B>', 'std::less<E>', 'NTRLess<A>', 'TRLess<E>', 'std::set<A>', 'std::set<E, TRLess<E> >']
OTHER_INDEX = {n: i + 1000 for i, n in enumerate(OTHERS)}
SIZE_TYPES = {1: 'uint8_t', 2: 'uint16_t', 4: 'uint32_t', 8: 'uint64_t'}
# descriptions of types as the model's `Ty`: ('cls', name) | ('pair', a, b) | ('vector', elem, sS) | ('smallVector', elem, N, sS)
# | ('fixedCapacityVector', elem, N, sS, policy) | ('flatSet', elem, compare, vec) | ('smallSet', elem, N, compare, set)
PAIRS = [('pair', ('cls', 'A'), ('cls', 'B')), ('pair', ('cls', 'A'), ('cls', 'E')), ('pair', ('cls', 'C'), ('cls', 'A')),
         ('pair', ('cls', 'E'), ('cls', 'G')), ('pair', ('cls', 'F'), ('cls', 'int')),
         ('pair', ('pair', ('cls', 'A'), ('cls', 'B')), ('cls', 'B')), ('pair', ('cls', 'int'), ('pair', ('cls', 'B'), ('cls', 'D')))]
VEC_NS = [0, 1, 2, 3, 4, 5, 7, 8, 9, 16, 17, 40]


def vec_grid():
    out = []
    for name, _ in ELEMS:
        if name in ('C', 'D', 'F', 'G'):
            ns, sts = [0, 1, 3], [4]
        elif name in ('int', 'A', 'B', 'E', 'H', 'I', 'J', 'K'):
            ns, sts = [0, 1, 2, 3, 9], [1, 4]
        else:
            ns, sts = VEC_NS, [1, 2, 4, 8]
        for sS in sts:
            out.append(('vector', ('cls', name), sS))
            for n in ns:
                out.append(('smallVector', ('cls', name), n, sS))
                out.append(('fixedCapacityVector', ('cls', name), n, sS, 'Exception'))
            out.append(('fixedCapacityVector', ('cls', name), 3, sS, 'Unchecked'))
    return out


def set_grid(std):
    out = []
    for el, cmps in (('A', ['std::less<A>', 'NTRLess<A>']), ('E', ['std::less<E>', 'TRLess<E>'])):
        for cmp in cmps:
            vecs = [('vector', ('cls', el), 4), ('smallVector', ('cls', el), 5, 4), ('fixedCapacityVector', ('cls', el), 5, 1, 'Exception')]
            for v in vecs:
                out.append(('flatSet', ('cls', el), ('cls', cmp), v))
    if std in ('c++17', 'c++20'):
        out.append(('smallSet', ('cls', 'A'), 5, ('cls', 'std::less<A>'), ('cls', 'std::set<A>')))
        out.append(('smallSet', ('cls', 'E'), 5, ('cls', 'TRLess<E>'), ('cls', 'std::set<E, TRLess<E> >')))
        out.append(('smallSet', ('cls', 'A'), 5, ('cls', 'std::less<A>'), ('flatSet', ('cls', 'A'), ('cls', 'std::less<A>'), ('vector', ('cls', 'A'), 4))))
        out.append(('smallSet', ('cls', 'E'), 5, ('cls', 'std::less<E>'), ('flatSet', ('cls', 'E'), ('cls', 'std::less<E>'), ('vector', ('cls', 'E'), 4))))
        out.append(('smallSet', ('cls', 'A'), 5, ('cls', 'NTRLess<A>'), ('flatSet', ('cls', 'A'), ('cls', 'NTRLess<A>'), ('vector', ('cls', 'A'), 4))))
        out.append(('smallSet', ('cls', 'B'), 5, ('cls', 'std::less<B>'), ('flatSet', ('cls', 'B'), ('cls', 'std::less<B>'), ('smallVector', ('cls', 'B'), 5, 4))))
    return out


def cxx_of(ty):
    k = ty[0]
    if k == 'cls':
        return ty[1]
    if k == 'pair':
        return 'std::pair<%s, %s >' % (cxx_of(ty[1]), cxx_of(ty[2]))
    if k == 'vector':
        e = cxx_of(ty[1])
        return 'amc::vector<%s, amc::allocator<%s >, %s>' % (e, e, SIZE_TYPES[ty[2]])
    if k == 'smallVector':
        e = cxx_of(ty[1])
        return 'amc::SmallVector<%s, %d, amc::allocator<%s >, %s>' % (e, ty[2], e, SIZE_TYPES[ty[3]])
    if k == 'fixedCapacityVector':
        return 'amc::FixedCapacityVector<%s, %d, amc::vec::%sGrowingPolicy, %s>' % (cxx_of(ty[1]), ty[2], ty[4], SIZE_TYPES[ty[3]])
    if k == 'flatSet':
        e = cxx_of(ty[1])
        return 'amc::FlatSet<%s, %s, %s, %s >' % (e, cxx_of(ty[2]), 'amc::vec::EmptyAlloc' if ty[3][0] == 'fixedCapacityVector' else 'amc::allocator<%s >' % e,
                                                   cxx_of(ty[3]))
    if k == 'smallSet':
        e = cxx_of(ty[1])
        return 'amc::SmallSet<%s, %d, %s, %s, %s >' % (e, ty[2], cxx_of(ty[3]), 'amc::allocator<%s >' % e if ty[4][0] == 'flatSet' else 'std::allocator<%s >' % e,
                                                         cxx_of(ty[4]))
    raise Unsupported('internal: cxx_of %r' % (ty,))


GRID_HEAD = r"""#include <set>
#include <type_traits>
#include <utility>
#include <memory>
namespace t2lgrid {
template <long long...> struct Nums {};
%(elems)s
template <int S, int AL> struct alignas(AL) R { char c[S]; };
template <int S, int AL> struct alignas(AL) NT { using trivially_relocatable = std::true_type; NT(); NT(const NT&); NT(NT&&) noexcept; NT& operator=(const NT&); NT& operator=(NT&&) noexcept; ~NT(); char c[S]; };
bool operator<(const A&, const A&); bool operator<(const B&, const B&); bool operator<(const E&, const E&);
template <class T> struct NTRLess { NTRLess(); NTRLess(const NTRLess&); bool operator()(const T&, const T&) const; };
template <class T> struct TRLess { using trivially_relocatable = std::true_type; TRLess(); TRLess(const TRLess&); bool operator()(const T&, const T&) const; };
// inputs, computed independently of the headers under translation
template <class...> struct Voider { using type = void; };
template <class T, class = void> struct HasTR : std::false_type {};
template <class T> struct HasTR<T, typename Voider<typename T::trivially_relocatable>::type> : std::true_type {};
template <class T, bool> struct TRIsTrue : std::false_type {};
template <class T> struct TRIsTrue<T, true> : std::is_same<typename T::trivially_relocatable, std::true_type> {};
namespace swp { using std::swap; template <class T> struct NS { static constexpr bool value = noexcept(swap(std::declval<T&>(), std::declval<T&>())); }; }
template <class AL, class = void> struct HasRealloc : std::false_type {};
template <class AL> struct HasRealloc<AL, typename Voider<decltype(std::declval<AL>().reallocate(std::declval<typename AL::pointer>(),
    std::declval<typename AL::size_type>(), std::declval<typename AL::size_type>(), std::declval<typename AL::size_type>()))>::type> : std::true_type {};
template <class T, bool> struct ImplTrue { static constexpr int value = 2; };
template <class T> struct ImplTrue<T, true> { static constexpr int value = amc::typetraits_details::is_trivially_relocatable_impl<T, true>::value; };
// any class: facts = hasTypedef typedefIsTrue tc ; vals = has_trivially_relocatable impl<T,true> (2: ill-formed) impl<T,false> is_trivially_relocatable
template <int ID, class T> struct ProbeCls {
  using facts = Nums<HasTR<T>::value, TRIsTrue<T, HasTR<T>::value>::value, std::is_trivially_copyable<T>::value>;
  using vals = Nums<amc::typetraits_details::has_trivially_relocatable<T>::value, ImplTrue<T, HasTR<T>::value>::value,
                    amc::typetraits_details::is_trivially_relocatable_impl<T, false>::value, amc::is_trivially_relocatable<T>::value>;
};
// element type: facts = sizeof alignof nmc nma nsw td
template <int ID, class T> struct ProbeElem {
  using D = amc::vec::DynamicGrowingPolicy; using X = amc::vec::ExceptionGrowingPolicy;
  using facts = Nums<sizeof(T), alignof(T), std::is_nothrow_move_constructible<T>::value, std::is_nothrow_move_assignable<T>::value, swp::NS<T>::value,
                     std::is_trivially_destructible<T>::value>;
  using vals = Nums<amc::vec::is_swap_noexcept<T>::value, amc::vec::is_shift_nothrow<T>::value, amc::vec::is_move_construct_nothrow<T>::value,
                    amc::is_nothrow_swappable<T>::value, amc::vec::ElemWithPtrStorage<T>::kNbSlots,
                    sizeof(amc::vec::ElemStorage<T>), alignof(amc::vec::ElemStorage<T>), sizeof(amc::vec::ElemWithPtrStorage<T>), alignof(amc::vec::ElemWithPtrStorage<T>),
                    amc::vec::DefineDestructor<T, true>::value, amc::vec::DefineDestructor<T, false>::value,
                    amc::vec::DefineVectorDestructor<T, true, D>::value, amc::vec::DefineVectorDestructor<T, false, D>::value,
                    amc::vec::DefineVectorDestructor<T, true, X>::value, amc::vec::DefineVectorDestructor<T, false, X>::value>;
  using fns = Nums<noexcept(amc::vec::shift_right(std::declval<T*>(), 1U)), noexcept(amc::vec::shift_right(std::declval<T*>(), 1U, 1U)),
                   noexcept(amc::vec::shift_left(std::declval<T*>(), 1U)), noexcept(amc::vec::uninitialized_shift_left(std::declval<T*>(), 1U)),
                   noexcept(amc::vec::swap_deep(std::declval<T*>(), 1U, std::declval<T*>(), 1U))>;
};
template <int ID, class T, unsigned long long N> struct ProbeNIS {
  using vals = Nums<amc::vec::NoInlineStorage<T, amc::vec::DynamicGrowingPolicy, N>::value, amc::vec::NoInlineStorage<T, amc::vec::ExceptionGrowingPolicy, N>::value>;
};
template <int ID, unsigned long long N> struct ProbeN {
  using vals = Nums<sizeof(typename amc::vec::SmallestSizeType<N>::type)>;
};
template <int ID, class AL> struct ProbeAlloc {
  using facts = Nums<HasRealloc<AL>::value, std::is_empty<AL>::value>;
  using vals = Nums<amc::vec::CanReallocate<AL>::value>;
};
// protected members of the base classes, seen from a derived class
template <class V> struct Peek : V {
  using S = typename V::size_type;
  static constexpr bool mc() { return noexcept(std::declval<Peek&>().move_construct(std::declval<V&>(), S())); }
  static constexpr bool ma() { return noexcept(std::declval<Peek&>().move_assign(std::declval<V&>(), S())); }
  static constexpr bool sw() { return noexcept(std::declval<Peek&>().swap_impl(std::declval<V&>())); }
};
namespace adl { using std::swap; template <class V> struct FS { static constexpr bool value = noexcept(swap(std::declval<V&>(), std::declval<V&>())); }; }
// a vector: vals = typedef-is-true is_trivially_relocatable sizeof alignof is_trivially_destructible is_trivially_copyable
//                  noexcept: move ctor, move ctor with allocator, move assignment, member swap, free swap, base move_construct, move_assign, swap_impl
//                  is_empty<allocator_type>  alignof(size_type) == sizeof(size_type)
template <int ID, class V> struct ProbeVec {
  using AL = typename V::allocator_type;
  using vals = Nums<std::is_same<typename V::trivially_relocatable, std::true_type>::value, amc::is_trivially_relocatable<V>::value, sizeof(V), alignof(V),
                    std::is_trivially_destructible<V>::value, std::is_trivially_copyable<V>::value,
                    std::is_nothrow_move_constructible<V>::value, noexcept(V(std::declval<V&&>(), std::declval<const AL&>())),
                    std::is_nothrow_move_assignable<V>::value, noexcept(std::declval<V&>().swap(std::declval<V&>())), adl::FS<V>::value,
                    Peek<V>::mc(), Peek<V>::ma(), Peek<V>::sw(), std::is_empty<AL>::value, alignof(typename V::size_type) == sizeof(typename V::size_type)>;
};
// a set: vals = typedef-is-true is_trivially_relocatable is_trivially_copyable
template <int ID, class V> struct ProbeSet {
  using vals = Nums<std::is_same<typename V::trivially_relocatable, std::true_type>::value, amc::is_trivially_relocatable<V>::value, std::is_trivially_copyable<V>::value>;
};
template <int ID, class T> struct ProbeTy {
  using vals = Nums<amc::is_trivially_relocatable<T>::value>;
};
"""

NIS_NS = [0, 1, 2, 3, 4, 8, 9]
SST_NS = [0, 1, 255, 256, 65535, 65536, 4294967295, 4294967296]
ALLOCS = [('amc::allocator<A>', 'A'), ('amc::allocator<E>', 'E'), ('amc::allocator<B>', 'B'), ('std::allocator<A>', 'A'), ('std::allocator<E>', 'E')]


def make_grid_tu(std):
    out = [HEADERS, GRID_HEAD % {'elems': '\n'.join(d for _, d in ELEMS if d)}]
    for n, i in list(ELEM_INDEX.items()) + list(OTHER_INDEX.items()):
        out.append('template struct ProbeCls<%d, %s >;\n' % (i, n))
    for n, i in ELEM_INDEX.items():
        out.append('template struct ProbeElem<%d, %s >;\n' % (i, n))
        for k in NIS_NS:
            out.append('template struct ProbeNIS<%d, %s, %d>;\n' % (i * 100 + k, n, k))
    for i, k in enumerate(SST_NS):
        out.append('template struct ProbeN<%d, %dULL>;\n' % (i, k))
    for i, (al, _) in enumerate(ALLOCS):
        out.append('template struct ProbeAlloc<%d, %s >;\n' % (i, al))
    for i, ty in enumerate(PAIRS):
        out.append('template struct ProbeTy<%d, %s >;\n' % (i, cxx_of(ty)))
    for i, ty in enumerate(vec_grid()):
        out.append('template struct ProbeVec<%d, %s >;\n' % (i, cxx_of(ty)))
    for i, ty in enumerate(set_grid(std)):
        out.append('template struct ProbeSet<%d, %s >;\n' % (i, cxx_of(ty)))
    out.append('}\n')
    return ''.join(out)


def nums_of(node, loc):
    t = node['type'].get('desugaredQualType', node['type']['qualType'])
    m = re.fullmatch(r'(?:t2lgrid::)?Nums<(.*)>', t)
    if not m:
        raise Unsupported('%s: internal: probe alias has type %s' % (loc, t))
    out = []
    for x in m.group(1).split(','):
        x = x.strip()
        if x in ('true', 'false'):
            out.append(1 if x == 'true' else 0)
        elif re.fullmatch(r'-?\d+[UL]*', x):
            out.append(int(re.match(r'-?\d+', x).group(0)))
        else:
            raise Unsupported('%s: internal: probe alias has type %s' % (loc, t))
    return out


class Grid:
    """what clang computed for the probes of one language standard"""
    def __init__(self, objs):
        self.probes = {}
        st = LocState()
        for o in objs:
            annotate(o, st)
        for o in objs:
            self.collect(o)

    def collect(self, o):
        k = o.get('kind')
        if k in ('NamespaceDecl', 'ClassTemplateDecl'):
            for c in kids(o):
                self.collect(c)
        elif k == 'ClassTemplateSpecializationDecl' and o.get('name', '').startswith('Probe'):
            aliases = kids(o, 'TypeAliasDecl')
            targs = kids(o, 'TemplateArgument')
            if not aliases or not targs or 'value' not in targs[0]:
                return
            d = {}
            for c in aliases:
                if c['name'] in ('facts', 'vals', 'fns'):
                    d[c['name']] = nums_of(c, where(c))
            self.probes[(o['name'], targs[0]['value'])] = d

    def get(self, name, i):
        if (name, i) not in self.probes:
            raise Unsupported('internal: the probe %s<%d> was not instantiated' % (name, i))
        return self.probes[(name, i)]


class Coverage:
    """every condition of every generated definition must be seen true and false on the grid"""
    def __init__(self):
        self.seen = {}

    def note(self, dname, cond, val):
        self.seen.setdefault((dname, repr(cond)), set()).add(bool(val))


def ev_cov(e, env, defs, cov, dname):
    """`ev` recording the outcome of conditions"""
    k = e[0]
    if k == 'ite':
        c = ev_cov(e[1], env, defs, cov, dname)
        cov.note(dname, e[1], c)
        return ev_cov(e[2], env, defs, cov, dname) if c else ev_cov(e[3], env, defs, cov, dname)
    if k == 'call':
        d = defs[e[1]]
        env2 = dict(env)
        for (f, _), a in zip(d.formals, e[2]):
            env2[f] = ev_cov(a, env, defs, cov, dname)
        for p, a in (e[3] if len(e) > 3 else ()):
            env2[PARAM_ATOM[p]] = ev_cov(a, env, defs, cov, dname)
        return ev_cov(d.body, env2, defs, cov, d.name)
    if k in ('and', 'or'):
        a = ev_cov(e[1], env, defs, cov, dname)
        if (k == 'and') != bool(a):
            return a
        return ev_cov(e[2], env, defs, cov, dname)
    if k == 'not':
        return not ev_cov(e[1], env, defs, cov, dname)
    if k == 'cmp':
        a, b = ev_cov(e[2], env, defs, cov, dname), ev_cov(e[3], env, defs, cov, dname)
        return {'==': a == b, '!=': a != b, '<=': a <= b, '<': a < b, '>': a > b, '>=': a >= b}[e[1]]
    if k == 'arith':
        return ev(('arith', e[1], ('n', ev_cov(e[2], env, defs, cov, dname)), ('n', ev_cov(e[3], env, defs, cov, dname))), env, defs)
    if k == 'max':
        return max(ev_cov(e[1], env, defs, cov, dname), ev_cov(e[2], env, defs, cov, dname))
    if k == 'sa':
        return (ev_cov(e[1], env, defs, cov, dname), ev_cov(e[2], env, defs, cov, dname))
    if k == 'scalar':
        x = ev_cov(e[1], env, defs, cov, dname)
        return (x, x)
    if k == 'arr':
        n, (sz, al) = ev_cov(e[1], env, defs, cov, dname), ev_cov(e[2], env, defs, cov, dname)
        return (n * sz, al)
    if k == 'classof':
        return class_of(ev_cov(e[1], env, defs, cov, dname))
    if k == 'list':
        return [ev_cov(x, env, defs, cov, dname) for x in e[1]]
    if k == 'append':
        return ev_cov(e[1], env, defs, cov, dname) + ev_cov(e[2], env, defs, cov, dname)
    if k in ('size', 'align'):
        return ev_cov(e[1], env, defs, cov, dname)[0 if k == 'size' else 1]
    return ev(e, env, defs)


def all_conds(e, acc):
    if e[0] == 'ite':
        acc.append(e[1])
    for x in e[1:]:
        if isinstance(x, tuple):
            all_conds(x, acc)
        elif isinstance(x, list):
            for y in x:
                if isinstance(y, tuple):
                    all_conds(y, acc)
    return acc


class Checker:
    def __init__(self, std, b, grid):
        self.std, self.b, self.grid, self.defs = std, b, grid, b.defs
        self.cov = Coverage()
        self.atom_seen = {}
        self.n = 0
        self.std_env = {'cxx14': std != 'c++11', 'cxx17': std in ('c++17', 'c++20')}

    def expect(self, what, got, want):
        self.n += 1
        if isinstance(got, tuple):
            got, want = tuple(int(x) for x in got), tuple(int(x) for x in want)
        else:
            got, want = int(got), int(want)
        if got != want:
            raise Unsupported('GRID CHECK FAILED (-std=%s): %s: the generated definition gives %s, clang computed %s -- the symbolic '
                              'reading of the headers is wrong or incomplete' % (self.std, what, got, want))

    def run(self, dname, env):
        env = dict(self.std_env, **env)
        for k, v in env.items():
            if k in ATOMS:
                self.atom_seen.setdefault(k, set()).add(v if isinstance(v, bool) else 'n')
        if dname not in self.defs:
            raise Unsupported('internal: the definition %s was not generated under -std=%s' % (dname, self.std))
        return ev_cov(self.defs[dname].body, env, self.defs, self.cov, dname)

    def cls_env(self, name):
        i = ELEM_INDEX[name] if name in ELEM_INDEX else OTHER_INDEX[name] if name in OTHER_INDEX else None
        if i is None:
            raise Unsupported('internal: class %s is not in the grid' % name)
        f = self.grid.get('ProbeCls', i)['facts']
        return {'hasTypedef': bool(f[0]), 'typedefIsTrue': bool(f[1]), 'tc': bool(f[2])}

    def elem_env(self, name):
        f = self.grid.get('ProbeElem', ELEM_INDEX[name])['facts']
        return {'sT': f[0], 'aT': f[1], 'e.nmc': bool(f[2]), 'e.nma': bool(f[3]), 'e.nsw': bool(f[4]), 'td': bool(f[5]),
                'e.tr': bool(self.tr_of(('cls', name))), 'trT': bool(self.tr_of(('cls', name)))}

    def declared_tr(self, typedef_is_true):
        """the primary template applied to a class that declares the typedef (a container)"""
        return self.run('isTriviallyRelocatable', {'hasTypedef': True, 'typedefIsTrue': bool(typedef_is_true), 'tc': False})

    def typedef_of(self, ty):
        """the generated `trivially_relocatable` typedef of a container, as a Boolean"""
        k = ty[0]
        if k in ('vector', 'smallVector', 'fixedCapacityVector'):
            env = dict(self.elem_env(ty[1][1]))
            if k == 'vector':
                return self.run('stdVectorTriviallyRelocatable', env)
            return self.run('smallVectorTriviallyRelocatable' if k == 'smallVector' else 'fixedCapacityVectorTriviallyRelocatable', dict(env, N=ty[2]))
        if k == 'flatSet':
            return self.run('flatSetTriviallyRelocatable', {'trCompare': bool(self.tr_of(ty[2])), 'trVec': bool(self.tr_of(ty[3]))})
        if k == 'smallSet':
            vec = ('fixedCapacityVector', ty[1], ty[2], 1, 'Unchecked')
            return self.run('smallSetTriviallyRelocatable', {'trVec': bool(self.tr_of(vec)), 'trSet': bool(self.tr_of(ty[4]))})
        raise Unsupported('internal: typedef_of %r' % (ty,))

    def tr_of(self, ty):
        """the generated trait on a description of a type (the Python twin of `Gen.Traits.isTR`)"""
        if ty[0] == 'cls':
            return self.run('isTriviallyRelocatable', self.cls_env(ty[1]))
        if ty[0] == 'pair':
            return self.run('isTriviallyRelocatablePair', {'trT': bool(self.tr_of(ty[1])), 'trU': bool(self.tr_of(ty[2]))})
        return self.declared_tr(self.typedef_of(ty))

    def check_trait(self):
        for name in list(ELEM_INDEX) + list(OTHER_INDEX):
            env = self.cls_env(name)
            v = self.grid.get('ProbeCls', ELEM_INDEX.get(name, OTHER_INDEX.get(name)))['vals']
            self.expect('has_trivially_relocatable<%s>' % name, self.run('hasTriviallyRelocatable', env), v[0])
            if v[1] != 2:
                self.expect('is_trivially_relocatable_impl<%s, true>' % name, self.run('isTriviallyRelocatableImpl', dict(env, b1=True)), v[1])
            self.expect('is_trivially_relocatable_impl<%s, false>' % name, self.run('isTriviallyRelocatableImpl', dict(env, b1=False)), v[2])
            self.expect('is_trivially_relocatable<%s>' % name, self.run('isTriviallyRelocatable', env), v[3])
        for i, ty in enumerate(PAIRS):
            self.expect('is_trivially_relocatable<%s>' % cxx_of(ty), self.tr_of(ty), self.grid.get('ProbeTy', i)['vals'][0])

    def check_elems(self):
        for name, i in ELEM_INDEX.items():
            env = self.elem_env(name)
            p = self.grid.get('ProbeElem', i)
            v, f = p['vals'], p['fns']
            w = lambda s: '%s<%s>' % (s, name)
            self.expect(w('is_swap_noexcept'), self.run('isSwapNoexcept', env), v[0])
            self.expect(w('is_shift_nothrow'), self.run('isShiftNothrow', env), v[1])
            self.expect(w('is_move_construct_nothrow'), self.run('isMoveConstructNothrow', env), v[2])
            self.expect(w('amc::is_nothrow_swappable') + ' against noexcept(swap(a, b)) with `using std::swap`', env['e.nsw'], v[3])
            self.expect(w('ElemWithPtrStorage') + '::kNbSlots', self.run('kNbSlots', env), v[4])
            self.expect('sizeof/alignof ' + w('ElemStorage'), self.run('elemStorage', env), (v[5], v[6]))
            self.expect('sizeof/alignof ' + w('ElemWithPtrStorage'), self.run('elemWithPtrStorage', env), (v[7], v[8]))
            self.expect(w('DefineDestructor') + ' true', self.run('defineDestructor', dict(env, withInlineElements=True)), v[9])
            self.expect(w('DefineDestructor') + ' false', self.run('defineDestructor', dict(env, withInlineElements=False)), v[10])
            for j, (wie, dyn) in enumerate(((True, True), (False, True), (True, False), (False, False))):
                self.expect(w('DefineVectorDestructor') + ' %s %s' % (wie, dyn), self.run('defineVectorDestructor', dict(env, withInlineElements=wie, dyn=dyn)), v[11 + j])
            for j, dn in enumerate(('shiftRight2Noexcept', 'shiftRight3Noexcept', 'shiftLeftNoexcept', 'uninitializedShiftLeftNoexcept', 'swapDeepNoexcept')):
                self.expect('noexcept of %s for %s' % (dn, name), self.run(dn, env), f[j])
            for k in NIS_NS:
                nv = self.grid.get('ProbeNIS', i * 100 + k)['vals']
                self.expect('NoInlineStorage<%s, DynamicGrowingPolicy, %d>' % (name, k), self.run('noInlineStorage', dict(env, dyn=True, N=k)), nv[0])
                self.expect('NoInlineStorage<%s, ExceptionGrowingPolicy, %d>' % (name, k), self.run('noInlineStorage', dict(env, dyn=False, N=k)), nv[1])
        for i, k in enumerate(SST_NS):
            self.expect('sizeof SmallestSizeType<%d>::type' % k, self.run('smallestSizeType', {'N': k}), self.grid.get('ProbeN', i)['vals'][0])
        for i, (al, el) in enumerate(ALLOCS):
            p = self.grid.get('ProbeAlloc', i)
            self.expect('CanReallocate<%s>' % al, self.run('canReallocate', {'trValueType': bool(self.tr_of(('cls', el))), 'hasReallocate': bool(p['facts'][0])}), p['vals'][0])

    def check_vectors(self):
        for i, ty in enumerate(vec_grid()):
            v = self.grid.get('ProbeVec', i)['vals']
            name = cxx_of(ty)
            k = ty[0]
            dyn = k != 'fixedCapacityVector'
            N = 0 if k == 'vector' else ty[2]
            sS = ty[2] if k == 'vector' else ty[3]
            env = dict(self.elem_env(ty[1][1]), dyn=dyn, N=N, sS=sS)
            if not v[14] and dyn:
                raise Unsupported('internal: the allocator of %s is not an empty class (the layout model assumes the empty-base optimisation)' % name)
            if not v[15]:
                raise Unsupported('internal: the size type of %s is not aligned to its size' % name)
            self.expect('%s::trivially_relocatable is std::true_type' % name, self.typedef_of(ty), v[0])
            self.expect('Vector::trivially_relocatable of %s' % name, self.run('vectorTriviallyRelocatable', env), v[0])
            self.expect('is_trivially_relocatable<%s>' % name, self.tr_of(ty), v[1])
            self.expect('is_trivially_copyable<%s> (the trait is applied to containers with triviallyCopyable := false)' % name, False, v[5])
            sa = {'vector': 'stdVectorSA', 'smallVector': 'smallVectorSA', 'fixedCapacityVector': 'fixedCapacityVectorSA'}[k]
            self.expect('sizeof/alignof %s' % name, self.run(sa, env), (v[2], v[3]))
            self.expect('sizeof/alignof (Vector) %s' % name, self.run('vectorSA', env), (v[2], v[3]))
            self.expect('!is_trivially_destructible<%s>' % name, self.run('vectorHasUserDestructor', env), not v[4])
            if k == 'fixedCapacityVector':
                self.expect('!is_trivially_destructible<%s>' % name, self.run('fixedCapacityVectorHasUserDestructor', env), not v[4])
            for j, dn in ((6, 'vectorMoveCtorNoexcept'), (7, 'vectorMoveCtorAllocNoexcept'), (8, 'vectorMoveAssignNoexcept'), (9, 'vectorSwapNoexcept'),
                          (10, 'vectorFreeSwapNoexcept'), (11, 'vectorBaseMoveConstructNoexcept'), (12, 'vectorBaseMoveAssignNoexcept'),
                          (13, 'vectorBaseSwapImplNoexcept')):
                self.expect('%s of %s' % (dn, name), self.run(dn, env), v[j])

    def check_sets(self):
        for i, ty in enumerate(set_grid(self.std)):
            v = self.grid.get('ProbeSet', i)['vals']
            name = cxx_of(ty)
            self.expect('%s::trivially_relocatable is std::true_type' % name, self.typedef_of(ty), v[0])
            self.expect('is_trivially_relocatable<%s>' % name, self.tr_of(ty), v[1])
            self.expect('is_trivially_copyable<%s> (the trait is applied to containers with triviallyCopyable := false)' % name, False, v[2])

    def check(self):
        self.check_trait()
        self.check_elems()
        self.check_vectors()
        self.check_sets()

    def check_coverage(self):
        for name in self.b.order:
            d = self.defs[name]
            for c in all_conds(d.body, []):
                s = self.cov.seen.get((name, repr(c)), set())
                if s != {True, False}:
                    raise Unsupported('GRID CHECK INCOMPLETE (-std=%s): the condition `%s` of %s (%s) was %s on the grid' %
                                      (self.std, lean(c, self.defs), name, d.loc, 'never evaluated' if not s else 'only %s' % sorted(s)))
        for a in sorted(self.b.sym.used_atoms):
            if ATOMS[a][2] == 'Bool' and a not in ('cxx14', 'cxx17') and self.atom_seen.get(a, set()) != {True, False}:
                raise Unsupported('GRID CHECK INCOMPLETE (-std=%s): the input `%s` was not seen both true and false on the grid' % (self.std, a))


# ----------------------------------------------------------------------------------------------------------------------
# merging the language standards and rendering
# ----------------------------------------------------------------------------------------------------------------------

def merge(builders):
    """[(lean std, Builder)] -> (ordered names, name -> Def, name -> standards in which it exists)"""
    order, merged, exists = [], {}, {}
    for ls, b in builders:
        prev = None
        for n in b.order:
            if n not in order:
                order.insert(order.index(prev) + 1 if prev in order else len(order), n)
            prev = n
            exists.setdefault(n, []).append(ls)
    all_std = [ls for ls, _ in builders]
    for n in order:
        vs = [(ls, b.defs[n]) for ls, b in builders if n in b.defs]
        d0 = vs[0][1]
        for ls, d in vs:
            if d.formals != d0.formals or d.rtype != d0.rtype:
                raise Unsupported('%s: the signature of %s depends on the language standard' % (d.loc, n))
        groups = []
        for ls, d in vs:
            for g in groups:
                if g[1].body == d.body:
                    g[0].append(ls); break
            else:
                groups.append(([ls], d))
        if len(groups) == 1:
            merged[n] = d0
        elif len(groups) == 2 and exists[n] == all_std and groups[0][0] == ['cxx11'] and groups[1][0] == ['cxx14', 'cxx17', 'cxx20']:
            body = ('ite', ('var', 'cxx14', 'Bool'), groups[1][1].body, groups[0][1].body)
            merged[n] = Def(n, d0.formals, body, d0.rtype, d0.doc, groups[1][1].loc, d0.section)
            merged[n].arms = ('AMC_CXX14', groups[1][1].loc, groups[0][1].loc)
        elif len(groups) == 2 and exists[n] == all_std and groups[0][0] == ['cxx11', 'cxx14'] and groups[1][0] == ['cxx17', 'cxx20']:
            body = ('ite', ('var', 'cxx17', 'Bool'), groups[1][1].body, groups[0][1].body)
            merged[n] = Def(n, d0.formals, body, d0.rtype, d0.doc, groups[1][1].loc, d0.section)
            merged[n].arms = ('AMC_CXX17', groups[1][1].loc, groups[0][1].loc)
        else:
            raise Unsupported('%s: %s translates differently under the language standards %s: only an AMC_CXX14 or an AMC_CXX17 ladder is known' %
                              (d0.loc, n, ' / '.join('+'.join(g[0]) for g in groups)))
        if exists[n] != all_std:
            if exists[n] != all_std[-len(exists[n]):]:
                raise Unsupported('%s: %s exists under %s only' % (d0.loc, n, exists[n]))
    return order, merged, exists


HEADER = '''import AmcVerif.Model.Layout
/-! GENERATED by translator/traits2lean.py from include/amc/type_traits.hpp, vectorcommon.hpp, smallvector.hpp, vector.hpp,
fixedcapacityvector.hpp, flatset.hpp, smallset.hpp (clang++-14, -std=c++11/14/17/20) -- do not edit.

The static contract of the containers as functions of the trait inputs of `Model/Layout.lean`: every definition is the
symbolic value of a class template / member typedef / `noexcept` operand of the headers (named in its comment, with
file:line), with partial specialisations as case distinctions on the template arguments, `std::conditional` as
if-then-else and the `#if AMC_CXX14` ladders as `if cxx14`.  Every definition was evaluated on the translator's grid of
instantiations and predicts the value clang computed.  `Bridge/TraitsBridge.lean` proves the definitions equal to the
hand-written ones.

Inputs: `declared : Option Bool` -- `none`: the class has no member type `trivially_relocatable` (the SFINAE probe of
`has_trivially_relocatable` fails); `some b`: it has one and `b` = `std::is_same<T::trivially_relocatable, std::true_type>`;
`triviallyCopyable` = `std::is_trivially_copyable<T>`; `trT`, `trU`, ... = `amc::is_trivially_relocatable` of a part. -/
namespace AmcVerif.Gen.Traits
open AmcVerif.Layout
'''


WIDTH = 116


def wrap(text, width=112, ind='    '):
    words, lines, cur = text.split(' '), [], ''
    for w in words:
        if cur and len(cur) + 1 + len(w) > width:
            lines.append(cur); cur = ind + w
        else:
            cur = w if not cur else cur + ' ' + w
    lines.append(cur)
    return '\n'.join(lines)


def lean_block(e, defs, ind):
    """multi-line rendering of a definition body"""
    one = lean(e, defs)
    pad = ' ' * ind
    if len(one) + ind <= WIDTH or e[0] not in ('ite', 'append', 'classof'):
        return pad + one
    if e[0] == 'ite':
        out = []
        cur, first = e, True
        while cur[0] == 'ite':
            out.append('%s%sif %s then' % (pad, '' if first else 'else ', lean(cur[1], defs)))
            out.append(lean_block(cur[2], defs, ind + 2))
            cur, first = cur[3], False
        out.append(pad + 'else')
        out.append(lean_block(cur, defs, ind + 2))
        return '\n'.join(out)
    if e[0] == 'append':
        return lean_block_paren(e[1], defs, ind) + ' ++\n' + lean_block_paren(e[2], defs, ind)
    return pad + 'classOf (\n' + lean_block(e[1], defs, ind + 2) + ')'


def lean_block_paren(e, defs, ind):
    if e[0] in ('ite', 'append'):
        b = lean_block(e, defs, ind + 1)
        return ' ' * ind + '(' + b.lstrip() + ')'
    return lean_block(e, defs, ind)


ASSEMBLY = '''
/-! ## the trait on the model's descriptions of types -/

/-- `amc::is_trivially_relocatable<T>::value` for the types `Layout.Ty` describes: the `std::pair` specialisation for pairs,
the primary template otherwise -- applied to a container it finds the container's own `trivially_relocatable` typedef
(`declared := some <the typedef is std::true_type>`; no container is trivially copyable, and the value does not matter).
`sizeofOf` gives `sizeof` of an element type (`NoInlineStorage` looks at it), `N` is the inline capacity. -/
def isTR (cxx14 : Bool) (sizeofOf : Ty → Nat) : Ty → Bool
  | .cls declared triviallyCopyable => isTriviallyRelocatable declared triviallyCopyable
  | .pair a b => isTriviallyRelocatablePair (isTR cxx14 sizeofOf a) (isTR cxx14 sizeofOf b)
  | .vector e => isTriviallyRelocatable (some (stdVectorTriviallyRelocatable cxx14 (isTR cxx14 sizeofOf e) (sizeofOf e))) false
  | .smallVector e N =>
    isTriviallyRelocatable (some (smallVectorTriviallyRelocatable cxx14 (isTR cxx14 sizeofOf e) (sizeofOf e) N)) false
  | .fixedCapacityVector e N =>
    isTriviallyRelocatable (some (fixedCapacityVectorTriviallyRelocatable cxx14 (isTR cxx14 sizeofOf e) (sizeofOf e) N)) false
  | .flatSet c v => isTriviallyRelocatable (some (flatSetTriviallyRelocatable (isTR cxx14 sizeofOf c) (isTR cxx14 sizeofOf v))) false
  | .smallSet v s => isTriviallyRelocatable (some (smallSetTriviallyRelocatable (isTR cxx14 sizeofOf v) (isTR cxx14 sizeofOf s))) false
'''
ASSEMBLY_SIGS = {'isTriviallyRelocatable': ['declared', 'triviallyCopyable'], 'isTriviallyRelocatablePair': ['trT', 'trU'],
                 'stdVectorTriviallyRelocatable': ['cxx14', 'trT', 'sT'], 'smallVectorTriviallyRelocatable': ['cxx14', 'trT', 'sT', 'N'],
                 'fixedCapacityVectorTriviallyRelocatable': ['cxx14', 'trT', 'sT', 'N'], 'flatSetTriviallyRelocatable': ['trCompare', 'trVec'],
                 'smallSetTriviallyRelocatable': ['trVec', 'trSet']}


def render(order, defs, exists, all_std):
    out = [HEADER]
    section = None
    for n in order:
        d = defs[n]
        if d.section != section:
            section = d.section
            out.append('\n/-! ## %s -/\n' % section)
        doc = '%s (%s)' % (d.doc, d.loc)
        if hasattr(d, 'arms'):
            doc = '%s; `#ifdef %s` arm at %s, `#else` arm at %s' % (d.doc, d.arms[0], d.arms[1], d.arms[2])
        if exists[n] != all_std:
            doc += '; exists from %s on' % exists[n][0]
        params = ' '.join('(%s : %s)' % p for p in d.params(defs))
        out.append('\n/-- %s -/\n' % wrap(doc))
        out.append('def %s%s : %s :=\n%s\n' % (d.name, ' ' + params if params else '', d.rtype, lean_block(d.body, defs, 2)))
    # the assembly over `Layout.Ty` is fixed text: it is valid only for these signatures
    for n, sig in ASSEMBLY_SIGS.items():
        if n not in defs or [p for p, _ in defs[n].params(defs)] != sig:
            raise Unsupported('%s: the parameters of %s are %s: the assembly `isTR` over Layout.Ty expects %s' %
                              (defs[n].loc if n in defs else 'include/amc', n, [p for p, _ in defs[n].params(defs)] if n in defs else 'missing', sig))
    out.append(ASSEMBLY)
    out.append('\nend AmcVerif.Gen.Traits\n')
    return ''.join(out)


def main():
    global INCLUDE_ROOT
    ap = argparse.ArgumentParser()
    ap.add_argument('--include', required=True)
    ap.add_argument('--out', required=True)
    ap.add_argument('--keep', help='directory in which to keep the translation unit')
    a = ap.parse_args()
    INCLUDE_ROOT = os.path.abspath(a.include)
    try:
        with tempfile.TemporaryDirectory() as wd:
            wd = a.keep or wd
            os.makedirs(wd, exist_ok=True)
            src = os.path.join(wd, 'traits_tu.cpp')
            with open(src, 'w') as f:
                f.write(HEADERS)
            builders, nchecks = [], 0
            for ls, std in STDS:
                try:
                    db = DB(std, clang_dump(INCLUDE_ROOT, src, std))
                    b = Builder(db)
                    b.build()
                    gsrc = os.path.join(wd, 'traits_grid_%s.cpp' % ls)
                    with open(gsrc, 'w') as f:
                        f.write(make_grid_tu(std))
                    c = Checker(std, b, Grid(clang_dump(INCLUDE_ROOT, gsrc, std, flt='t2lgrid')))
                    c.check()
                    if not os.environ.get('T2L_NOCOV'):
                        c.check_coverage()
                    nchecks += c.n
                except Unsupported as e:
                    raise Unsupported('-std=%s: %s' % (std, e))
                builders.append((ls, b))
            order, defs, exists = merge(builders)
            text = render(order, defs, exists, [ls for ls, _ in STDS])
    except Unsupported as e:
        sys.stderr.write('traits2lean: UNSUPPORTED: %s\n' % e)
        sys.exit(2)
    with open(a.out, 'w') as f:
        f.write(text)
    sys.stderr.write('traits2lean: %d definitions, %d grid comparisons with clang under %d standards, written to %s\n' %
                     (len(order), nchecks, len(STDS), a.out))


if __name__ == '__main__':
    main()
