#!/usr/bin/env python3
"""smallset2lean -- regenerates, from the *current* include/amc/smallset.hpp, Lean 4 definitions of the decision logic of
amc::SmallSet (isSmall, isSmallContFull, grow, find_small, mfind_small, insert_small, insert_set, insert, emplace, find,
contains, count, erase(key), erase(position), clear, size, empty, merge) and of its FindFunctor.

Same method as flatset2lean.py, whose symbolic executor is reused (class Translator is extended): clang++-14 dumps the
typed JSON AST of an explicit instantiation, each selected member body is executed symbolically with path splitting.
The class is instantiated TWICE, with `SetType = amc::FlatSet<int>` (iterators are plain pointers) and with
`SetType = std::set<int>` (iterators are `SmallSetIterator` variants), with two different values of N; both instantiations
have to produce the same text, otherwise the translation is refused.

Abstract domain:

  the object                 a pair of Lean lists: `_vec` (inline vector, insertion order) and `_set` (backing set, comparator
                             order); initially the fields `s.vec` / `s.set` of the parameter `s : Sets.SSet α`
  the template parameter N   the Lean parameter `N : Nat` (`SubstNonTypeTemplateParmExpr` of `N`)
  an iterator                an index tagged by the container it points into: `_vec` iterator / `_set` iterator.  A SmallSet
                             `iterator` (pointer or variant) holds one of the two; where one is returned it is the Lean pair
                             `(small?, index)`, where one is received (`erase(pos)`) using it as an iterator of the other
                             container is undefined behaviour (`none`): `std::get` on the wrong alternative / foreign pointer
  `_set.empty()`             `set.isEmpty`        (this is how the source decides `isSmall()`)
  `_vec.size() == N`         `vec.length = N`
  `std::find_if(f, l, FindFunctor<K>(key_comp(), k))`   `Sets.findSmall lt vec k 0` (hand-written model of the scan with the
                             functor: (index option, comparator calls)); the iterator is `r.1.getD l`, i.e. `l` when absent.
                             On a sub-range the list is `(vec.take l).drop f` and the start index `f`.
  `FindFunctor::operator()`  generated on its own (`FindFunctor_call`), so that the scan model is tied to the functor
  `_vec.push_back(v)`, `emplace_back(v)`   vec := vec ++ [v]   (emplace_back returns a reference to the new last element)
  `_vec.pop_back()`          vec := vec.dropLast, undefined behaviour on an empty vector
  `_vec.erase(it)`           vec := vec.eraseIdx it, returns it; undefined behaviour unless it < vec.length
  `_vec.clear()`             vec := []
  `_set.insert(v)`, `_set.emplace(v)`   `FS.insertVal lt set v` : (list, index, inserted)
  `_set.insert(move_iterator(f), move_iterator(l))`     set := `Sets.insertAll lt set vec` (sub-range: take/drop as above)
  `_set.find(k)`             `(Sets.findC lt set k).1.getD set.length`
  `_set.count(k)`            `(Sets.findC lt set k).1.isSome` (an integer that is 0 or 1)
  `_set.erase(k)`            `Sets.eraseKey lt set k` : (list, number erased, calls)
  `_set.erase(it)`           set := set.eraseIdx it, returns it; undefined behaviour unless it < set.length
  `_set.clear()`             set := []
  `_set.merge(o._set)`       `Sets.mergeFrom lt set o.set` : (set, what stays in o)
  comparator calls           only the calls made by SmallSet's own code (the inline scan) are counted; calls made inside the
                             backing set (a template parameter) are not
  merge(o)                   the loop `for (auto oit = o._vec.begin(); oit != o._vec.end();) BODY` where every path of BODY
                             ends with exactly one of `oit = o._vec.erase(oit)` / `++oit` and uses `oit` only as `*oit` is a
                             fold over the elements of `o._vec`: BODY becomes `merge_step` (state, local flags, element) ->
                             (state, local flags, erased?) and the loop `Sets`-independent combinator `foldStep` emitted in the
                             prelude of the generated file.  Any other loop is refused.

Every generated function has the type `… → Option (Sets.SSet α × R × Nat)` (const members: `Option (R × Nat)`): `none` =
undefined behaviour reached, otherwise (final state, returned value, comparator calls of the inline scans).

Task T8 adds: range insertion (`insert(first, last)` with its `while (isSmall() && first != last)` loop = `whileFuel
insert_range_step (vs.length + 1)`, `insert(initializer_list)`, `operator=(initializer_list)`, the range / initializer-list
constructors), `erase(first, last)`, `swap`, `insert(hint, value)`, `extract(key / position)`, `insert(node_type&&)`,
`insert(hint, node_type&&)` (node handle = `Option α`; `_set.extract(…)` / hinted `_set.insert(hint, v)` of the backing set =
its hand-written list model), and the comparison operators: `_set == / < o._set` = `vecEq eqT` / `vecLess ltT`,
`std::is_permutation` = `isPermutation eqT`, `ComputeSortedPtrVec` (inlined: `std::transform` taking addresses into a pointer
vector = the list of the pointees, `std::sort` with a lambda = `sortedBy (<member>_pred <comparator>)`, the lambda being executed
symbolically.  Two shapes of `ComputeSortedPtrVec` are known: `(c, comp)` where the lambda captures the comparator object `comp`
handed over by the caller -- `key_comp()` = `_set.key_comp()` = the stored comparator `lt`; `o.key_comp()` = the comparator
stored in the other set: `lt_o`, a parameter of its own, in the CONST members on two sets (`operator==`, `!=`, `<`, `<=`, `>`,
`>=`: `def op_… (lt) (N) (s) (lt_o) (o) …`, so that the text says which comparator object orders which side; `o < *this` reads
`op_lt lt_o N o lt s …`), and the same `lt` in `swap` / `merge` (the state `Sets.SSet` has no comparator component); its owner
is remembered: sorting the inline elements of one set with the comparator object of the OTHER set is refused -- and the
historical `(c)` where the lambda calls a
DEFAULT-CONSTRUCTED comparator `Compare()`, which becomes the extra parameter `lt_default` of the relational operators),
`std::lexicographical_compare` with the local
functor `Comp` (exactly the three overloads on pointer/reference, each checked to be `<` of the element type) = `vecLess ltT`;
`std::equal(f1, l1, f2, Eq())` (three-iterator form, `Eq` a local struct with the same three overloads, each `==` of the element
type) = `vecEq eqT l1 (l2.take l1.length)`, undefined behaviour unless `l1.length ≤ l2.length`.  A member that exists with a
different body in the two instantiations (it calls `ToVecIt` / `ToSetIt`, which have one overload per iterator kind) is generated
once per instantiation (`…_ptr`, `…_var`).

Heterogeneous lookups (T9): the template members `find / contains / count (const K &)`, which exist only for a TRANSPARENT
comparator, with the private `find_small<K>` and `FindFunctor<K>`, are translated by the subclass `HetTranslator` from two more
instantiations, `amc::SmallSet<int, N, TLess, …, amc::FlatSet<int, TLess>>` and `…, std::set<int, TLess>>` with K = `HetKey`
(`TLess` / `HetKey` as in flatset2lean.py: exactly the three call operators (int, int), (int, const HetKey &),
(const HetKey &, int)), into `FindFunctor_call_het`, `find_small_het`, `find_het`, `contains_het`, `count_het` with the parameters
`(lt : α → α → Bool) (ltEK : α → κ → Bool) (ltKE : κ → α → Bool) (N : Nat) (s : Sets.SSet α) (k : κ)`:

  `_comp(a, b)` in the functor   WHICH of the three overloads is called is read from the AST (as in flatset2lean.py): `lt`, `ltEK`, `ltKE`
  `std::find_if(f, l, FindFunctor<K>(key_comp(), k))`    `Sets.findSmallHet ltEK ltKE vec k 0` (hand-written scan, tied to the generated functor)
  `std::count_if(f, l, FindFunctor<K>(key_comp(), k))`   `(Sets.countSmallHet ltEK ltKE vec k)` : (count, comparator calls)
  `_set.find(k)` / `_set.count(k)` with a key of another type   `Sets.findHetIdx ltEK ltKE set k` / `Sets.countHet ltEK ltKE set k`
                             (the backing set is a template parameter: its specification)
  `isSmall()`                inlined (`s.set.isEmpty`)

The translator refuses (exit status 2, message naming the construct and its source line) anything outside this subset.
"""
import argparse, hashlib, json, os, re, sys, tempfile

sys.path.insert(0, os.path.dirname(os.path.abspath(__file__)))
import flatset2lean as F
from flatset2lean import (Unsupported, clang_dump, annotate_lines, qual, line_of, kids, has_body, body_of, params_of,
                          Ite, MatchIdx, Bind, Let, Leaf, UB, MatchOpt, atom, peel, leaves)

HEADER = os.path.join('amc', 'smallset.hpp')


def where(n):
    return f"smallset.hpp:{line_of(n)}" if line_of(n) else 'smallset.hpp:?'


F.where = where          # the inherited methods of F.Translator report positions in smallset.hpp


def inst_source(set_type, n):
    ss = f'amc::SmallSet<int, {n}, std::less<int>, amc::allocator<int>, {set_type}>'
    return f'''#include <amc/smallset.hpp>
#include <amc/flatset.hpp>
using SS = {ss};
template class {ss};
template std::pair<SS::iterator, bool> SS::emplace<const int &>(const int &);
template SS::iterator SS::erase<SS::const_iterator>(SS::const_iterator, void *);
template SS::iterator SS::erase<SS::const_iterator>(SS::const_iterator, SS::const_iterator, void *);
template void SS::merge<{n}, std::less<int>, {set_type}>(SS &);
template void SS::insert<const int *>(const int *, const int *);
template SS::SmallSet(const int *, const int *, const std::less<int> &, const amc::allocator<int> &);
'''


INSTANTIATIONS = [
    ('amc::FlatSet<int>', 'amc::FlatSet<int, std::less<int>, amc::allocator<int>>', 5),
    ('std::set<int>', 'std::set<int, std::less<int>, amc::allocator<int>>', 7),
]

# (C++ member name, parameter kinds, Lean name[, index of the only instantiation that has it]).  Parameter kinds: 'cref' = const T&, 'rref' = T&&, 'iter' = a SmallSet
# iterator, 'ignored' = the enable_if dummy, 'other' = the other SmallSet of merge.
# The order of this table is the order of the generated definitions (callees first).
TARGETS = [
    ('isSmall', (), 'isSmall'),
    ('isSmallContFull', (), 'isSmallContFull'),
    ('grow', (), 'grow'),
    ('find_small', ('cref',), 'find_small'),
    ('mfind_small', ('cref',), 'mfind_small'),
    ('insert_small', ('cref',), 'insert_small'),
    ('insert_small', ('rref',), 'insert_small_rv'),
    ('insert_set', ('cref',), 'insert_set'),
    ('insert_set', ('rref',), 'insert_set_rv'),
    ('insert', ('cref',), 'insert'),
    ('insert', ('rref',), 'insert_rv'),
    ('emplace', ('cref',), 'emplace'),
    ('find', ('cref',), 'find'),
    ('contains', ('cref',), 'contains'),
    ('count', ('cref',), 'count'),
    ('erase', ('cref',), 'erase'),
]
TARGETS_P2 = [
    ('erase', ('iter', 'ignored'), 'erase_at_ptr', 0),    # the overload for pointer iterators: only in instantiation 0
    ('erase', ('iter', 'ignored'), 'erase_at_var', 1),    # the overload for variant iterators: only in instantiation 1
    ('clear', (), 'clear'),
    ('size', (), 'size'),
    ('empty', (), 'empty'),
    ('merge', ('other',), 'merge'),
]
# Task T8
TARGETS_P4 = [
    ('insert', ('range', 'range'), 'insert_range'),
    ('insert', ('ilist',), 'insert_ilist'),
    ('operator=', ('ilist',), 'assign_ilist'),
    ('SmallSet', ('range', 'range', 'comp', 'alloc'), 'ctor_range'),
    ('SmallSet', ('ilist', 'comp', 'alloc'), 'ctor_ilist'),
    ('erase', ('iter', 'iter', 'ignored'), 'erase_range_ptr', 0),
    ('erase', ('iter', 'iter', 'ignored'), 'erase_range_var', 1),
    ('swap', ('other',), 'swap'),
    ('insert', ('iter', 'cref'), 'insert_at_ptr', 0),     # insert(hint, v): ToSetIt(hint) is one of two overloads
    ('insert', ('iter', 'cref'), 'insert_at_var', 1),
    ('insert', ('iter', 'rref'), 'insert_at_rv_ptr', 0),
    ('insert', ('iter', 'rref'), 'insert_at_rv_var', 1),
    ('extract', ('cref',), 'extract'),
    ('extract', ('iter',), 'extract_at_ptr', 0),
    ('extract', ('iter',), 'extract_at_var', 1),
    ('insert', ('node',), 'insert_node'),
    ('insert', ('iter', 'node'), 'insert_node_at_ptr', 0),
    ('insert', ('iter', 'node'), 'insert_node_at_var', 1),
]
TARGETS_P5 = [
    ('operator==', ('other',), 'op_eq'),
    ('operator!=', ('other',), 'op_ne'),
    ('operator<', ('other',), 'op_lt'),
    ('operator<=', ('other',), 'op_le'),
    ('operator>', ('other',), 'op_gt'),
    ('operator>=', ('other',), 'op_ge'),
]
if os.environ.get('SMALLSET2LEAN_P2', '1') == '1':
    TARGETS = TARGETS + TARGETS_P2
LEVEL = int(os.environ.get('SMALLSET2LEAN_LEVEL', '5'))
if LEVEL >= 4:
    TARGETS = TARGETS + TARGETS_P4
if LEVEL >= 5:
    TARGETS = TARGETS + TARGETS_P5

RESERVED = {'s', 'o', 'lt', 'N', 'α', 'some', 'none', 'if', 'then', 'else', 'match', 'with', 'let', 'fun', 'def', 'true',
            'false', 'st', 'fl', 'x', 'at', 'from', 'end', 'in', 'do', 'vs', 'lt_o'}


def dq(n):
    """desugared type of a node"""
    t = n.get('type', {})
    return t.get('desugaredQualType', t.get('qualType', ''))


def strip_cvref(t):
    t = t.strip()
    for suf in (' &&', ' &'):
        if t.endswith(suf):
            t = t[:-len(suf)]
    if t.startswith('const '):
        t = t[6:]
    return t.strip()


# ---------------------------------------------------------------------------------------------------------------------
# symbolic values (in addition to those of flatset2lean)
#   ('vit', term)        iterator into `_vec` of *this (index)
#   ('sit', term)        iterator into `_set` of *this (index)
#   ('pit', b, term)     SmallSet iterator received as a parameter: (small? : Bool term, index term)
#   ('lref', term)       reference to the element of `_vec` at the index
#   ('ff', term)         FindFunctor built on the element value `term`
#   ('vec',) ('set',)    the two members of *this;  ('ovec',) ('oset',) those of the other set (merge)
#   ('other',)           the other set (merge)
#   ('cursor',)          the loop iterator of merge;  ('cur_erase',) ('cur_next',) its two admissible successors
# ---------------------------------------------------------------------------------------------------------------------

class Path(F.Path):
    def __init__(self):
        super().__init__()
        self.vec = 's.vec'
        self.set = 's.set'
        self.ovec = None          # merge only: `_vec` / `_set` of the other set
        self.oset = None
        self.cursor = None        # merge_step only: None (untouched) | 'erase' | 'next'
        self.memo = {}            # const member calls already bound on this path: call text -> variable


def arg(t):
    """a Lean term in argument position"""
    t = t.strip()
    if t.startswith('⟨') and t.endswith('⟩') and t.count('⟨') == 1:
        return t
    return atom(t)


def state_term(vec, st):
    if vec.endswith('.vec') and st.endswith('.set') and vec[:-4] == st[:-4]:
        return vec[:-4]
    return f'⟨{vec}, {st}⟩'


class Translator(F.Translator):
    ITER_KINDS = ('vit', 'sit', 'pit')
    memo_const = False
    FUNCTOR_ARG = 'int'                       # the template argument of the FindFunctor that is translated
    SELF_PARAMS = '(lt : α → α → Bool) (N : Nat)'     # the leading parameters of every generated member function
    SELF_ARGS = ['lt', 'N']

    def target_table(self):
        return TARGETS

    def __init__(self, spec, inst):
        self.spec = spec
        self.inst = inst
        self.my_targets = [t for t in self.target_table() if len(t) == 3 or t[3] == inst]
        self.by_id = {}
        self.targets = {}
        self.sigs = {}
        self.param_names = set()
        self.mode = 'member'      # 'member' | 'functor' | 'step' | 'range_step'
        self.aux_defs, self.aux_names, self.extras = [], [], []
        self.aux_text = {}
        self.other_ids = {}
        self.irt_fields = None
        self.local_structs = {}
        self.extras_of = {}
        self.other_lt = 'lt'      # how the comparator object of the other set reads in the member being translated
        self.two_const = set()    # generated const members on two sets: they take `lt_o`, the comparator object of the other set
        if spec.get('bases'):
            raise Unsupported(f'SmallSet is expected to have no base class, found {len(spec["bases"])}')
        fields = [(m.get('name'), line_of(m)) for m in kids(spec) if m.get('kind') == 'FieldDecl']
        if [f[0] for f in fields] != ['_vec', '_set']:
            raise Unsupported(f'smallset.hpp: the data members of SmallSet are expected to be exactly `_vec`, `_set`; found '
                              + ', '.join(f'`{nm}` (line {ln})' for nm, ln in fields) + ' (the model has no such state)')
        for m in kids(spec):
            if m.get('kind') in ('CXXMethodDecl', 'CXXConstructorDecl'):
                self.by_id[m['id']] = m
            elif m.get('kind') == 'FunctionTemplateDecl':
                for c in kids(m):
                    if c.get('kind') in ('CXXMethodDecl', 'CXXConstructorDecl'):
                        self.by_id[c['id']] = c
            elif m.get('kind') == 'CXXRecordDecl' and m.get('name') == 'insert_return_type':
                self.irt_fields = [c.get('name') for c in kids(m) if c.get('kind') == 'FieldDecl']
        for nm, pkinds, lean in (t[:3] for t in self.my_targets):
            found = [m for m in self.by_id.values()
                     if m.get('name') == nm and has_body(m) and self.sel_kinds(m) == pkinds
                     and (m.get('kind') == 'CXXConstructorDecl') == (nm == 'SmallSet')]
            if len(found) != 1:
                raise Unsupported(f'member SmallSet::{nm}({", ".join(pkinds)}) with a body: expected exactly one, found '
                                  f'{len(found)} (changed set of members)')
            if not str(found[0].get('_file')).endswith(HEADER):
                raise Unsupported(f'member SmallSet::{nm} is defined in {found[0].get("_file")}, not in amc/smallset.hpp')
            self.targets[found[0]['id']] = lean
        # the functor of the inline scan
        ff = [c for m in kids(spec) if m.get('kind') == 'ClassTemplateDecl' and m.get('name') == 'FindFunctor'
              for c in kids(m) if c.get('kind') == 'ClassTemplateSpecializationDecl' and c.get('inner')]
        ff = [c for c in ff if any(a.get('kind') == 'TemplateArgument' and qual(a) == self.FUNCTOR_ARG for a in kids(c))]
        if len(ff) != 1:
            raise Unsupported(f'smallset.hpp: expected exactly one instantiated FindFunctor<{self.FUNCTOR_ARG}>, found {len(ff)}')
        self.functor = ff[0]
        ffields = [m.get('name') for m in kids(self.functor) if m.get('kind') == 'FieldDecl']
        if ffields != ['_comp', '_k']:
            raise Unsupported(f'{where(self.functor)}: the data members of FindFunctor are expected to be `_comp`, `_k`; found {ffields}')
        calls = [m for m in kids(self.functor) if m.get('kind') == 'CXXMethodDecl' and m.get('name') == 'operator()' and has_body(m)]
        if len(calls) != 1:
            raise Unsupported(f'{where(self.functor)}: FindFunctor is expected to have exactly one operator(), found {len(calls)}')
        self.functor_call = calls[0]

    # ---- kinds of C++ types -----------------------------------------------------------------------------------------
    def sel_kinds(self, m):
        out = []
        for p in params_of(m):
            t = dq(p)
            if qual(p) == 'const int *':
                out.append('range')                       # one end of an input range (InputIt = const int *)
            elif t == 'std::initializer_list<int>':
                out.append('ilist')
            elif t == 'const std::less<int> &':
                out.append('comp')
            elif t == 'const amc::BasicAllocatorWrapper<int, amc::SimpleAllocator> &':
                out.append('alloc')
            elif re.fullmatch(r'amc::SmallSet<int, .*>::node_type &&', t):
                out.append('node')
            elif t == 'const int &' or re.fullmatch(r'const amc::SmallSet<int, .*>::key_type &', t):
                out.append('cref')
            elif t == 'int &&':
                out.append('rref')
            elif t in ('const int *',) or t.startswith('amc::SmallSetIterator<int,'):
                out.append('iter')
            elif 'enable_if' in qual(p) and not p.get('name'):
                out.append('ignored')
            elif strip_cvref(t).startswith(('amc::SmallSet<int,', 'SmallSet<int,')) and t.endswith(' &') and not t.endswith('_type &'):
                out.append('other')
            else:
                out.append('?' + t)
        return tuple(out)

    def type_kind(self, ty, n):
        """kind of the (desugared) type of node n; `ty` is only used when n has no type of that spelling"""
        if isinstance(n, dict) and qual(n) == ty:
            ty = dq(n)
        t = strip_cvref(ty)
        if t == 'int' or re.fullmatch(r'amc::SmallSet<int, .*>::key_type', t):
            return 'elem'
        if t in ('int *', 'const int *', 'int *const', 'const int *const'):
            return 'ptr'
        if t.startswith('amc::SmallSetIterator<int,'):
            return 'ssit'
        if t == 'std::_Rb_tree_const_iterator<int>':
            return 'sit'
        if t in ('unsigned char', 'unsigned short', 'unsigned int', 'unsigned long'):
            return 'n'
        if t == 'bool':
            return 'b'
        if t == 'void':
            return 'void'
        m = re.fullmatch(r'std::pair<(.*), bool>', t)
        if m:
            return ('pair', self.type_kind(m.group(1), None), 'b')
        if t.endswith('::FindFunctor<int>'):
            return 'ff'
        if re.fullmatch(r'amc::SmallSet<int, .*>::node_type', t):
            return 'node'
        if re.fullmatch(r'amc::SmallSet<int, .*>::insert_return_type', t):
            return 'irt'
        if t in ('amc::FlatSet<int>::node_type',) or t.startswith('std::_Node_handle<int, int,'):
            return 'snode'                                  # the node handle type of the backing set
        if t == 'std::optional<int>':
            return 'opt'
        if t == 'amc::BasicAllocatorWrapper<int, amc::SimpleAllocator>':
            return 'alloc'
        if t == 'std::less<int>':
            return 'comp'
        if re.fullmatch(r'amc::(FixedCapacityVector|Vector)<const int \*, .*>', t, re.S) or re.fullmatch(r'amc::SmallSet<int, .*>::PtrVec', t):
            return 'ptrvec'                                  # a vector of pointers to elements: the list of the pointees
        if t in self.local_structs:
            return 'cmpobj'
        raise Unsupported(f'{where(n) if isinstance(n, dict) else "smallset.hpp:?"}: type `{ty}` is outside the translated subset')

    def lean_type(self, kind):
        if isinstance(kind, tuple):
            return f'{atom(self.lean_type(kind[1]))} × {self.lean_type(kind[2])}'
        return {'vit': 'Nat', 'ssit': 'Bool × Nat', 'n': 'Nat', 'b': 'Bool', 'elem': 'α', 'void': 'Unit', 'self': 'Unit',
                'node': 'Option α', 'irt': '(Bool × Nat) × Bool × Option α'}[kind]

    @staticmethod
    def ret_text(m):
        ty = qual(m)
        d = 0
        for i, ch in enumerate(ty):
            if ch == '<':
                d += 1
            elif ch == '>':
                d -= 1
            elif ch == '(' and d == 0:
                return ty[:i].strip()
        raise Unsupported(f'{where(m)}: cannot read the return type of `{ty}`')

    def ret_kind(self, m):
        """the kind of the returned value, from the *spelling* of the return type (which does not depend on SetType)"""
        if m.get('kind') == 'CXXConstructorDecl':
            return 'void'
        t = self.ret_text(m)
        if re.fullmatch(r'amc::SmallSet<int, .*> &', t):
            return 'self'
        if t == 'void':
            return 'void'
        if t == 'bool':
            return 'b'
        if t == 'std::pair<iterator, bool>':
            return ('pair', 'ssit', 'b')
        if t == 'typename VecType::const_iterator':
            return 'vit'
        if t.startswith('amc::SmallSet<int,'):
            if t.endswith('>::miterator'):
                return 'vit'
            if t.endswith('>::iterator') or t.endswith('>::const_iterator'):
                return 'ssit'
            if t.endswith('>::size_type'):
                return 'n'
            if t.endswith('>::key_compare'):
                return 'comp'
            if t.endswith('>::node_type'):
                return 'node'
            if t.endswith('>::insert_return_type'):
                return 'irt'
        raise Unsupported(f'{where(m)}: return type `{t}` of `{m.get("name")}` is outside the translated subset')

    # ---- helpers ----------------------------------------------------------------------------------------------------
    def to_term(self, v, kind, n):
        if kind == 'ssit':
            if v[0] == 'vit':
                return f'(true, {v[1]})'
            if v[0] == 'sit':
                return f'(false, {v[1]})'
            if v[0] == 'pit':
                return f'({v[1]}, {v[2]})'
            raise Unsupported(f'{where(n)}: a SmallSet iterator was expected, found {v[0]}')
        if kind == 'vit':
            if v[0] == 'vit':
                return v[1]
            raise Unsupported(f'{where(n)}: an iterator of the inline vector was expected, found {v[0]}')
        if isinstance(kind, tuple):
            if v[0] != 'pair':
                raise Unsupported(f'{where(n)}: a pair was expected, found {v[0]}')
            return f'({self.to_term(v[1], kind[1], n)}, {self.to_term(v[2], kind[2], n)})'
        if kind in ('n', 'b', 'elem', 'void', 'self', 'node'):
            return super().to_term(v, kind, n)
        if kind == 'irt':
            if v[0] == 'rec' and self.irt_fields == ['position', 'inserted', 'node'] and sorted(v[1]) == sorted(self.irt_fields):
                d = v[1]
                return (f'({self.to_term(d["position"], "ssit", n)}, {self.to_term(d["inserted"], "b", n)}, '
                        f'{self.to_term(d["node"], "node", n)})')
            raise Unsupported(f'{where(n)}: an insert_return_type {{position, inserted, node}} was expected, found {v[0]}')
        raise Unsupported(f'{where(n)}: cannot return a {v[0]} as {kind}')

    def from_term(self, term, kind):
        if kind == 'ssit':
            return ('pit', f'{term}.1', f'{term}.2')
        if kind == 'vit':
            return ('vit', term)
        if isinstance(kind, tuple):
            return ('pair', self.from_term(f'{term}.1', kind[1]), self.from_term(f'{term}.2', kind[2]))
        return super().from_term(term, kind)

    def as_vit(self, v, path, n, k, what):
        """use an iterator value as an iterator of `_vec`"""
        if v[0] == 'vit':
            return k(path, v)
        if v[0] == 'pit':
            return self.fork(path, v[1], line_of(n), lambda p: k(p, ('vit', v[2])),
                             lambda p: UB(f'{what}: an iterator of the backing set is used as an iterator of the inline vector', None),
                             note=f'{what}: needs an iterator of the inline vector')
        raise Unsupported(f'{where(n)}: {what}: an iterator of the inline vector was expected, found {v[0]}')

    def as_sit(self, v, path, n, k, what):
        if v[0] == 'sit':
            return k(path, v)
        if v[0] == 'pit':
            return self.fork(path, v[1], line_of(n),
                             lambda p: UB(f'{what}: an iterator of the inline vector is used as an iterator of the backing set', None),
                             lambda p: k(p, ('sit', v[2])),
                             note=f'{what}: needs an iterator of the backing set')
        raise Unsupported(f'{where(n)}: {what}: an iterator of the backing set was expected, found {v[0]}')

    @staticmethod
    def is_comp_type(t):
        """the comparator type of the set, desugared or spelled through the member typedef"""
        return t == 'std::less<int>' or re.fullmatch(r'amc::SmallSet<int, .*>::key_compare', t, re.S) is not None

    @staticmethod
    def sub_list(lst, first, last):
        """the Lean list of the range [first, last) of lst"""
        t = lst
        if last != f'{atom(lst)}.length':
            t = f'{atom(t)}.take {atom(last)}'
        if first != '0':
            t = f'{atom(t)}.drop {atom(first)}'
        return t

    # ---- expressions ------------------------------------------------------------------------------------------------
    def e_ImplicitCastExpr(self, n, path, k):
        ck = n.get('castKind')
        c = kids(n)[0]
        if ck in ('LValueToRValue', 'NoOp', 'ConstructorConversion', 'UserDefinedConversion'):
            def cont(p, v):
                if v[0] == 'lref' and ck == 'LValueToRValue':
                    return self.deref(p, p.vec, v[1], n, k)
                return k(p, v)
            return self.eval(c, path, cont)
        if ck in ('UncheckedDerivedToBase', 'DerivedToBase'):
            def cont(p, v):
                if v[0] not in ('vec', 'ovec', 'pit', 'vit', 'sit', 'snode', 'node', 'ptrvec'):
                    raise Unsupported(f'{where(n)}: derived-to-base cast of a {v[0]} to `{qual(n)}`')
                return k(p, v)
            return self.eval(c, path, cont)
        if ck == 'IntegralCast':
            def cont(p, v):
                if v[0] in ('int', 'n', 'b'):
                    return k(p, v)
                if v[0] == 'bt':   # bool -> integer: decide it
                    return self.branch(v, p, n, lambda q: k(q, ('b', True)), lambda q: k(q, ('b', False)))
                raise Unsupported(f'{where(n)}: integral cast of a {v[0]}')
            return self.eval(c, path, cont)
        if ck == 'IntegralToBoolean':
            def cont(p, v):
                if v[0] in ('b', 'bt'):                  # a 0/1 integer that is represented by its boolean
                    return k(p, v)
                if v[0] == 'n':
                    return self.fork(p, f'{v[1]} = 0', line_of(n), lambda q: k(q, ('b', False)), lambda q: k(q, ('b', True)))
                raise Unsupported(f'{where(n)}: conversion of a {v[0]} to bool')
            return self.eval(c, path, cont)
        raise Unsupported(f'{where(n)}: implicit cast {ck} is outside the translated subset')

    def e_CXXFunctionalCastExpr(self, n, path, k):
        ck = n.get('castKind')
        kd = self.type_kind(qual(n), n)
        if ck == 'NoOp' and kd == 'elem':
            def cont(p, v):
                if v[0] != 'elem':
                    raise Unsupported(f'{where(n)}: element constructed from a {v[0]}')
                return k(p, v)
            return self.eval(kids(n)[0], path, cont)
        if (ck == 'NoOp' and kd == 'ptr') or (ck == 'ConstructorConversion' and kd == 'ssit'):
            def cont(p, v):
                if v[0] not in ('vit', 'sit', 'pit', 'ovit', 'osit'):
                    raise Unsupported(f'{where(n)}: SmallSet iterator constructed from a {v[0]}')
                return k(p, v)
            return self.eval(kids(n)[0], path, cont)
        raise Unsupported(f'{where(n)}: functional cast to `{qual(n)}` ({ck})')

    def e_CXXConstCastExpr(self, n, path, k):
        if n.get('castKind') != 'NoOp':
            raise Unsupported(f'{where(n)}: const_cast of kind {n.get("castKind")}')
        return self.passthrough(n, path, k)

    def e_SubstNonTypeTemplateParmExpr(self, n, path, k):
        c = kids(n)
        if len(c) == 2 and c[0].get('kind') == 'NonTypeTemplateParmDecl' and c[0].get('name') == 'N' \
                and c[1].get('kind') == 'IntegerLiteral':
            return k(path, ('n', 'N'))
        raise Unsupported(f'{where(n)}: substituted template parameter other than `N`')

    def e_DeclRefExpr(self, n, path, k):
        rd = n.get('referencedDecl', {})
        if rd.get('kind') == 'VarDecl' and rd.get('name') == 'nullopt' and 'nullopt' not in path.frames[-1]:
            return k(path, ('nullopt',))
        if rd.get('kind') in ('ParmVarDecl', 'VarDecl'):
            v = self.lookup(path, rd['name'], n)
            if v[0] == 'bt' and v[1] in path.known:
                v = ('b', path.known[v[1]])
            return k(path, v)
        raise Unsupported(f'{where(n)}: reference to {rd.get("kind")} `{rd.get("name")}`')

    def e_MemberExpr(self, n, path, k):
        name = n.get('name')
        def cont(p, v):
            if self.mode == 'functor' and v[0] == 'thisptr':
                if name == '_comp':
                    return k(p, ('comp',))
                if name == '_k':
                    return k(p, ('elem', 'k'))
            elif v[0] in ('thisptr', 'this') and (len(v) < 2 or v[1] == 's'):
                if name == '_vec':
                    return k(p, ('vec',))
                if name == '_set':
                    return k(p, ('set',))
            if (v[0] == 'other' or (v[0] in ('thisptr', 'this') and len(v) > 1 and v[1] == 'o')) and p.ovec is not None:
                if name == '_vec':
                    return k(p, ('ovec',))
                if name == '_set':
                    return k(p, ('oset',))
            if v[0] in ('pair', 'rec', 'node'):
                return k(p, self.get_field(v, name, n))
            raise Unsupported(f'{where(n)}: member access `.{name}` on a {v[0]} (the model has no such state)')
        return self.eval(kids(n)[0], path, cont)

    def deref(self, path, lst, idx, n, k):
        key = (lst, idx)
        if key in path.derefs:
            return k(path, ('elem', path.derefs[key]))
        p = path.copy()
        var = self.fresh(p, 'x')
        p.derefs[key] = var
        return MatchIdx(lst, idx, var, k(p, ('elem', var)), line_of(n))

    def e_UnaryOperator(self, n, path, k):
        op = n.get('opcode')
        c = kids(n)[0]
        if op == '*':
            def cont(p, v):
                if v[0] == 'thisptr':
                    return k(p, ('this',) + tuple(v[1:]))
                if v[0] == 'eptr':
                    return k(p, ('elem', v[1]))
                if v[0] == 'vit':
                    return self.deref(p, p.vec, v[1], n, k)
                if v[0] == 'sit':
                    return self.deref(p, p.set, v[1], n, k)
                if v[0] == 'rit':
                    return self.deref(p, v[1], v[2], n, k)
                if v[0] == 'cursor':
                    if p.cursor is not None:
                        raise Unsupported(f'{where(n)}: the loop iterator is dereferenced after it has been advanced')
                    return k(p, ('elem', 'x'))
                raise Unsupported(f'{where(n)}: dereference of a {v[0]}')
            return self.eval(c, path, cont)
        if op == '++' and not n.get('isPostfix'):
            if c.get('kind') == 'DeclRefExpr' and c.get('referencedDecl', {}).get('kind') == 'VarDecl':
                name = c['referencedDecl']['name']
                v = self.lookup(path, name, n)
                if v[0] == 'cursor':
                    if path.cursor is not None:
                        raise Unsupported(f'{where(n)}: the loop iterator is advanced twice on a path')
                    p = path.copy()
                    p.cursor = 'next'
                    return k(p, ('void',))
                if v[0] == 'rit' and self.mode == 'range_step':
                    p = path.copy()
                    p.frames[-1][name] = ('rit', v[1], F.nat_add(v[2], 1))
                    return k(p, ('void',))
            if c.get('kind') == 'DeclRefExpr' and c.get('referencedDecl', {}).get('kind') == 'ParmVarDecl':
                name = c['referencedDecl']['name']
                v = self.lookup(path, name, n)
                if v[0] == 'rit' and self.mode == 'range_step':
                    p = path.copy()
                    p.frames[-1][name] = ('rit', v[1], F.nat_add(v[2], 1))
                    return k(p, ('void',))
            raise Unsupported(f'{where(n)}: `++` on something else than the iterator of a recognised loop')
        if op in ('!', '-'):
            return super().e_UnaryOperator(n, path, k)
        raise Unsupported(f'{where(n)}: unary operator `{op}` is outside the translated subset')

    def compare(self, op, a, b, n, path, k):
        if a[0] == b[0] and a[0] in ('vit', 'sit'):
            return super().compare(op, ('it', a[1]), ('it', b[1]), n, path, k)
        if a[0] == 'elem' and b[0] == 'elem' and op == '<':
            self.use_extra('ltT')
            return k(path, ('bt', f'ltT {atom(a[1])} {atom(b[1])}', True))
        if a[0] == 'elem' and b[0] == 'elem' and op == '==' and self.mode == 'functor2':
            # `==` of the ELEMENT type inside a local comparison struct
            self.use_extra('eqT')
            return k(path, ('bt', f'eqT {atom(a[1])} {atom(b[1])}', True))
        if a[0] == 'rit' and b[0] == 'rit' and a[1] == b[1]:
            return super().compare(op, ('it', a[2]), ('it', b[2]), n, path, k)
        if a[0] in ('vit', 'sit', 'pit', 'cursor') or b[0] in ('vit', 'sit', 'pit', 'cursor'):
            raise Unsupported(f'{where(n)}: comparison `{op}` of a {a[0]} and a {b[0]}')
        return super().compare(op, a, b, n, path, k)

    def e_BinaryOperator(self, n, path, k):
        op = n.get('opcode')
        if op == '=':
            lhs, rhs = kids(n)
            if lhs.get('kind') == 'DeclRefExpr' and lhs.get('referencedDecl', {}).get('kind') == 'VarDecl':
                name = lhs['referencedDecl']['name']
                old = self.lookup(path, name, n)
                if old[0] == 'cursor':
                    def cont(p, v):
                        if v[0] != 'cur_erase':
                            raise Unsupported(f'{where(n)}: the loop iterator is assigned something else than `o._vec.erase(oit)`')
                        return k(p, ('void',))
                    return self.eval(rhs, path, cont)
        if op in ('+', '-'):
            raise Unsupported(f'{where(n)}: arithmetic `{op}` is outside the translated subset')
        return super().e_BinaryOperator(n, path, k)

    def construct(self, n, path, k):
        ty = strip_cvref(dq(n))
        args = [a for a in kids(n)]
        if ty.startswith('amc::SmallSetIterator<int,') and len(args) == 1:
            def cont(p, v):
                if v[0] not in ('vit', 'sit', 'pit', 'ovit', 'osit'):
                    raise Unsupported(f'{where(n)}: SmallSet iterator constructed from a {v[0]}')
                return k(p, v)
            return self.eval(args[0], path, cont)
        if ty.endswith('::FindFunctor<int>') and ty.startswith('amc::SmallSet<int,') and len(args) == 2:
            def cont(p, vs):
                if vs[0][0] != 'comp' or vs[1][0] != 'elem':
                    raise Unsupported(f'{where(n)}: FindFunctor({vs[0][0]}, {vs[1][0]})')
                return k(p, ('ff', vs[1][1]))
            return self.eval_list(args, path, cont)
        if ty.endswith('::FindFunctor<int>') and len(args) == 1:    # copy of the functor (passed by value)
            def cont(p, v):
                if v[0] != 'ff':
                    raise Unsupported(f'{where(n)}: FindFunctor constructed from a {v[0]}')
                return k(p, v)
            return self.eval(args[0], path, cont)
        if ty == 'std::less<int>' and not args:
            # a default-constructed comparator: NOT the comparator object of the set
            self.use_extra('lt_default')
            return k(path, ('comp', 'lt_default'))
        if ty == 'std::less<int>' and len(args) == 1:
            def cont(p, v):
                if v[0] != 'comp':
                    raise Unsupported(f'{where(n)}: comparator constructed from a {v[0]}')
                return k(p, v)
            return self.eval(args[0], path, cont)
        kd = None
        try:
            kd = self.type_kind(ty, None)
        except Unsupported:
            pass
        if kd == 'node':
            if len(args) == 1:
                src = peel(args[0])
                moved = None
                if src.get('kind') == 'CallExpr' and len(kids(src)) == 2 and \
                        peel(kids(src)[0]).get('referencedDecl', {}).get('name') == 'move':
                    moved = self.lvalue_path(kids(src)[1])
                def cont(p, v):
                    if v[0] == 'alloc':
                        return k(p, ('node', ('onone',)))
                    if v[0] != 'node':
                        raise Unsupported(f'{where(n)}: node handle constructed from a {v[0]}')
                    if moved is not None:
                        p = self.store(p, moved, ('node', ('omoved',)), n)
                    return k(p, v)
                return self.eval(args[0], path, cont)
            if len(args) == 2:
                def cont(p, vs):
                    if vs[0][0] != 'elem' or vs[1][0] != 'alloc':
                        raise Unsupported(f'{where(n)}: node_type({vs[0][0]}, {vs[1][0]})')
                    return k(p, ('node', ('osome', vs[0][1])))
                return self.eval_list(args, path, cont)
        if kd == 'ptrvec':
            if not args:
                return k(path, ('ptrvec', '[]'))
            if len(args) == 1:
                def cont(p, v):
                    if v[0] != 'ptrvec':
                        raise Unsupported(f'{where(n)}: pointer vector constructed from a {v[0]}')
                    return k(p, v)
                return self.eval(args[0], path, cont)
        if kd == 'cmpobj' and not args:
            return k(path, ('cmpobj', ty))
        if kd == 'cmpobj' and len(args) == 1:
            return self.eval(args[0], path, k)
        if kd == 'sit' and len(args) == 1:
            def cont(p, v):
                if v[0] != 'sit':
                    raise Unsupported(f'{where(n)}: iterator of the backing set constructed from a {v[0]}')
                return k(p, v)
            return self.eval(args[0], path, cont)
        if kd == 'opt' and len(args) == 1:
            def cont(p, v):
                if v[0] == 'elem':
                    return k(p, ('opt', ('osome', v[1])))
                if v[0] in ('opt', 'nullopt'):
                    return k(p, v)
                raise Unsupported(f'{where(n)}: std::optional constructed from a {v[0]}')
            return self.eval(args[0], path, cont)
        if (ty == 'std::nullopt_t' or kd in ('irt', 'snode') or ty == 'std::initializer_list<int>') and len(args) == 1:
            want = 'nullopt' if ty == 'std::nullopt_t' else {'irt': 'rec', 'snode': 'snode'}.get(kd, 'ilist')
            def cont(p, v):
                if v[0] != want:
                    raise Unsupported(f'{where(n)}: `{qual(n)}` constructed from a {v[0]}')
                return k(p, v)
            return self.eval(args[0], path, cont)
        if ty.startswith('std::pair<'):
            self.type_kind(ty, None)
            if len(args) == 2:
                return self.eval_list(args, path, lambda p, vs: k(p, ('pair', vs[0], vs[1])))
            if len(args) == 1:
                def cont(p, v):
                    if v[0] != 'pair':
                        raise Unsupported(f'{where(n)}: pair constructed from a {v[0]}')
                    return k(p, v)
                return self.eval(args[0], path, cont)
        raise Unsupported(f'{where(n)}: construction of `{qual(n)}` with {len(args)} argument(s)')

    e_CXXConstructExpr = construct
    e_CXXTemporaryObjectExpr = construct

    def e_CallExpr(self, n, path, k):
        c = kids(n)
        callee = c[0]
        while callee.get('kind') == 'ImplicitCastExpr':
            callee = kids(callee)[0]
        rd = callee.get('referencedDecl', {})
        if callee.get('kind') == 'DeclRefExpr' and rd.get('kind') == 'CXXMethodDecl' and rd.get('name') in ('ToVecIt', 'ToSetIt'):
            # the static helpers ToVecIt / ToSetIt (two overloads each, selected by the iterator type): inlined
            decl = self.by_id.get(rd.get('id'))
            if decl is None or not has_body(decl) or len(c) != 3:
                raise Unsupported(f'{where(n)}: call of `{rd.get("name")}` of an unknown shape')
            ps = params_of(decl)
            def cont(p, v):
                p = p.copy()
                p.frames.append({ps[0]['name']: v})
                def kret(q, w):
                    q = q.copy()
                    q.frames.pop()
                    if rd.get('name') == 'ToVecIt':
                        return self.as_vit(w, q, n, k, 'ToVecIt')
                    return self.as_sit(w, q, n, k, 'ToSetIt')
                return self.exec_block([body_of(decl)], p, lambda q: self.fall_off(decl, q, kret), kret)
            return self.eval(c[1], path, cont)
        if callee.get('kind') == 'DeclRefExpr' and rd.get('kind') == 'CXXMethodDecl' and rd.get('name') == 'ComputeSortedPtrVec':
            # a static member with a visible body: inlined.  Two shapes are known: `(const VecType &c)` (the lambda of the sort
            # then has to find a comparator by itself) and `(const VecType &c, const key_compare &comp)` (the comparator object
            # is handed over by the caller)
            decl = self.by_id.get(rd.get('id'))
            ps = params_of(decl) if decl is not None else []
            if decl is None or not has_body(decl) or len(ps) not in (1, 2) or len(c) != 1 + len(ps) \
                    or not str(decl.get('_file')).endswith(HEADER) \
                    or not re.fullmatch(r'const (amc::SmallSet<int, .*>::)?VecType &', qual(ps[0])) \
                    or (len(ps) == 2 and not self.is_comp_type(strip_cvref(dq(ps[1])))):
                raise Unsupported(f'{where(n)}: call of `{rd.get("name")}` of an unknown shape')
            def cont(p, vs):
                v = vs[0]
                if v[0] not in ('vec', 'ovec'):
                    raise Unsupported(f'{where(n)}: `{rd.get("name")}` applied to a {v[0]}')
                if len(vs) == 2:
                    cv = vs[1]
                    if cv[0] != 'comp':
                        raise Unsupported(f'{where(n)}: `{rd.get("name")}` given a {cv[0]} as comparator')
                    owner = cv[2] if len(cv) > 2 and cv[2] else ('s' if self.comp_term(cv) == 'lt' else None)
                    if owner is not None:
                        # a STORED comparator object (`lt` of *this; of the other set `lt_o` in the relational operators, the
                        # shared `lt` in `swap` / `merge`): each inline vector has to be sorted with the comparator object of
                        # ITS OWN set
                        if owner != ('s' if v[0] == 'vec' else 'o'):
                            raise Unsupported(f'{where(n)}: `{rd.get("name")}` sorts the inline elements of one set with the comparator '
                                              f'object of the other set (no known shape does that)')
                p = p.copy()
                p.frames.append({q['name']: w for q, w in zip(ps, vs)})
                def kret(q, w):
                    q = q.copy()
                    q.frames.pop()
                    return k(q, w)
                return self.exec_block([body_of(decl)], p, lambda q: self.fall_off(decl, q, kret), kret)
            return self.eval_list(c[1:], path, cont)
        if callee.get('kind') != 'DeclRefExpr' or rd.get('kind') != 'FunctionDecl':
            raise Unsupported(f'{where(n)}: call through something else than a named function')
        name = rd.get('name')
        args = c[1:]
        if name == 'transform' and len(args) == 4:
            # std::transform(c.begin(), c.end(), std::back_inserter(v), [](const_reference r) { return std::addressof(r); }):
            # the pointer vector `v` receives pointers to the elements of the range
            bi = peel(args[2])
            lp = None
            if bi.get('kind') == 'CallExpr' and len(kids(bi)) == 2 and peel(kids(bi)[0]).get('referencedDecl', {}).get('name') == 'back_inserter':
                lp = self.lvalue_path(kids(bi)[1])
            lam = peel(args[3])
            ok = lam.get('kind') == 'LambdaExpr'
            if ok:
                ops = [m for r in kids(lam) if r.get('kind') == 'CXXRecordDecl' for m in kids(r)
                       if m.get('kind') == 'CXXMethodDecl' and m.get('name') == 'operator()']
                ok = len(ops) == 1 and len(params_of(ops[0])) == 1 and has_body(ops[0])
                if ok:
                    st = kids(body_of(ops[0]))
                    ok = len(st) == 1 and st[0].get('kind') == 'ReturnStmt' and len(kids(st[0])) == 1
                    if ok:
                        e = peel(kids(st[0])[0])
                        ok = e.get('kind') == 'CallExpr' and len(kids(e)) == 2 \
                            and peel(kids(e)[0]).get('referencedDecl', {}).get('name') == 'addressof' \
                            and peel(kids(e)[1]).get('referencedDecl', {}).get('name') == params_of(ops[0])[0].get('name')
            if lp is None or lp[1] or not ok:
                raise Unsupported(f'{where(n)}: std::transform of a shape other than taking the addresses of a range into a pointer vector')
            def cont(p, vs):
                first, last = vs
                old = self.lookup(p, lp[0], n)
                if old[0] != 'ptrvec':
                    raise Unsupported(f'{where(n)}: std::back_inserter of a {old[0]}')
                if first[0] == 'vit' and last[0] == 'vit':
                    sub = self.sub_list(p.vec, first[1], last[1])
                elif first[0] == 'ovit' and last[0] == 'ovit':
                    sub = self.sub_list(p.ovec, first[1], last[1])
                else:
                    raise Unsupported(f'{where(n)}: std::transform over a range ({first[0]}, {last[0]})')
                q = p.copy()
                q.frames[-1][lp[0]] = ('ptrvec', sub if old[1] == '[]' else f'{atom(old[1])} ++ {atom(sub)}')
                return k(q, ('void',))
            return self.eval_list(args[:2], path, cont)
        if name in ('sort', 'stable_sort') and len(args) == 3:
            # std::sort(v.begin(), v.end(), [](const_pointer p1, const_pointer p2) { return comp(*p1, *p2); }) on a pointer vector
            def cont(p, vs):
                first, last, pred = vs
                if first[0] != 'pvit' or last[0] != 'pvit' or first[1] != last[1] or first[2] != '0' \
                        or last[2] != f'{atom(last[1])}.length' or pred[0] != 'pred':
                    raise Unsupported(f'{where(n)}: std::{name}({first[0]}, {last[0]}, {pred[0]}): only a whole pointer vector with a lambda is known')
                lp = self.lvalue_path(kids(kids(args[0])[0])[0]) if args[0].get('kind') == 'CXXMemberCallExpr' else None
                if lp is None or lp[1] or self.lookup(p, lp[0], n) != ('ptrvec', first[1]):
                    raise Unsupported(f'{where(n)}: std::{name} on something else than a local pointer vector')
                q = p.copy()
                fn = 'sortedBy' if name == 'sort' else 'stableSortedBy'
                q.frames[-1][lp[0]] = ('ptrvec', f'{fn} ({pred[1]}) {atom(first[1])}')
                return k(q, ('void',))
            return self.eval_list(args, path, cont)
        if name == 'lexicographical_compare' and len(args) == 5:
            def cont(p, vs):
                l1 = self.whole_range(vs[0], vs[1], p, n)
                l2 = self.whole_range(vs[2], vs[3], p, n)
                if vs[4][0] != 'cmpobj':
                    raise Unsupported(f'{where(n)}: std::lexicographical_compare with a {vs[4][0]} as comparison')
                self.check_less_functor(vs[4][1], n)
                self.use_extra('ltT')
                return k(p, ('bt', f'vecLess ltT {atom(l1)} {atom(l2)}', True))
            return self.eval_list(args, path, cont)
        if name == 'equal' and len(args) == 4:
            # std::equal(first1, last1, first2, pred), the THREE-iterator form: the second range is read from `first2` over the
            # length of the first one; reading past its end is undefined behaviour
            def cont(p, vs):
                l1 = self.whole_range(vs[0], vs[1], p, n)
                f2 = vs[2]
                src = {'vit': p.vec, 'sit': p.set, 'ovit': p.ovec, 'osit': p.oset}
                if f2[0] == 'pvit' and f2[2] == '0':
                    l2 = f2[1]
                elif f2[0] in src and src[f2[0]] is not None and f2[1] == '0':
                    l2 = src[f2[0]]
                else:
                    raise Unsupported(f'{where(n)}: std::equal whose second range does not start at the beginning of a container ({f2[0]})')
                if vs[3][0] != 'cmpobj':
                    raise Unsupported(f'{where(n)}: std::equal with a {vs[3][0]} as comparison')
                self.check_functor(vs[3][1], n, 'eqT', '==')
                self.use_extra('eqT')
                def go(q):
                    return k(q, ('bt', f'vecEq eqT {atom(l1)} ({atom(l2)}.take {atom(l1)}.length)', True))
                return self.fork(p, f'{atom(l1)}.length ≤ {atom(l2)}.length', line_of(n), go,
                                 lambda q: UB('std::equal(first1, last1, first2, pred) reads the second range past its end', None),
                                 note='std::equal: the second range is at least as long as the first')
            return self.eval_list(args, path, cont)
        if name == 'is_permutation' and len(args) == 4:
            def cont(p, vs):
                l1 = self.whole_range(vs[0], vs[1], p, n)
                l2 = self.whole_range(vs[2], vs[3], p, n)
                self.use_extra('eqT')
                return k(p, ('bt', f'isPermutation eqT {atom(l1)} {atom(l2)}', True))
            return self.eval_list(args, path, cont)
        if name in ('forward', 'move') and len(args) == 1:
            def cont(p, v):
                if v[0] == 'lref':
                    return self.deref(p, p.vec, v[1], n, k)
                if v[0] not in ('elem', 'node', 'snode', 'opt'):
                    raise Unsupported(f'{where(n)}: std::{name} of a {v[0]}')
                return k(p, v)
            return self.eval(args[0], path, cont)
        if name == 'addressof' and len(args) == 1:
            def cont(p, v):
                if v[0] != 'lref':
                    raise Unsupported(f'{where(n)}: std::addressof of a {v[0]}')
                return k(p, ('vit', v[1]))
            return self.eval(args[0], path, cont)
        if name == 'make_move_iterator' and len(args) == 1:
            def cont(p, v):
                if v[0] != 'vit':
                    raise Unsupported(f'{where(n)}: std::make_move_iterator of a {v[0]}')
                return k(p, v)
            return self.eval(args[0], path, cont)
        if name in ('find_if', 'none_of') and len(args) == 3:
            def cont(p, vs):
                first, last, fn = vs
                if first[0] != 'vit' or last[0] != 'vit' or fn[0] != 'ff':
                    raise Unsupported(f'{where(n)}: std::{name}({first[0]}, {last[0]}, {fn[0]}): only a range of the inline vector '
                                      f'with a FindFunctor is known')
                p = p.copy()
                var = self.fresh(p, 'r')
                term = self.scan_term(n, atom(self.sub_list(p.vec, first[1], last[1])), fn, atom(first[1]))
                p.csyms = p.csyms + (f'{var}.2',)
                if name == 'find_if':
                    res = ('vit', f'{var}.1.getD {atom(last[1])}')
                else:
                    res = ('bt', f'{var}.1.isNone', True)
                return Let(var, term, k(p, res), line_of(n))
            return self.eval_list(args, path, cont)
        raise Unsupported(f'{where(n)}: call of function `{name}` with {len(args)} argument(s) is outside the translated subset')

    def scan_term(self, n, lst, fn, start):
        """the Lean term of the scan `std::find_if(lst, FindFunctor)` starting at index `start`: (index option, comparator calls)"""
        return f'Sets.findSmall lt {lst} {atom(fn[1])} {start}'

    def whole_range(self, a, b, p, n):
        """the list of a range [begin, end) of one of the four containers or of a local pointer vector"""
        src = {'vit': p.vec, 'sit': p.set, 'ovit': p.ovec, 'osit': p.oset}
        if a[0] == b[0] and a[0] in src and src[a[0]] is not None:
            lst = src[a[0]]
            if a[1] == '0' and b[1] == f'{atom(lst)}.length':
                return lst
        if a[0] == 'pvit' and b[0] == 'pvit' and a[1] == b[1] and a[2] == '0' and b[2] == f'{atom(a[1])}.length':
            return a[1]
        if a[0] == 'pit' or b[0] == 'pit':
            raise Unsupported(f'{where(n)}: a range given by iterators received as parameters')
        raise Unsupported(f'{where(n)}: a range ({a[0]}, {b[0]}) that is not a whole container')

    def check_less_functor(self, name, n):
        """every `operator()` of the local struct has to be `<` of the element type on its (dereferenced) arguments"""
        return self.check_functor(name, n, 'ltT', '<')

    def check_functor(self, name, n, fn, sym):
        """the local struct `name` has exactly the three overloads of `operator()` on (pointer, pointer), (pointer, reference),
        (reference, pointer), and each of them is `sym` (`<` or `==`) of the ELEMENT type on its (dereferenced) arguments, in order"""
        d = self.local_structs.get(name)
        ops = [m for m in kids(d) if m.get('kind') == 'CXXMethodDecl' and m.get('name') == 'operator()'] if d else []
        if not ops:
            raise Unsupported(f'{where(n)}: the comparison object `{name}` has no operator()')
        if d is not None and any(m.get('kind') == 'FieldDecl' for m in kids(d)):
            raise Unsupported(f'{where(d)}: the comparison object `{name}` has data members')
        forms = []
        for m in ops:
            ps = params_of(m)
            if len(ps) != 2 or not has_body(m) or not self.is_const(m) or self.ret_text(m) != 'bool':
                raise Unsupported(f'{where(m)}: `{name}::operator()` of an unknown shape')
            sub = Path()
            fr = {}
            form = []
            for i, q in enumerate(ps):
                kd = self.type_kind(qual(q), q)
                if kd == 'ptr':
                    fr[q['name']] = ('eptr', f'a{i}')
                elif kd == 'elem':
                    fr[q['name']] = ('elem', f'a{i}')
                else:
                    raise Unsupported(f'{where(q)}: parameter of `{name}::operator()` of kind {kd}')
                form.append(kd)
            forms.append(tuple(form))
            sub.frames = [fr]
            saved = (self.mode, self.param_names)
            self.mode, self.param_names = 'functor2', {'a0', 'a1'}
            def kret(p, v):
                return Leaf(None, self.to_term(v, 'b', m), None, None)
            def nofall(p):
                raise Unsupported(f'{where(m)}: control reaches the end of `{name}::operator()`')
            tree = self.exec_block([body_of(m)], sub, nofall, kret)
            self.mode, self.param_names = saved
            if not isinstance(tree, Leaf) or tree.ret != f'{fn} a0 a1':
                raise Unsupported(f'{where(m)}: `{name}::operator()` is not `{sym}` of the element type on its two arguments '
                                  f'(found `{getattr(tree, "ret", "a branching body")}`)')
        if sorted(forms) != sorted([('ptr', 'ptr'), ('ptr', 'elem'), ('elem', 'ptr')]):
            raise Unsupported(f'{where(d)}: the overloads of `{name}::operator()` are not exactly (pointer, pointer), '
                              f'(pointer, reference), (reference, pointer): found {forms}')

    def e_LambdaExpr(self, n, path, k):
        """a lambda `[](const_pointer p1, const_pointer p2) { return …; }` or `[&comp](const_pointer p1, const_pointer p2)
        { return …; }` (one capture, of a comparator object) given to a library algorithm: executed symbolically on its own,
        emitted as an auxiliary Bool-valued definition on the pointees"""
        c = kids(n)
        rec = [x for x in c if x.get('kind') == 'CXXRecordDecl']
        body = [x for x in c if x.get('kind') == 'CompoundStmt']
        caps = [x for x in c if x.get('kind') == 'DeclRefExpr']
        if len(rec) != 1 or len(body) != 1 or len(caps) > 1 or len(rec) + len(body) + len(caps) != len(c):
            raise Unsupported(f'{where(n)}: lambda expression of an unknown shape (at most one capture, by name, is known here)')
        ops = [m for m in kids(rec[0]) if m.get('kind') == 'CXXMethodDecl' and m.get('name') == 'operator()']
        if len(ops) != 1:
            raise Unsupported(f'{where(n)}: lambda without a single operator()')
        ps = params_of(ops[0])
        if len(ps) != 2 or any(self.type_kind(qual(q), q) != 'ptr' for q in ps) or self.ret_text(ops[0]) != 'bool':
            raise Unsupported(f'{where(n)}: only a binary predicate on pointers to elements is known as a lambda')
        names = [q['name'] + '_' if q['name'] in RESERVED else q['name'] for q in ps]
        frame = {}
        outer, how = None, None
        fields = [m for m in kids(rec[0]) if m.get('kind') == 'FieldDecl']
        if len(fields) != len(caps):
            raise Unsupported(f'{where(n)}: lambda with {len(fields)} captured object(s) for {len(caps)} named capture(s)')
        for cp, fd in zip(caps, fields):
            nm = cp.get('referencedDecl', {}).get('name')
            if cp.get('referencedDecl', {}).get('kind') not in ('ParmVarDecl', 'VarDecl') or nm in [q['name'] for q in ps]:
                raise Unsupported(f'{where(cp)}: lambda capture of an unknown shape')
            v = self.lookup(path, nm, cp)
            if v[0] != 'comp' or not self.is_comp_type(strip_cvref(dq(fd))):
                raise Unsupported(f'{where(cp)}: lambda capture `{nm}` of a {v[0]} (only one capture, of a comparator, is known)')
            if not dq(fd).rstrip().endswith('&'):
                raise Unsupported(f'{where(cp)}: lambda capture `{nm}` by copy (only a capture by reference is known here)')
            outer = self.comp_term(v)
            how = (nm, 'by reference')
            frame[nm] = ('comp',)                     # inside the auxiliary definition the captured comparator is called `lt`
        frame.update({q['name']: ('eptr', nm) for q, nm in zip(ps, names)})
        sub = Path()
        sub.frames = [frame]
        saved = (self.mode, self.param_names)
        self.mode, self.param_names = 'functor', set(names)
        def kret(p, v):
            return Leaf(None, self.to_term(v, 'b', n), None, None)
        def nofall(p):
            raise Unsupported(f'{where(n)}: control reaches the end of the lambda')
        tree = self.exec_block(body, sub, nofall, kret)
        self.mode, self.param_names = saved
        for t in self.walk(tree):
            if isinstance(t, (UB, MatchIdx, Bind, MatchOpt)):
                raise Unsupported(f'{where(n)}: the lambda body does more than comparing its arguments')
        lines = self.emit(tree, 1)
        uses_default = any('lt_default' in ln for ln in lines)
        name = f'{self.cur_lean}_pred'
        sig = f'def {name} (lt : α → α → Bool)' + (' (lt_default : α → α → Bool)' if uses_default else '') + \
              ''.join(f' ({nm} : α)' for nm in names) + ' : Bool :='
        doc = f'/-- smallset.hpp:{line_of(n)} the lambda given to the sort of `ComputeSortedPtrVec`, on the pointees; '
        if how is not None:
            doc += (f'it captures {how[1]} the comparator object `{how[0]}` received by `ComputeSortedPtrVec` from its caller, '
                    f'here `lt`; ')
        if uses_default or how is None:
            doc += '`lt_default` is a DEFAULT-CONSTRUCTED comparator (`Compare()`), not the comparator object of the set; '
        doc += 'comparator calls are not counted -/'
        text = '\n'.join([doc, sig] + lines) + '\n'
        if name not in self.aux_names:
            self.aux_names.append(name)
            self.aux_defs.append(text)
            self.aux_text[name] = text
        elif self.aux_text.get(name) != text:
            raise Unsupported(f'{where(n)}: two different lambdas in `{self.cur_cpp}` (or one lambda that reads differently at two calls)')
        return k(path, ('pred', f'{name} {atom(outer) if outer is not None else "lt"}' + (' lt_default' if uses_default else '')))

    def e_CXXOperatorCallExpr(self, n, path, k):
        if self.mode in ('functor', 'functor2'):
            return super().e_CXXOperatorCallExpr(n, path, k)
        c = kids(n)
        callee = c[0]
        while callee.get('kind') == 'ImplicitCastExpr':
            callee = kids(callee)[0]
        name = callee.get('referencedDecl', {}).get('name')
        if (name == 'operator*' and len(c) == 2) or (name == 'operator=' and len(c) == 3):
            # `*optional`, `optional = …`, `std::tie(a, b) = pair`
            return super().e_CXXOperatorCallExpr(n, path, k)
        if name in ('operator==', 'operator<') and len(c) == 3:
            rid = callee.get('referencedDecl', {}).get('id')
            def cont(p, vs):
                a, b = vs
                sets = {'set': p.set, 'oset': p.oset}
                if a[0] in sets and b[0] in sets and a[0] != b[0]:
                    # operator== / operator< of the backing set (a template parameter): std::equal on equal sizes /
                    # std::lexicographical_compare, with the operators of the ELEMENT type
                    ex, fn = ('eqT', 'vecEq') if name == 'operator==' else ('ltT', 'vecLess')
                    self.use_extra(ex)
                    return k(p, ('bt', f'{fn} {ex} {atom(sets[a[0]])} {atom(sets[b[0]])}', True))
                objs = {'this': 's', 'other': 'o'}
                wa = 'o' if (a[0] == 'other' or (a[0] == 'this' and len(a) > 1 and a[1] == 'o')) else 's' if a[0] == 'this' else None
                wb = 'o' if (b[0] == 'other' or (b[0] == 'this' and len(b) > 1 and b[1] == 'o')) else 's' if b[0] == 'this' else None
                if wa and wb and wa != wb and rid in self.targets and self.targets[rid] in self.sigs:
                    lean = self.targets[rid]
                    for ex in self.extras_of.get(lean, []):
                        self.use_extra(ex)
                    st = {'s': state_term(p.vec, p.set), 'o': state_term(p.ovec, p.oset)}
                    q = p.copy()
                    var = self.fresh(q, 'r')
                    q.csyms = q.csyms + (f'{var}.2',)
                    cmp = {'s': 'lt', 'o': self.other_lt}
                    if lean in self.two_const:
                        call = ' '.join([lean, cmp[wa], 'N', arg(st[wa]), cmp[wb], arg(st[wb])] + self.extras_of.get(lean, []))
                    else:
                        call = ' '.join([lean, 'lt', 'N', arg(st[wa]), arg(st[wb])] + self.extras_of.get(lean, []))
                    return Bind(call, var, k(q, self.from_term(f'{var}.1', self.sigs[lean][1])), line_of(n))
                if wa and wb and rid in self.targets and self.targets[rid] not in self.sigs:
                    raise Unsupported(f'{where(n)}: `{name}` of SmallSet is called before it is generated: it calls itself or a member generated later '
                                      f'(recursion is outside the translated subset)')
                raise Unsupported(f'{where(n)}: `{name}` applied to a {a[0]} and a {b[0]}')
            return self.eval_list(c[1:], path, cont)
        raise Unsupported(f'{where(n)}: call of the overloaded operator `{name}` is outside the translated subset')

    def e_CXXMemberCallExpr(self, n, path, k):
        c = kids(n)
        me = c[0]
        if me.get('kind') != 'MemberExpr':
            raise Unsupported(f'{where(n)}: member call through a {me.get("kind")}')
        name = me.get('name')
        args = c[1:]
        def on_obj(p, obj):
            if obj[0] in ('thisptr', 'this'):
                if self.mode == 'functor':
                    raise Unsupported(f'{where(n)}: member call `{name}` inside FindFunctor')
                if len(obj) > 1 and obj[1] == 'o':
                    return self.other_member(n, me, name, args, p, k)
                return self.call_member(n, me, name, args, p, k)
            if obj[0] == 'oset':
                return self.eval_list(args, p, lambda q, vs: self.oset_prim(n, name, vs, q, k))
            if obj[0] == 'ptrvec' and not args and name in ('begin', 'end'):
                return k(p, ('pvit', obj[1], '0' if name == 'begin' else f'{atom(obj[1])}.length'))
            if obj[0] == 'vec':
                return self.eval_list(args, p, lambda q, vs: self.vec_prim(n, name, vs, q, k))
            if obj[0] == 'set':
                return self.eval_list(args, p, lambda q, vs: self.set_prim(n, name, vs, q, k))
            if obj[0] == 'ovec':
                return self.eval_list(args, p, lambda q, vs: self.ovec_prim(n, name, vs, q, k))
            if obj[0] == 'other':
                return self.other_member(n, me, name, args, p, k)
            if obj[0] == 'node' and not args and name in ('operator bool', 'empty'):
                if obj[1][0] == 'omoved':
                    raise Unsupported(f'{where(n)}: `{name}` of a moved-from node handle')
                has = obj[1][0] == 'osome'
                return k(p, ('b', has if name == 'operator bool' else not has))
            if obj[0] == 'snode' and not args:
                # the node handle of the backing set (a template parameter): an optional value
                if name in ('operator bool', 'empty'):
                    has = obj[1][0] == 'osome'
                    return k(p, ('b', has if name == 'operator bool' else not has))
                if name == 'value':
                    if obj[1][0] == 'osome':
                        return k(p, ('elem', obj[1][1]))
                    return UB('value() of an empty node handle of the backing set', line_of(n))
                if name == 'get_allocator':
                    return k(p, ('alloc',))
            if obj[0] == 'ilist' and not args and name in ('begin', 'end'):
                return k(p, ('rit', obj[1], '0' if name == 'begin' else f'{atom(obj[1])}.length'))
            if obj[0] == 'pit' and not args:
                if name == 'toVecIt':
                    return self.as_vit(obj, p, n, k, 'toVecIt()')
                if name == 'toSetIt':
                    return self.as_sit(obj, p, n, k, 'toSetIt()')
            raise Unsupported(f'{where(n)}: member call `.{name}` on a {obj[0]}')
        return self.eval(kids(me)[0], path, on_obj)

    def vec_prim(self, n, name, vs, path, k):
        """members of the inline vector `_vec`"""
        vec = path.vec
        if name in ('begin', 'cbegin') and not vs:
            return k(path, ('vit', '0'))
        if name in ('end', 'cend') and not vs:
            return k(path, ('vit', f'{atom(vec)}.length'))
        if name == 'empty' and not vs:
            return k(path, ('bt', f'{atom(vec)}.isEmpty', True))
        if name == 'size' and not vs:
            return k(path, ('n', f'{atom(vec)}.length'))
        if name in ('push_back', 'emplace_back') and len(vs) == 1 and vs[0][0] == 'elem':
            p = path.copy()
            p.vec = f'{atom(vec)} ++ [{vs[0][1]}]'
            return k(p, ('void',) if name == 'push_back' else ('lref', f'{atom(vec)}.length'))
        if name == 'pop_back' and not vs:
            def go(p):
                p = p.copy()
                p.vec = f'{atom(vec)}.dropLast'
                return k(p, ('void',))
            return self.fork(path, f'{atom(vec)}.length = 0', line_of(n),
                             lambda p: UB('pop_back() on an empty vector', None), go, note='pop_back')
        if name == 'erase' and len(vs) == 1:
            def with_it(p0, it):
                def go(p):
                    p = p.copy()
                    p.vec = f'{atom(vec)}.eraseIdx {atom(it[1])}'
                    return k(p, ('vit', it[1]))
                return self.fork(p0, f'{it[1]} < {atom(vec)}.length', line_of(n), go,
                                 lambda p: UB('_vec.erase of an iterator outside [begin, end)', None), note='_vec.erase')
            return self.as_vit(vs[0], path, n, with_it, '_vec.erase')
        if name == 'clear' and not vs:
            p = path.copy()
            p.vec = '[]'
            return k(p, ('void',))
        if name == 'erase' and len(vs) == 2:
            def with_a(p0, a):
                def with_b(p1, b):
                    def go(p):
                        p = p.copy()
                        p.vec = f'{atom(vec)}.take {atom(a[1])} ++ {atom(vec)}.drop {atom(b[1])}'
                        return k(p, ('vit', a[1]))
                    return self.fork(p1, f'{a[1]} ≤ {b[1]}', line_of(n),
                                     lambda p: self.fork(p, f'{b[1]} ≤ {atom(vec)}.length', line_of(n), go,
                                                         lambda q: UB('_vec.erase of a range that ends after end()', None), note='_vec.erase: last <= end()'),
                                     lambda p: UB('_vec.erase of a range with last before first', None), note='_vec.erase: first <= last')
                return self.as_vit(vs[1], p0, n, with_b, '_vec.erase')
            return self.as_vit(vs[0], path, n, with_a, '_vec.erase')
        if name == 'swap' and len(vs) == 1 and vs[0][0] == 'ovec':
            p = path.copy()
            p.vec, p.ovec = path.ovec, path.vec
            return k(p, ('void',))
        raise Unsupported(f'{where(n)}: vector member `{name}` with argument kinds ({", ".join(v[0] for v in vs)}) is outside the translated subset')

    def set_prim(self, n, name, vs, path, k):
        """members of the backing set `_set` (a template parameter: its hand-written list model)"""
        st = path.set
        if name == 'empty' and not vs:
            return k(path, ('bt', f'{atom(st)}.isEmpty', True))
        if name == 'size' and not vs:
            return k(path, ('n', f'{atom(st)}.length'))
        if name in ('begin', 'cbegin') and not vs:
            return k(path, ('sit', '0'))
        if name in ('end', 'cend') and not vs:
            return k(path, ('sit', f'{atom(st)}.length'))
        if name == 'key_comp' and not vs:
            return k(path, ('comp',))
        if name in ('insert', 'emplace') and len(vs) == 1 and vs[0][0] == 'elem':
            p = path.copy()
            var = self.fresh(p, 'r')
            p.set = f'{var}.1'
            return Let(var, f'FS.insertVal lt {atom(st)} {atom(vs[0][1])}',
                       k(p, ('pair', ('sit', f'{var}.2.1'), ('bt', f'{var}.2.2', True))), line_of(n))
        if name == 'insert' and len(vs) == 2 and vs[0][0] == 'vit' and vs[1][0] == 'vit':
            p = path.copy()
            p.set = f'Sets.insertAll lt {atom(st)} {atom(self.sub_list(path.vec, vs[0][1], vs[1][1]))}'
            return k(p, ('void',))
        if name == 'get_allocator' and not vs:
            return k(path, ('alloc',))
        if name == 'insert' and len(vs) == 2 and vs[0][0] == 'rit' and vs[1][0] == 'rit' and vs[0][1] == vs[1][1]:
            p = path.copy()
            p.set = f'Sets.insertAll lt {atom(st)} {atom(self.sub_list(vs[0][1], vs[0][2], vs[1][2]))}'
            return k(p, ('void',))
        if name == 'insert' and len(vs) == 2 and vs[0][0] == 'sit' and vs[1][0] == 'elem':
            # insertion with a hint into the backing set (a template parameter): the result of plain insertion, whatever the hint
            p = path.copy()
            var = self.fresh(p, 'r')
            p.set = f'{var}.1'
            return Let(var, f'FS.insertVal lt {atom(st)} {atom(vs[1][1])}', k(p, ('sit', f'{var}.2.1')), line_of(n))
        if name == 'erase' and len(vs) == 2 and vs[0][0] in ('sit', 'pit') and vs[1][0] in ('sit', 'pit'):
            def with_a(p0, a):
                def with_b(p1, b):
                    def go(p):
                        p = p.copy()
                        p.set = f'{atom(st)}.take {atom(a[1])} ++ {atom(st)}.drop {atom(b[1])}'
                        return k(p, ('sit', a[1]))
                    return self.fork(p1, f'{a[1]} ≤ {b[1]}', line_of(n),
                                     lambda p: self.fork(p, f'{b[1]} ≤ {atom(st)}.length', line_of(n), go,
                                                         lambda q: UB('_set.erase of a range that ends after end()', None), note='_set.erase: last <= end()'),
                                     lambda p: UB('_set.erase of a range with last before first', None), note='_set.erase: first <= last')
                return self.as_sit(vs[1], p0, n, with_b, '_set.erase')
            return self.as_sit(vs[0], path, n, with_a, '_set.erase')
        if name == 'extract' and len(vs) == 1 and vs[0][0] == 'sit':
            # extract(position): the element leaves the backing set in its node handle
            def got(p, v):
                p = p.copy()
                p.set = f'{atom(st)}.eraseIdx {atom(vs[0][1])}'
                return k(p, ('snode', ('osome', v[1])))
            return self.deref(path, st, vs[0][1], n, got)
        if name == 'extract' and len(vs) == 1 and vs[0][0] == 'elem':
            # extract(key): `_set.find(key)`, then as above; an empty node handle when absent
            p = path.copy()
            var = self.fresh(p, 'r')
            iv = self.fresh(p, 'i')
            pa, pb = p.copy(), p.copy()
            def got(q, v):
                q = q.copy()
                q.set = f'{atom(st)}.eraseIdx {iv}'
                return k(q, ('snode', ('osome', v[1])))
            return Let(var, f'Sets.findC lt {atom(st)} {atom(vs[0][1])}',
                       MatchOpt(f'{var}.1', iv, k(pa, ('snode', ('onone',))), self.deref(pb, st, iv, n, got), line_of(n),
                                what='the backing set: key absent / found at an index'), line_of(n))
        if name == 'swap' and len(vs) == 1 and vs[0][0] == 'oset':
            p = path.copy()
            p.set, p.oset = path.oset, path.set
            return k(p, ('void',))
        if name == 'find' and len(vs) == 1 and vs[0][0] == 'elem':
            return k(path, ('sit', f'(Sets.findC lt {atom(st)} {atom(vs[0][1])}).1.getD {atom(st)}.length'))
        if name == 'count' and len(vs) == 1 and vs[0][0] == 'elem':
            return k(path, ('bt', f'(Sets.findC lt {atom(st)} {atom(vs[0][1])}).1.isSome', True))
        if name == 'erase' and len(vs) == 1 and vs[0][0] == 'elem':
            p = path.copy()
            var = self.fresh(p, 'r')
            p.set = f'{var}.1'
            return Let(var, f'Sets.eraseKey lt {atom(st)} {atom(vs[0][1])}', k(p, ('n', f'{var}.2.1')), line_of(n))
        if name == 'erase' and len(vs) == 1 and vs[0][0] in ('sit', 'pit'):
            def with_it(p0, it):
                def go(p):
                    p = p.copy()
                    p.set = f'{atom(st)}.eraseIdx {atom(it[1])}'
                    return k(p, ('sit', it[1]))
                return self.fork(p0, f'{it[1]} < {atom(st)}.length', line_of(n), go,
                                 lambda p: UB('_set.erase of an iterator outside [begin, end)', None), note='_set.erase')
            return self.as_sit(vs[0], path, n, with_it, '_set.erase')
        if name == 'clear' and not vs:
            p = path.copy()
            p.set = '[]'
            return k(p, ('void',))
        if name == 'merge' and len(vs) == 1 and vs[0][0] == 'oset':
            p = path.copy()
            var = self.fresh(p, 'r')
            p.set = f'{var}.1'
            oset = p.oset
            p.oset = f'{var}.2'
            return Let(var, f'Sets.mergeFrom lt {atom(st)} {atom(oset)}', k(p, ('void',)), line_of(n))
        raise Unsupported(f'{where(n)}: member `{name}` of the backing set with argument kinds ({", ".join(v[0] for v in vs)}) is outside the translated subset')

    def ovec_prim(self, n, name, vs, path, k):
        """`o._vec` inside the recognised loop body: only `o._vec.erase(oit)`"""
        if self.mode == 'step' and name == 'erase' and len(vs) == 1 and vs[0][0] == 'cursor':
            if path.cursor is not None:
                raise Unsupported(f'{where(n)}: the loop iterator is advanced twice on a path')
            p = path.copy()
            p.cursor = 'erase'
            return k(p, ('cur_erase',))
        if self.mode == 'member' and path.ovec is not None and not vs:
            if name in ('begin', 'cbegin'):
                return k(path, ('ovit', '0'))
            if name in ('end', 'cend'):
                return k(path, ('ovit', f'{atom(path.ovec)}.length'))
            if name == 'size':
                return k(path, ('n', f'{atom(path.ovec)}.length'))
        raise Unsupported(f'{where(n)}: member `{name}` of the inline vector of the other set is outside the recognised loop shape')

    def oset_prim(self, n, name, vs, path, k):
        """`o._set`: read access only"""
        if self.mode == 'member' and path.oset is not None and not vs:
            if name in ('begin', 'cbegin'):
                return k(path, ('osit', '0'))
            if name in ('end', 'cend'):
                return k(path, ('osit', f'{atom(path.oset)}.length'))
            if name == 'size':
                return k(path, ('n', f'{atom(path.oset)}.length'))
            if name == 'key_comp':
                # the comparator object stored in the other set: `lt_o` in a const member on two sets (the relational
                # operators); in `swap` / `merge` both sets share the comparator `lt` of the model.  The owner is remembered
                # so that its use can be checked
                return k(path, ('comp', self.other_lt, 'o'))
        raise Unsupported(f'{where(n)}: member `{name}` of the backing set of the other set is outside the translated subset')

    def other_member(self, n, me, name, args, path, k):
        """members called on the other set `o` (merge): only `o.isSmall()`, inlined on o's state"""
        decl = self.by_id.get(me.get('referencedMemberDecl'))
        if decl is not None and name == 'isSmall' and not args and self.targets.get(decl['id']) == 'isSmall' and path.oset is not None:
            return k(path, ('bt', f'isSmallOf {arg(state_term(path.ovec, path.oset))}', True))
        if decl is not None and path.oset is not None and decl['id'] in self.targets and self.is_const(decl) \
                and self.targets[decl['id']] in self.sigs and not self.sigs[self.targets[decl['id']]][0] and not args:
            lean = self.targets[decl['id']]
            p = path.copy()
            var = self.fresh(p, 'r')
            p.csyms = p.csyms + (f'{var}.2',)
            return Bind(' '.join([lean, self.other_lt, 'N', arg(state_term(p.ovec, p.oset))]), var,
                        k(p, self.from_term(f'{var}.1', self.sigs[lean][1])), line_of(n))
        if decl is not None and path.oset is not None and has_body(decl) and self.is_const(decl) and not args \
                and str(decl.get('_file')).endswith(HEADER) and len(path.frames) <= 8:
            p = path.copy()
            p.frames.append({'$self': 'o'})
            def kret(q, v):
                q = q.copy()
                q.frames.pop()
                return k(q, v)
            return self.exec_block([body_of(decl)], p, lambda q: self.fall_off(decl, q, kret), kret)
        raise Unsupported(f'{where(n)}: member `{name}` called on the other set')

    def call_member(self, n, me, name, args, path, k):
        mid = me.get('referencedMemberDecl')
        decl = self.by_id.get(mid)
        if decl is None:
            raise Unsupported(f'{where(n)}: call of SmallSet member `{name}`, whose declaration is not in the instantiation')
        if mid in self.targets:
            lean = self.targets[mid]
            if lean not in self.sigs:
                raise Unsupported(f'{where(n)}: `{name}` is called before it is generated (order of TARGETS)')
            pk, rk = self.sigs[lean]
            def cont(p, vs):
                if len(vs) != len(pk):
                    raise Unsupported(f'{where(n)}: call of `{name}` with {len(vs)} arguments')
                terms = []
                i = 0
                while i < len(pk):
                    v, kd = vs[i], pk[i]
                    if kd == 'range':
                        if i + 1 >= len(pk) or pk[i + 1] != 'range' or v[0] != 'rit' or vs[i + 1][0] != 'rit' or v[1] != vs[i + 1][1]:
                            raise Unsupported(f'{where(n)}: call of `{name}` with something else than an input range')
                        terms.append(atom(self.sub_list(v[1], v[2], vs[i + 1][2])))
                        i += 1
                    elif kd == 'ilist':
                        if v[0] != 'ilist':
                            raise Unsupported(f'{where(n)}: call of `{name}` with a {v[0]} for an initializer_list')
                        terms.append(atom(v[1]))
                    elif kd in ('node', 'comp', 'alloc'):
                        raise Unsupported(f'{where(n)}: call of `{name}`: a parameter of kind {kd} cannot be passed')
                    else:
                        terms.append(atom(self.to_term(v, kd, n)))
                    i += 1
                p = p.copy()
                for ex in self.extras_of.get(lean, []):
                    self.use_extra(ex)
                call = ' '.join([lean] + self.SELF_ARGS + [arg(state_term(p.vec, p.set))] + terms + self.extras_of.get(lean, []))
                if self.is_const(decl) and self.memo_const and call in p.memo:
                    # the same const member on the same state: the value already bound (its calls are counted again)
                    var = p.memo[call]
                    p.csyms = p.csyms + (f'{var}.2',)
                    return k(p, self.from_term(f'{var}.1', rk))
                var = self.fresh(p, 'r')
                if self.is_const(decl):
                    p.csyms = p.csyms + (f'{var}.2',)
                    p.memo[call] = var
                    return Bind(call, var, k(p, self.from_term(f'{var}.1', rk)), line_of(n))
                p.vec, p.set = f'{var}.1.vec', f'{var}.1.set'
                p.csyms = p.csyms + (f'{var}.2.2',)
                return Bind(call, var, k(p, self.from_term(f'{var}.2.1', rk)), line_of(n))
            return self.eval_list(args, path, cont)
        # inline
        if not has_body(decl):
            raise Unsupported(f'{where(n)}: call of SmallSet member `{name}` without a visible body')
        if not str(decl.get('_file')).endswith(HEADER):
            raise Unsupported(f'{where(n)}: member `{name}` is defined in {decl.get("_file")}, not in amc/smallset.hpp')
        if len(path.frames) > 8:
            raise Unsupported(f'{where(n)}: inlining depth exceeded at `{name}`')
        ps = params_of(decl)
        if len(ps) != len(args):
            raise Unsupported(f'{where(n)}: call of `{name}` with {len(args)} arguments for {len(ps)} parameters')
        def cont(p, vs):
            p = p.copy()
            p.frames.append({q['name']: v for q, v in zip(ps, vs)})
            def kret(q, v):
                q = q.copy()
                q.frames.pop()
                return k(q, v)
            return self.exec_block([body_of(decl)], p, lambda q: self.fall_off(decl, q, kret), kret)
        return self.eval_list(args, path, cont)

    def fall_off(self, decl, path, kret):
        if self.ret_text(decl) == 'void':
            return kret(path, ('void',))
        raise Unsupported(f'{where(decl)}: control reaches the end of non-void `{decl.get("name")}`')

    # ---- statements: the one recognised loop ---------------------------------------------------------------------------
    def exec_block(self, stmts, path, knext, kret):
        if stmts and stmts[0].get('kind') == 'ForStmt' and self.mode == 'member' and path.ovec is not None:
            s, rest = stmts[0], stmts[1:]
            return self.merge_loop(s, path, lambda p: self.exec_block(rest, p, knext, kret))
        if stmts and stmts[0].get('kind') == 'DeclStmt' and len(kids(stmts[0])) == 1 and kids(stmts[0])[0].get('kind') == 'CXXRecordDecl':
            # a local struct (the comparison functor of operator<): remembered, checked where it is used
            d = kids(stmts[0])[0]
            self.local_structs[d.get('name')] = d
            return self.exec_block(stmts[1:], path, knext, kret)
        if stmts and stmts[0].get('kind') == 'DeclStmt':
            for d in kids(stmts[0]):
                if d.get('kind') == 'VarDecl' and len(kids(d)) == 1 and self.type_kind(qual(d), d) == 'ff':
                    # `FindFunctor<T> fFunc(key_comp(), *oit);`
                    s, rest = stmts[0], stmts[1:]
                    if len(kids(s)) != 1:
                        raise Unsupported(f'{where(s)}: several declarations in a statement declaring a FindFunctor')
                    def bound(q, v):
                        q = q.copy()
                        q.frames[-1][d['name']] = v
                        return self.exec_block(rest, q, knext, kret)
                    return self.eval(kids(d)[0], path, bound)
        return super().exec_block(stmts, path, knext, kret)

    def merge_loop(self, s, path, after):
        """`for (auto oit = o._vec.begin(); oit != o._vec.end();) BODY`, see the module documentation"""
        c = s.get('inner', [])
        if len(c) != 5:
            raise Unsupported(f'{where(s)}: for statement with {len(c)} parts')
        init, condvar, cond, inc, body = c
        def is_ovec_call(e, member):
            while isinstance(e, dict) and e.get('kind') in ('ImplicitCastExpr', 'ExprWithCleanups', 'MaterializeTemporaryExpr'):
                e = kids(e)[0]
            if not isinstance(e, dict) or e.get('kind') != 'CXXMemberCallExpr' or len(kids(e)) != 1:
                return False
            me = kids(e)[0]
            if me.get('kind') != 'MemberExpr' or me.get('name') != member:
                return False
            ob = kids(me)[0]
            while ob.get('kind') == 'ImplicitCastExpr':
                ob = kids(ob)[0]
            if ob.get('kind') != 'MemberExpr' or ob.get('name') != '_vec':
                return False
            ob = kids(ob)[0]
            return ob.get('kind') == 'DeclRefExpr' and ob.get('referencedDecl', {}).get('kind') == 'ParmVarDecl' \
                and self.lookup(path, ob['referencedDecl']['name'], ob)[0] == 'other'
        def is_var(e, name):
            while isinstance(e, dict) and e.get('kind') == 'ImplicitCastExpr':
                e = kids(e)[0]
            return isinstance(e, dict) and e.get('kind') == 'DeclRefExpr' and e.get('referencedDecl', {}).get('name') == name \
                and e.get('referencedDecl', {}).get('kind') == 'VarDecl'
        ok = isinstance(init, dict) and init.get('kind') == 'DeclStmt' and len(kids(init)) == 1 \
            and kids(init)[0].get('kind') == 'VarDecl' and len(kids(kids(init)[0])) == 1 \
            and is_ovec_call(kids(kids(init)[0])[0], 'begin')
        if not ok:
            raise Unsupported(f'{where(s)}: loop whose initialisation is not `auto it = o._vec.begin()` (only that loop shape is recognised)')
        itname = kids(init)[0]['name']
        if not (isinstance(condvar, dict) and not condvar):
            raise Unsupported(f'{where(s)}: loop with a condition variable')
        ok = isinstance(cond, dict) and cond.get('kind') == 'BinaryOperator' and cond.get('opcode') == '!=' \
            and is_var(kids(cond)[0], itname) and is_ovec_call(kids(cond)[1], 'end')
        if not ok:
            raise Unsupported(f'{where(s)}: loop whose condition is not `{itname} != o._vec.end()` (only that loop shape is recognised)')
        if not (isinstance(inc, dict) and not inc):
            raise Unsupported(f'{where(s)}: loop with an increment expression (only the loop advancing its iterator in the body is recognised)')
        if path.ovec != 'o.vec':
            raise Unsupported(f'{where(s)}: the inline vector of the other set is modified before the loop')
        # the local variables of the enclosing function that the body may read or write: booleans only
        flags = sorted(nm for nm, v in path.frames[-1].items() if v[0] in ('b', 'bt'))
        others = sorted(nm for nm, v in path.frames[-1].items() if v[0] not in ('b', 'bt', 'other'))
        if others:
            raise Unsupported(f'{where(s)}: local variables {others} of a kind other than bool are live at the loop')
        if len(flags) != 1:
            raise Unsupported(f'{where(s)}: exactly one boolean local variable is expected to be live at the loop, found {flags}')
        self.loops.append((s, body, itname, flags[0]))
        if len(self.loops) != 1:
            raise Unsupported(f'{where(s)}: more than one loop')
        p = path.copy()
        var = self.fresh(p, 'r')
        fl = self.to_term(path.frames[-1][flags[0]], 'b', s)
        call = f'foldStep (merge_step lt N) {atom(p.ovec)} {arg(state_term(p.vec, p.set))} {atom(fl)} []'
        p.vec, p.set = f'{var}.1.vec', f'{var}.1.set'
        p.ovec = f'{var}.2.2.1'
        p.csyms = p.csyms + (f'{var}.2.2.2',)
        p.frames[-1][flags[0]] = ('bt', f'{var}.2.1', True)
        return Bind(call, var, after(p), line_of(s))

    # ---- definitions -----------------------------------------------------------------------------------------------
    def header(self, decl, const, what):
        ps = params_of(decl)
        kinds = ', '.join(self.sel_kinds(decl))
        two_const = const and 'other' in self.sel_kinds(decl)
        return (f'/-- smallset.hpp:{line_of(decl)} `{decl.get("name")}({kinds}){" const" if const else ""}`: '
                f'({"" if const else "state, "}{what}, comparator calls of the inline scans); `none` = undefined behaviour'
                + ('; `lt` / `lt_o` = the comparator objects stored in `*this` / in the other set' if two_const else '') + ' -/')

    def translate(self, decl, lean):
        self.mode = 'member'
        self.loops = []
        self.aux_defs, self.aux_names, self.extras = [], [], []
        self.aux_text = {}
        self.cur_lean = lean
        self.memo_const = lean.startswith('op_')
        ctor = decl.get('kind') == 'CXXConstructorDecl'
        ps = [p for p in params_of(decl)]
        sel = self.sel_kinds(decl)
        self.cur_cpp = f'{decl.get("name")}({", ".join(sel)})'
        rk = self.ret_kind(decl)
        names, kinds, ltys = [], [], []
        path = Path()
        node_param = None
        i = 0
        while i < len(ps):
            p, sk = ps[i], sel[i]
            i += 1
            if sk == 'ignored':
                continue
            nm = p.get('name')
            if not nm:
                raise Unsupported(f'{where(decl)}: unnamed parameter')
            lnm = nm + '_' if nm in RESERVED else nm
            if sk in ('cref', 'rref'):
                kinds.append('elem'); names.append(lnm); ltys.append('α')
                path.frames[-1][nm] = ('elem', lnm)
            elif sk == 'key':
                kinds.append('key'); names.append(lnm); ltys.append('κ')
                path.frames[-1][nm] = ('key', lnm)
            elif sk == 'iter':
                kinds.append('ssit'); names.append(lnm); ltys.append('Bool × Nat')
                path.frames[-1][nm] = ('pit', f'{lnm}.1', f'{lnm}.2')
            elif sk == 'range':
                if i >= len(ps) or sel[i] != 'range' or (nm, ps[i].get('name')) != ('first', 'last'):
                    raise Unsupported(f'{where(decl)}: an input range is expected to be two consecutive parameters `first`, `last`')
                kinds += ['range', 'range']; names.append('vs'); ltys.append('List α')
                path.frames[-1][nm] = ('rit', 'vs', '0')
                path.frames[-1][ps[i]['name']] = ('rit', 'vs', 'vs.length')
                i += 1
            elif sk == 'ilist':
                kinds.append('ilist'); names.append(lnm); ltys.append('List α')
                path.frames[-1][nm] = ('ilist', lnm)
            elif sk == 'comp':
                kinds.append('comp')
                path.frames[-1][nm] = ('comp',)        # the comparator of the model is the comparator object handed to the backing set
            elif sk == 'alloc':
                kinds.append('alloc')
                path.frames[-1][nm] = ('alloc',)
            elif sk == 'node':
                if node_param is not None:
                    raise Unsupported(f'{where(decl)}: two node handles')
                kinds.append('node'); names.append(lnm); ltys.append('Option α')
                node_param = (nm, lnm)
            elif sk == 'other':
                if nm != 'o':
                    raise Unsupported(f'{where(decl)}: the other set is expected to be called `o`')
                kinds.append('other')
                path.frames[-1][nm] = ('other',)
                path.ovec, path.oset = 'o.vec', 'o.set'
            else:
                raise Unsupported(f'{where(decl)}: parameter `{nm}` of type `{dq(p)}`')
        self.param_names = set(names)
        const = (not ctor) and self.is_const(decl)
        two = path.ovec is not None
        # a const member on two sets says which comparator object orders which side: `lt` for *this, `lt_o` for the other set
        self.other_lt = 'lt_o' if (two and const) else 'lt'
        if ctor:
            path.vec, path.set = None, None
        out_modes = set()
        def kret(p, v):
            if len(p.frames) != 1:
                raise Unsupported(f'{where(decl)}: internal error, unbalanced frames')
            if const and (p.vec != 's.vec' or p.set != 's.set'):
                raise Unsupported(f'{where(decl)}: const member `{decl.get("name")}` modifies the content')
            if p.vec is None or p.set is None:
                raise Unsupported(f'{where(decl)}: a data member is never initialised')
            ret = self.to_term(v, rk, decl)
            if node_param is not None:
                nv = p.frames[0][node_param[0]]
                if nv[1][0] == 'omoved':
                    out_modes.add('moved')
                else:
                    out_modes.add('kept')
                    ret = f'({ret}, {self.node_term(nv[1], decl)})'
            if const:
                return Leaf(None, ret, p.calls_term(), None)
            st = state_term(p.vec, p.set)
            if two:
                st = f'{st}, {state_term(p.ovec, p.oset)}'
            return Leaf(st, ret, p.calls_term(), None)
        def run(p):
            if ctor:
                return self.ctor_inits(decl, p, lambda q: self.exec_block([body_of(decl)], q, lambda r: kret(r, ('void',)), kret))
            return self.exec_block([body_of(decl)], p, lambda q: self.fall_off(decl, q, kret), kret)
        if node_param is not None:
            pa, pb = path.copy(), path.copy()
            var = self.fresh(pb, 'x')
            pa.frames[-1][node_param[0]] = ('node', ('onone',))
            pb.frames[-1][node_param[0]] = ('node', ('osome', var))
            tree = MatchOpt(node_param[1], var, run(pa), run(pb), line_of(decl))
        else:
            tree = run(path)
        if len(out_modes) > 1:
            raise Unsupported(f'{where(decl)}: the node handle passed in is moved from on some paths only')
        sig_params = ''.join(f' ({nm} : {ty})' for nm, ty in zip(names, ltys))
        if two and const:
            sig_params = ' (lt_o : α → α → Bool) (o : Sets.SSet α)' + sig_params
            self.two_const.add(lean)
        elif two:
            sig_params = ' (o : Sets.SSet α)' + sig_params
        sig_params += ''.join(f' ({ex} : α → α → Bool)' for ex in self.extras)
        self.extras_of[lean] = list(self.extras)
        rty0 = self.lean_type(rk)
        if node_param is not None and out_modes == {'kept'}:
            rty0 = f'({atom(rty0) if "×" in rty0 else rty0} × Option α)'
        elif '×' in rty0:
            rty0 = atom(rty0)
        if const:
            rty = f'Option ({rty0} × Nat)'
        elif two:
            rty = f'Option (Sets.SSet α × Sets.SSet α × {rty0} × Nat)'
        else:
            rty = f'Option (Sets.SSet α × {rty0} × Nat)'
        out = list(self.aux_defs)
        if self.loops:
            out.append(self.translate_step(decl, *self.loops[0]))
            self.mode = 'member'
        what = 'returned value' if (not two or const) else 'state of the other set, returned value'
        if node_param is not None and out_modes == {'kept'}:
            what = what.replace('returned value', '(returned value, node handle left to the caller)')
        if ctor:
            head = f'def {lean} (lt : α → α → Bool) (N : Nat){sig_params} : {rty} :='
        else:
            head = f'def {lean} {self.SELF_PARAMS} (s : Sets.SSet α){sig_params} : {rty} :='
        out += [self.header(decl, const, what), head]
        out += self.emit(tree, 1)
        self.other_lt = 'lt'
        self.sigs[lean] = (kinds, rk)
        self.ctors = getattr(self, 'ctors', set())
        if ctor:
            self.ctors.add(lean)
        return '\n'.join(out) + '\n'

    def ctor_inits(self, decl, path, k):
        """the member initialiser list of a constructor: `_vec` (default: empty), `_set(comp, alloc)` (empty set holding the
        comparator of the model), or a delegation to another generated constructor"""
        inits = [c for c in kids(decl) if c.get('kind') == 'CXXCtorInitializer']
        p = path.copy()
        def do(rest, p):
            if not rest:
                return k(p)
            ci = rest[0]
            e = kids(ci)
            if len(e) != 1:
                raise Unsupported(f'{where(decl)}: constructor initialiser with {len(e)} expressions')
            e = e[0]
            if 'anyInit' in ci and ci['anyInit'].get('name') == '_vec':
                ce = peel(e)
                if ce.get('kind') != 'CXXConstructExpr' or kids(ce):
                    raise Unsupported(f'{where(e)}: `_vec` is initialised otherwise than by default')
                q = p.copy()
                q.vec = '[]'
                return do(rest[1:], q)
            if 'anyInit' in ci and ci['anyInit'].get('name') == '_set':
                ce = peel(e)
                if ce.get('kind') != 'CXXConstructExpr':
                    raise Unsupported(f'{where(e)}: `_set` is initialised by a {ce.get("kind")}')
                def cont(q, vs):
                    if [v[0] for v in vs] != ['comp', 'alloc']:
                        raise Unsupported(f'{where(e)}: `_set` constructed from ({", ".join(v[0] for v in vs)})')
                    q = q.copy()
                    q.set = '[]'
                    return do(rest[1:], q)
                return self.eval_list(kids(ce), p, cont)
            if 'delegatingInit' in ci:
                ce = peel(e)
                if ce.get('kind') != 'CXXConstructExpr' or len(inits) != 1:
                    raise Unsupported(f'{where(e)}: delegating initialiser of an unknown shape')
                cty = ce.get('ctorType', {}).get('qualType')
                tg = [mid for mid in self.targets if self.by_id[mid].get('kind') == 'CXXConstructorDecl' and qual(self.by_id[mid]) == cty]
                if len(tg) != 1 or self.targets[tg[0]] not in self.sigs:
                    raise Unsupported(f'{where(e)}: delegation to a constructor that is not generated (`{cty}`)')
                lean = self.targets[tg[0]]
                pk, _ = self.sigs[lean]
                def cont(q, vs):
                    if len(vs) != len(pk):
                        raise Unsupported(f'{where(e)}: delegation with {len(vs)} arguments')
                    terms = []
                    i = 0
                    while i < len(pk):
                        v, kd = vs[i], pk[i]
                        if kd == 'range':
                            if v[0] != 'rit' or vs[i + 1][0] != 'rit' or v[1] != vs[i + 1][1]:
                                raise Unsupported(f'{where(e)}: delegation with something else than an input range')
                            terms.append(atom(self.sub_list(v[1], v[2], vs[i + 1][2])))
                            i += 1
                        elif kd == 'ilist':
                            terms.append(atom(v[1]))
                        elif kd in ('comp', 'alloc'):
                            if v[0] != kd:
                                raise Unsupported(f'{where(e)}: delegation with a {v[0]} for a {kd}')
                        else:
                            raise Unsupported(f'{where(e)}: delegation: parameter kind {kd}')
                        i += 1
                    q = q.copy()
                    var = self.fresh(q, 'r')
                    q.vec, q.set = f'{var}.1.vec', f'{var}.1.set'
                    q.csyms = q.csyms + (f'{var}.2.2',)
                    return Bind(' '.join([lean, 'lt', 'N'] + terms), var, do(rest[1:], q), line_of(e))
                return self.eval_list(kids(ce), p, cont)
            raise Unsupported(f'{where(decl)}: constructor initialiser of an unknown kind')
        return do(inits, p)

    in_loop_body = False

    def loop(self, s, path, after):
        """`while (COND) BODY` whose only live local state is one iterator of an input range (`first`): COND and BODY become
        `<member>_step` (state, index) -> (another round?, state, index, calls), iterated by `whileFuel` with the fuel
        `vs.length + 1` (enough when every round consumes an element of the range: to be proved)."""
        if self.mode != 'member' or len(path.frames) != 1 or s.get('kind') != 'WhileStmt' or path.ovec is not None:
            raise Unsupported(f'{where(s)}: statement kind {s.get("kind")} is outside the translated subset (only the recognised loops)')
        if any(a.endswith('_step') for a in self.aux_names):
            raise Unsupported(f'{where(s)}: more than one loop in a member')
        c = kids(s)
        if len(c) != 2:
            raise Unsupported(f'{where(s)}: while statement of an unknown shape')
        cond, body = c
        rits = [(nm, v) for nm, v in path.frames[-1].items() if v[0] == 'rit']
        rest = [nm for nm, v in path.frames[-1].items() if v[0] not in ('rit', 'alloc', 'comp')]
        if rest or len(rits) != 2 or rits[0][1][1] != rits[1][1][1] or rits[1][1][2] != f'{rits[0][1][1]}.length':
            raise Unsupported(f'{where(s)}: only the two ends of one input range may be live at the loop')
        (fname, fv), (lname_, lv) = rits
        rng = fv[1]
        name = f'{self.cur_lean}_step'
        self.aux_names.append(name)
        sub = Path()
        sub.frames = [dict(path.frames[-1])]
        sub.frames[-1][fname] = ('rit', rng, fname)
        saved = (self.param_names, self.mode)
        self.param_names, self.mode = {fname, rng}, 'range_step'
        def leaf(p, cont):
            w = p.frames[-1][fname]
            if p.frames[-1][lname_] != lv:
                raise Unsupported(f'{where(s)}: the loop modifies the end of the input range')
            return Leaf(None, f'{cont}, ({state_term(p.vec, p.set)}, {w[2]})', p.calls_term(), None)
        def kret(p, v):
            raise Unsupported(f'{where(s)}: return inside the loop body')
        tree = self.eval(cond, sub, lambda p, v: self.branch(
            v, p, cond, lambda q: self.exec_block([body], q, lambda r: leaf(r, 'true'), kret), lambda q: leaf(q, 'false')))
        self.param_names, self.mode = saved
        doc = (f'/-- smallset.hpp:{line_of(s)} condition and body of the loop of `{self.cur_cpp}` over the input range `{rng}`: '
               f'(another round?, (state, `{fname}`), comparator calls of the inline scans) -/')
        sig = (f'def {name} (lt : α → α → Bool) (N : Nat) (s : Sets.SSet α) ({rng} : List α) ({fname} : Nat) : '
               f'Option (Bool × (Sets.SSet α × Nat) × Nat) :=')
        self.aux_defs.append('\n'.join([doc, sig] + self.emit(tree, 1)) + '\n')
        p = path.copy()
        var = self.fresh(p, 'r')
        call = (f'whileFuel (fun st => {name} lt N st.1 {rng} st.2) ({atom(rng)}.length + 1) '
                f'({state_term(p.vec, p.set)}, {fv[2]})')
        p.vec, p.set = f'{var}.1.1.vec', f'{var}.1.1.set'
        p.frames[-1][fname] = ('rit', rng, f'{var}.1.2')
        p.csyms = p.csyms + (f'{var}.2',)
        return Bind(call, var, after(p), line_of(s))

    def translate_step(self, decl, loop, body, itname, flag):
        """the body of the recognised loop as a function of (state, flag, element)"""
        self.mode = 'step'
        path = Path()
        path.ovec, path.oset = 'o.vec', 'o.set'      # never read: `o._vec` is only reachable through the loop iterator
        lflag = flag + '_' if flag in RESERVED else flag
        self.param_names = {lflag, 'x'}
        path.frames[-1][flag] = ('bt', lflag, True)
        path.frames[-1][itname] = ('cursor',)
        path.frames[-1]['o'] = ('other',)
        def kend(p):
            if p.cursor is None:
                raise Unsupported(f'{where(loop)}: a path of the loop body does not advance the loop iterator')
            fl = self.to_term(self.lookup(p, flag, loop), 'b', loop)
            if p.ovec != 'o.vec' or p.oset != 'o.set':
                raise Unsupported(f'{where(loop)}: the loop body modifies the other set otherwise than by `o._vec.erase(oit)`')
            return Leaf(state_term(p.vec, p.set), f'{fl}, {"true" if p.cursor == "erase" else "false"}', p.calls_term(), None)
        def kret(p, v):
            raise Unsupported(f'{where(loop)}: return inside the loop body')
        tree = self.exec_block([body], path, kend, kret)
        out = [f'/-- smallset.hpp:{line_of(loop)} body of the loop of `{decl.get("name")}` over the elements `x` of `o._vec`: '
               f'(state, `{flag}`, element erased from `o._vec`?, comparator calls of the inline scans) -/',
               f'def merge_step (lt : α → α → Bool) (N : Nat) (s : Sets.SSet α) ({lflag} : Bool) (x : α) : '
               f'Option (Sets.SSet α × Bool × Bool × Nat) :=']
        out += self.emit(tree, 1)
        return '\n'.join(out) + '\n'

    def translate_functor(self):
        self.mode = 'functor'
        decl = self.functor_call
        ps = params_of(decl)
        if len(ps) != 1 or dq(ps[0]) != 'const int &' or self.ret_text(decl) != 'bool' or not self.is_const(decl):
            raise Unsupported(f'{where(decl)}: FindFunctor::operator() is expected to be `bool (const_reference) const`')
        nm = ps[0].get('name')
        lnm = nm + '_' if nm in RESERVED or nm == 'k' else nm
        self.param_names = {'k', lnm}
        path = Path()
        path.frames[-1][nm] = ('elem', lnm)
        def kret(p, v):
            return Leaf(None, self.to_term(v, 'b', decl), p.calls_term(), None)
        tree = self.exec_block([body_of(decl)], path, lambda p: self.fall_off(decl, p, kret), kret)
        out = [f'/-- smallset.hpp:{line_of(decl)} `FindFunctor::operator()(cref) const` of a functor built on the key `k`: '
               f'(returned value, comparator calls) -/',
               f'def FindFunctor_call (lt : α → α → Bool) (k : α) ({lnm} : α) : Option (Bool × Nat) :=']
        out += self.emit(tree, 1)
        self.mode = 'member'
        return '\n'.join(out) + '\n'


HET_KEY, HET_COMP = F.HET_KEY, F.HET_COMP
HKEY = f'const {HET_KEY} &'


def inst_source_het(set_type, n):
    ss = f'amc::SmallSet<int, {n}, {HET_COMP}, amc::allocator<int>, {set_type}>'
    return f'''#include <amc/smallset.hpp>
#include <amc/flatset.hpp>
struct {HET_KEY} {{ int d; }};
struct {HET_COMP} {{
  using is_transparent = void;
  bool operator()(int, int) const;
  bool operator()(int, const {HET_KEY} &) const;
  bool operator()(const {HET_KEY} &, int) const;
}};
using SH = {ss};
template SH::const_iterator SH::find<{HET_KEY}, true>(const {HET_KEY} &) const;
template bool SH::contains<{HET_KEY}, true>(const {HET_KEY} &) const;
template SH::size_type SH::count<{HET_KEY}, true>(const {HET_KEY} &) const;
'''


INSTANTIATIONS_HET = [
    (f'amc::FlatSet<int, {HET_COMP}>', f'amc::FlatSet<int, {HET_COMP}, amc::allocator<int>>', 5),
    (f'std::set<int, {HET_COMP}>', f'std::set<int, {HET_COMP}, amc::allocator<int>>', 7),
]

# the heterogeneous lookups (callees first); `isSmall()` is inlined
TARGETS_HET = [
    ('find_small', ('key',), 'find_small_het'),
    ('find', ('key',), 'find_het'),
    ('contains', ('key',), 'contains_het'),
    ('count', ('key',), 'count_het'),
]


class HetTranslator(Translator):
    """the heterogeneous lookups `f(const K &)` of `amc::SmallSet<int, N, TLess, …>` with K = HetKey.  The comparator object
    is the triple of Lean functions (lt, ltEK, ltKE) = the three call operators of TLess."""
    FUNCTOR_ARG = HET_KEY
    SELF_PARAMS = '(lt : α → α → Bool) (ltEK : α → κ → Bool) (ltKE : κ → α → Bool) (N : Nat)'
    SELF_ARGS = ['lt', 'ltEK', 'ltKE', 'N']
    OVERLOADS = F.HetTranslator.OVERLOADS
    arg_type = staticmethod(F.HetTranslator.arg_type)
    comp_overload = F.HetTranslator.comp_overload

    def target_table(self):
        return TARGETS_HET

    def __init__(self, spec, inst, comp_decl):
        super().__init__(spec, inst)
        ops = sorted(qual(m) for m in kids(comp_decl) if m.get('kind') == 'CXXMethodDecl' and m.get('name') == 'operator()')
        if ops != sorted(self.OVERLOADS):
            raise Unsupported(f'the call operators of {HET_COMP} are {ops}, expected {sorted(self.OVERLOADS)}')
        if not any(m.get('kind') == 'TypeAliasDecl' and m.get('name') == 'is_transparent' for m in kids(comp_decl)):
            raise Unsupported(f'{HET_COMP} has no member type `is_transparent`')
        targs = [qual(a) for a in kids(spec) if a.get('kind') == 'TemplateArgument']
        if len(targs) != 5 or targs[0] != 'int' or targs[2] != HET_COMP:
            raise Unsupported(f'the template arguments of the SmallSet with the transparent comparator are {targs}')

    def sel_kinds(self, m):
        out = []
        for p, kd in zip(params_of(m), super().sel_kinds(m)):
            out.append('key' if dq(p) == HKEY else kd)
        return tuple(out)

    def type_kind(self, ty, n):
        if isinstance(n, dict) and qual(n) == ty:
            ty = dq(n)
        t = strip_cvref(ty)
        if t == HET_KEY:
            return 'key'
        if t == HET_COMP:
            return 'comp'
        if t.endswith(f'::FindFunctor<{HET_KEY}>'):
            return 'ff'
        if t in ('std::less<int>',) or t.endswith('::FindFunctor<int>'):
            raise Unsupported(f'{where(n) if isinstance(n, dict) else "smallset.hpp:?"}: type `{ty}` inside the SmallSet with the '
                              f'transparent comparator')
        return super().type_kind(ty, None if not isinstance(n, dict) else n)

    def lean_type(self, kind):
        if kind == 'key':
            return 'κ'
        return super().lean_type(kind)

    def to_term(self, v, kind, n):
        if kind == 'key':
            if v[0] != 'key':
                raise Unsupported(f'{where(n)}: a key of another type was expected, found {v[0]}')
            return v[1]
        return super().to_term(v, kind, n)

    @staticmethod
    def is_comp_type(t):
        return t == HET_COMP or re.fullmatch(r'amc::SmallSet<int, .*>::key_compare', t, re.S) is not None

    def e_MemberExpr(self, n, path, k):
        if self.mode == 'functor' and n.get('name') == '_k':
            def cont(p, v):
                if v[0] != 'thisptr':
                    raise Unsupported(f'{where(n)}: member access `._k` on a {v[0]}')
                return k(p, ('key', 'k'))
            return self.eval(kids(n)[0], path, cont)
        return super().e_MemberExpr(n, path, k)

    def construct(self, n, path, k):
        ty = strip_cvref(dq(n))
        args = [a for a in kids(n)]
        if ty.endswith(f'::FindFunctor<{HET_KEY}>') and ty.startswith('amc::SmallSet<int,') and len(args) == 2:
            def cont(p, vs):
                if vs[0][0] != 'comp' or vs[1][0] != 'key' or self.comp_term(vs[0]) != 'lt':
                    raise Unsupported(f'{where(n)}: FindFunctor<{HET_KEY}>({vs[0][0]}, {vs[1][0]})')
                return k(p, ('ff', vs[1][1]))
            return self.eval_list(args, path, cont)
        if ty.endswith(f'::FindFunctor<{HET_KEY}>') and len(args) == 1:    # copy of the functor (passed by value)
            def cont(p, v):
                if v[0] != 'ff':
                    raise Unsupported(f'{where(n)}: FindFunctor constructed from a {v[0]}')
                return k(p, v)
            return self.eval(args[0], path, cont)
        if ty == HET_COMP and len(args) == 1:
            def cont(p, v):
                if v[0] != 'comp':
                    raise Unsupported(f'{where(n)}: comparator constructed from a {v[0]}')
                return k(p, v)
            return self.eval(args[0], path, cont)
        if ty == HET_COMP:
            raise Unsupported(f'{where(n)}: construction of a comparator `{HET_COMP}` with {len(args)} argument(s)')
        return super().construct(n, path, k)

    e_CXXConstructExpr = construct
    e_CXXTemporaryObjectExpr = construct

    def scan_term(self, n, lst, fn, start):
        return f'Sets.findSmallHet ltEK ltKE {lst} {atom(fn[1])} {start}'

    def e_CallExpr(self, n, path, k):
        c = kids(n)
        callee = c[0]
        while callee.get('kind') == 'ImplicitCastExpr':
            callee = kids(callee)[0]
        rd = callee.get('referencedDecl', {})
        if callee.get('kind') == 'DeclRefExpr' and rd.get('kind') == 'FunctionDecl' and rd.get('name') == 'count_if' and len(c) == 4:
            # std::count_if(_vec.begin(), _vec.end(), FindFunctor<K>(key_comp(), k)): the number of inline elements on which the
            # functor answers true (a difference_type, never negative)
            def cont(p, vs):
                first, last, fn = vs
                if first[0] != 'vit' or last[0] != 'vit' or fn[0] != 'ff':
                    raise Unsupported(f'{where(n)}: std::count_if({first[0]}, {last[0]}, {fn[0]}): only a range of the inline vector '
                                      f'with a FindFunctor is known')
                p = p.copy()
                var = self.fresh(p, 'r')
                term = f'Sets.countSmallHet ltEK ltKE {atom(self.sub_list(p.vec, first[1], last[1]))} {atom(fn[1])}'
                p.csyms = p.csyms + (f'{var}.2',)
                return Let(var, term, k(p, ('n', f'{var}.1')), line_of(n))
            return self.eval_list(c[1:], path, cont)
        return super().e_CallExpr(n, path, k)

    def set_prim(self, n, name, vs, path, k):
        st = path.set
        if name == 'find' and len(vs) == 1 and vs[0][0] == 'key':
            return k(path, ('sit', f'Sets.findHetIdx ltEK ltKE {atom(st)} {atom(vs[0][1])}'))
        if name == 'count' and len(vs) == 1 and vs[0][0] == 'key':
            return k(path, ('n', f'Sets.countHet ltEK ltKE {atom(st)} {atom(vs[0][1])}'))
        if any(v[0] == 'key' for v in vs):
            raise Unsupported(f'{where(n)}: member `{name}` of the backing set with a key of another type is outside the translated subset')
        return super().set_prim(n, name, vs, path, k)

    def translate_functor(self):
        self.mode = 'functor'
        decl = self.functor_call
        ps = params_of(decl)
        if len(ps) != 1 or dq(ps[0]) != 'const int &' or self.ret_text(decl) != 'bool' or not self.is_const(decl):
            raise Unsupported(f'{where(decl)}: FindFunctor::operator() is expected to be `bool (const_reference) const`')
        ftys = [dq(m) for m in kids(self.functor) if m.get('kind') == 'FieldDecl']
        if ftys != [HET_COMP, HKEY]:
            raise Unsupported(f'{where(self.functor)}: the data members of FindFunctor<{HET_KEY}> have the types {ftys}')
        nm = ps[0].get('name')
        lnm = nm + '_' if nm in RESERVED or nm == 'k' else nm
        self.param_names = {'k', lnm}
        path = Path()
        path.frames[-1][nm] = ('elem', lnm)
        def kret(p, v):
            return Leaf(None, self.to_term(v, 'b', decl), p.calls_term(), None)
        tree = self.exec_block([body_of(decl)], path, lambda p: self.fall_off(decl, p, kret), kret)
        out = [f'/-- smallset.hpp:{line_of(decl)} `FindFunctor<K>::operator()(cref) const` of a functor built on the key `k` of another type: '
               f'(returned value, comparator calls) -/',
               f'def FindFunctor_call_het (lt : α → α → Bool) (ltEK : α → κ → Bool) (ltKE : κ → α → Bool) (k : κ) ({lnm} : α) : '
               f'Option (Bool × Nat) :=']
        out += self.emit(tree, 1)
        self.mode = 'member'
        return '\n'.join(out) + '\n'


HET_PRELUDE = f'''/-! Heterogeneous lookups `f(const K &)` (members that exist only for a transparent comparator), translated from the instantiations
''' + ', '.join(f'`amc::SmallSet<int, {n}, {HET_COMP}, amc::allocator<int>, {lab}>`' for lab, st, n in INSTANTIATIONS_HET) + f'''
with K = `{HET_KEY}`, which give the same text: `struct {HET_KEY} {{ int d; }};  struct {HET_COMP} {{ using is_transparent = void;
bool operator()(int, int) const;  bool operator()(int, const {HET_KEY} &) const;  bool operator()(const {HET_KEY} &, int) const; }};`.
The comparator object of the set is the triple `lt` (element, element), `ltEK` (element, key), `ltKE` (key, element) of its call
operators; `κ` is the type of the key. -/

variable {{κ : Type}}
'''


PRELUDE = '''/-- how the source decides the state of another set (`o.isSmall()` inside `merge`) -/
def isSmallOf (o : Sets.SSet α) : Bool := o.set.isEmpty

/-- the loop `for (it = o._vec.begin(); it != o._vec.end();) BODY` where BODY ends with `it = o._vec.erase(it)` or `++it`:
    a fold of the generated body over the elements of `o._vec`; `kept` collects the elements that stay in `o._vec`.
    Result: (state, flag, what is left in `o._vec`, comparator calls) -/
def foldStep (step : Sets.SSet α → Bool → α → Option (Sets.SSet α × Bool × Bool × Nat)) :
    List α → Sets.SSet α → Bool → List α → Option (Sets.SSet α × Bool × List α × Nat)
  | [], s, fl, kept => some (s, fl, kept, 0)
  | x :: rest, s, fl, kept =>
    match step s fl x with
    | none => none
    | some r =>
      match foldStep step rest r.1 r.2.1 (if r.2.2.1 then kept else kept ++ [x]) with
      | none => none
      | some q => some (q.1, q.2.1, q.2.2.1, r.2.2.2 + q.2.2.2)

/-- `operator==` of the backing set: equal sizes and `std::equal`, with `==` of the ELEMENT type -/
def vecEq (eqT : α → α → Bool) : List α → List α → Bool
  | [], [] => true
  | a :: l, b :: o => eqT a b && vecEq eqT l o
  | _, _ => false

/-- `std::lexicographical_compare` (also `operator<` of the backing set), with `<` of the ELEMENT type -/
def vecLess (ltT : α → α → Bool) : List α → List α → Bool
  | _, [] => false
  | [], _ :: _ => true
  | a :: l, b :: o => if ltT a b then true else if ltT b a then false else vecLess ltT l o

/-- `std::is_permutation(f1, l1, f2, l2)` with `==` of the ELEMENT type (`List.isPerm` of the Lean core library) -/
def isPermutation (eqT : α → α → Bool) (l o : List α) : Bool := @List.isPerm α ⟨eqT⟩ l o

/-- `std::sort(v.begin(), v.end(), comp)`: SOME permutation of the elements that is sorted by `comp` (std::sort is not stable);
    all of them coincide when no two elements are equivalent under `comp`; the stable one is taken here -/
def sortedBy (comp : α → α → Bool) (l : List α) : List α := l.mergeSort (fun a b => !comp b a)

/-- a `while` loop whose condition and body are `step` (another round?, new state, comparator calls), run for at most `fuel`
    rounds; running out of fuel is not a result (`none`) -/
def whileFuel {σ : Type} (step : σ → Option (Bool × σ × Nat)) : Nat → σ → Option (σ × Nat)
  | 0, _ => none
  | fuel + 1, s =>
    match step s with
    | none => none
    | some r =>
      if r.1 then
        match whileFuel step fuel r.2.1 with
        | none => none
        | some q => some (q.1, r.2.2 + q.2)
      else
        some (r.2.1, r.2.2)
'''


def find_spec(objs):
    specs = [o for o in objs if o.get('kind') == 'ClassTemplateSpecializationDecl' and o.get('name') == 'SmallSet' and o.get('inner')]
    if not specs:
        for o in objs:
            if o.get('kind') == 'ClassTemplateDecl' and o.get('name') == 'SmallSet':
                specs += [c for c in kids(o) if c.get('kind') == 'ClassTemplateSpecializationDecl' and c.get('inner')]
    if len(specs) != 1:
        raise Unsupported(f'expected exactly one instantiated specialisation of amc::SmallSet, found {len(specs)}')
    return specs[0]


def generate_one(include, set_type, n, inst):
    with tempfile.TemporaryDirectory(prefix='smallset2lean_') as wd:
        src = os.path.join(wd, 'inst_smallset.cpp')
        with open(src, 'w') as f:
            f.write(inst_source(set_type, n))
        objs = clang_dump(include, src, 'SmallSet')
    for o in objs:
        annotate_lines(o)
    tr = Translator(find_spec(objs), inst)
    by_lean = {lean: mid for mid, lean in tr.targets.items()}
    defs = {'FindFunctor_call': tr.translate_functor()}
    for nm, pk, lean in (t[:3] for t in tr.my_targets):
        defs[lean] = tr.translate(tr.by_id[by_lean[lean]], lean)
    return defs


def generate_one_het(include, set_type, n, inst):
    with tempfile.TemporaryDirectory(prefix='smallset2lean_') as wd:
        src = os.path.join(wd, 'inst_smallset_het.cpp')
        with open(src, 'w') as f:
            f.write(inst_source_het(set_type, n))
        objs = clang_dump(include, src, 'SmallSet')
        cobjs = clang_dump(include, src, HET_COMP)
    for o in objs:
        annotate_lines(o)
    tr = HetTranslator(find_spec(objs), inst, F.find_comp_decl(cobjs))
    by_lean = {lean: mid for mid, lean in tr.targets.items()}
    defs = {'FindFunctor_call_het': tr.translate_functor()}
    for nm, pk, lean in (t[:3] for t in tr.my_targets):
        defs[lean] = tr.translate(tr.by_id[by_lean[lean]], lean)
    return defs


def same_texts(order, results, insts):
    texts = []
    for lean in order:
        have = [(insts[i][0], r[lean]) for i, r in enumerate(results) if lean in r]
        if not have:
            raise Unsupported(f'internal error: `{lean}` is generated by no instantiation')
        for lab, t in have[1:]:
            if t != have[0][1]:
                raise Unsupported(f'the instantiations with SetType = {have[0][0]} and SetType = {lab} give different texts for `{lean}`:\n'
                                  f'--- {have[0][0]}\n{have[0][1]}--- {lab}\n{t}')
        texts.append(have[0][1])
    return texts


def generate(include):
    hdr = os.path.join(include, HEADER)
    if not os.path.exists(hdr):
        raise Unsupported(f'{hdr} does not exist')
    results = []
    for inst, (label, set_type, n) in enumerate(INSTANTIATIONS):
        try:
            results.append(generate_one(include, set_type, n, inst))
        except Unsupported as e:
            raise Unsupported(f'[SetType = {label}] {e}')
    order = ['FindFunctor_call'] + [t[2] for t in TARGETS]
    texts = []
    for lean in order:
        have = [(INSTANTIATIONS[i][0], r[lean]) for i, r in enumerate(results) if lean in r]
        if not have:
            raise Unsupported(f'internal error: `{lean}` is generated by no instantiation')
        for lab, t in have[1:]:
            if t != have[0][1]:
                raise Unsupported(f'the instantiations with SetType = {have[0][0]} and SetType = {lab} give different texts for `{lean}`:\n'
                                  f'--- {have[0][0]}\n{have[0][1]}--- {lab}\n{t}')
        texts.append(have[0][1])
    out = ['/- GENERATED by translator/smallset2lean.py from include/amc/smallset.hpp (instantiations '
           + ', '.join(f'amc::SmallSet<int, {n}, std::less<int>, amc::allocator<int>, {lab}>' for lab, st, n in INSTANTIATIONS)
           + ', which give the same text; a definition called `…_ptr` / `…_var` comes from the first / second instantiation only: '
           'the overloads for pointer iterators / variant iterators, or a member that calls them). Do not edit. -/',
           'import AmcVerif.Model.Sets',
           'set_option linter.unusedVariables false',
           'namespace AmcVerif.Gen.SmallSet',
           'open AmcVerif',
           'variable {α : Type}',
           '',
           PRELUDE]
    out += texts
    hresults = []
    for inst, (label, set_type, n) in enumerate(INSTANTIATIONS_HET):
        try:
            hresults.append(generate_one_het(include, set_type, n, inst))
        except Unsupported as e:
            raise Unsupported(f'[SetType = {label}] {e}')
    out.append(HET_PRELUDE)
    out += same_texts(['FindFunctor_call_het'] + [t[2] for t in TARGETS_HET], hresults, INSTANTIATIONS_HET)
    out.append('end AmcVerif.Gen.SmallSet')
    return '\n'.join(out) + '\n'


def main():
    ap = argparse.ArgumentParser()
    ap.add_argument('--include', required=True, help='include directory of the library (contains amc/smallset.hpp)')
    ap.add_argument('--out', required=True, help='generated Lean file (AmcVerif/Gen/SmallSetGen.lean)')
    a = ap.parse_args()
    try:
        text = generate(os.path.abspath(a.include))
    except Unsupported as e:
        print(f'TRANSLATION-BROKEN smallset2lean: {e}', file=sys.stderr)
        sys.exit(2)
    old = open(a.out).read() if os.path.exists(a.out) else None
    if old != text:
        os.makedirs(os.path.dirname(os.path.abspath(a.out)), exist_ok=True)
        with open(a.out, 'w') as f:
            f.write(text)
    print(json.dumps({'ok': True, 'path': a.out, 'sha256': hashlib.sha256(text.encode()).hexdigest(), 'changed': old != text}))


if __name__ == '__main__':
    main()
