#!/usr/bin/env python3
"""flatset2lean -- regenerates, from the *current* include/amc/flatset.hpp, Lean 4 definitions of the decision logic of
amc::FlatSet (insert_hint, insert_val, insert, find, erase(key), lower_bound, upper_bound, contains, count, equal_range).

Method (same as amc2lean.py): clang++-14 dumps the typed JSON AST of the explicit instantiation `amc::FlatSet<int>`;
each selected member body is executed symbolically with path splitting (no state merging).  Abstract domain:

  the sorted vector          a Lean term of type `List α` (initially the parameter `l`)
  an iterator                a Lean `Nat` index (begin() = 0, end() = length of the *current* list)
  `*it`                      `match l[it]? with | none => none | some x => …`: the `none` arm is "dereference of an iterator
                             outside [begin, end)" = undefined behaviour, which makes the whole result `none`
  `it - k` (next(it,-k), prev)  forks on `it < k` (`it = 0` for k = 1); on the true arm the iterator is *poisoned* (it is before
                             begin()): it may be formed and copied, any other use of it makes the result `none`
  `compRef()(a, b)`          `lt a b`, and the comparator-call count of the path is incremented
  `std::lower_bound(f, l, v, comp)`   `Sets.lowerBound lt list v f (l - f)` (hand-written model of the libstdc++ loop)
  `_sortedVector.insert(it, v)`       list := list.insertIdx it v, returns `it`
  `_sortedVector.erase(it)`           list := list.eraseIdx it, returns `it`
  `_sortedVector.push_back(v)`        list := list ++ [v];  `.back()` / `.front()` = dereference of end() - 1 / begin();
                             `.empty()` = (length = 0);  `.size()` = length
  `std::forward`, `std::move`, `T(x)`  identity on element values (moved-from states are not modelled)
  `assert(…)`                ignored

Every generated function has the type `… → Option (List α × R × Nat)`: `none` = undefined behaviour reached, otherwise
(final content, returned value, number of comparator calls).  A FlatSet member that is itself generated is *called*
(`match callee … with | none => none | some r => …`), any other FlatSet member with a visible body (begin, end, mbegin, compRef,
empty, …) is inlined, members of the underlying vector are primitives.

The translator refuses (exit status 2, message naming the construct and its source line) anything outside this subset.
"""
import argparse, json, os, subprocess, sys, tempfile

CLANG = 'clang++-14'
CLANG_TIMEOUT = 300


class Unsupported(Exception):
    pass


INST_SOURCE = '''#include <amc/flatset.hpp>
template class amc::FlatSet<int>;
template std::pair<amc::FlatSet<int>::iterator, bool> amc::FlatSet<int>::emplace<const int &>(const int &);
template amc::FlatSet<int>::iterator amc::FlatSet<int>::emplace_hint<const int &>(amc::FlatSet<int>::const_iterator, const int &);
'''

# (C++ member name, parameter types as clang prints them in the instantiation FlatSet<int>) -> Lean name.
# The order of this table is the order of the generated definitions (callees first).
TARGETS = [
    ('lower_bound', ('amc::FlatSet<int>::const_reference',), 'lower_bound'),
    ('upper_bound', ('amc::FlatSet<int>::const_reference',), 'upper_bound'),
    ('find', ('amc::FlatSet<int>::const_reference',), 'find'),
    ('contains', ('amc::FlatSet<int>::const_reference',), 'contains'),
    ('count', ('amc::FlatSet<int>::const_reference',), 'count'),
    ('equal_range', ('const amc::FlatSet<int>::key_type &',), 'equal_range'),
    ('erase', ('amc::FlatSet<int>::const_reference',), 'erase'),
    ('insert_val', ('const int &',), 'insert_val'),
    ('insert_val', ('int &&',), 'insert_val_rv'),
    ('insert', ('const int &',), 'insert'),
    ('insert', ('int &&',), 'insert_rv'),
    ('insert_hint', ('amc::FlatSet<int>::const_iterator', 'const int &'), 'insert_hint'),
    ('insert_hint', ('amc::FlatSet<int>::const_iterator', 'int &&'), 'insert_hint_rv'),
    ('insert', ('amc::FlatSet<int>::const_iterator', 'const int &'), 'insert_at'),
    ('insert', ('amc::FlatSet<int>::const_iterator', 'int &&'), 'insert_at_rv'),
    ('emplace', ('const int &',), 'emplace'),
    ('emplace_hint', ('amc::FlatSet<int>::const_iterator', 'const int &'), 'emplace_hint'),
]

RESERVED = {'l', 'lt', 'α', 'some', 'none', 'if', 'then', 'else', 'match', 'with', 'let', 'fun', 'def', 'true', 'false'}


# ---------------------------------------------------------------------------------------------------------------------
# clang
# ---------------------------------------------------------------------------------------------------------------------

def parse_concat(src):
    dec = json.JSONDecoder(); i = 0; objs = []
    while i < len(src):
        while i < len(src) and src[i].isspace():
            i += 1
        if i >= len(src):
            break
        o, j = dec.raw_decode(src, i); objs.append(o); i = j
    return objs


def clang_dump(include, src_path, flt):
    cmd = [CLANG, '-std=gnu++17', '-I', include, '-fsyntax-only', '-Xclang', '-ast-dump=json',
           '-Xclang', f'-ast-dump-filter={flt}', src_path]
    try:
        p = subprocess.run(cmd, capture_output=True, text=True, timeout=CLANG_TIMEOUT)
    except subprocess.TimeoutExpired:
        raise Unsupported('clang timed out')
    if p.returncode != 0:
        raise Unsupported('clang failed on the instantiation TU: ' + p.stderr[-2000:])
    return parse_concat(p.stdout)


def annotate_lines(obj):
    """clang prints `line` (and `file`) of a location only when it differs from the previously printed location: make
    every location absolute.  Adds '_line' to every node (line of range.begin, expansion location for macros)."""
    state = {'line': None, 'file': None}

    def loc(d):
        # a bare source location {offset, [file], [line], col, tokLen} or {spellingLoc, expansionLoc}
        if 'spellingLoc' in d or 'expansionLoc' in d:
            for k in ('spellingLoc', 'expansionLoc'):   # clang's order of printing
                if k in d:
                    loc(d[k])
            d['_line'] = d.get('expansionLoc', d.get('spellingLoc', {})).get('_line')
            d['_file'] = d.get('expansionLoc', d.get('spellingLoc', {})).get('_file')
            return
        if 'file' in d:
            state['file'] = d['file']
        if 'line' in d:
            state['line'] = d['line']
        if 'offset' in d:
            d['_line'] = state['line']; d['_file'] = state['file']

    # '_line' is added while iterating: iterate over a snapshot of the items
    def walk_safe(n):
        if isinstance(n, dict):
            for k, v in list(n.items()):
                if k == 'loc' and isinstance(v, dict):
                    loc(v)
                elif k == 'range' and isinstance(v, dict):
                    for kk in ('begin', 'end'):
                        if kk in v:
                            loc(v[kk])
                    n['_line'] = v.get('begin', {}).get('_line')
                    n['_file'] = v.get('begin', {}).get('_file')
                elif isinstance(v, (dict, list)):
                    walk_safe(v)
        elif isinstance(n, list):
            for c in n:
                walk_safe(c)
    walk_safe(obj)


def qual(n):
    return n.get('type', {}).get('qualType', '')


def line_of(n):
    return n.get('_line')


def where(n):
    return f"flatset.hpp:{line_of(n)}" if line_of(n) else 'flatset.hpp:?'


def kids(n):
    return [c for c in n.get('inner', []) if isinstance(c, dict)]


def has_body(m):
    return any(c.get('kind') == 'CompoundStmt' for c in kids(m))


def body_of(m):
    return [c for c in kids(m) if c.get('kind') == 'CompoundStmt'][0]


def params_of(m):
    return [c for c in kids(m) if c.get('kind') == 'ParmVarDecl']


# ---------------------------------------------------------------------------------------------------------------------
# symbolic values
#   ('it', term)        iterator = Nat index (Lean term)
#   ('itbad', why)      poisoned iterator (before begin())
#   ('n', term)         non-negative integer (Lean Nat term)
#   ('int', k)          integer literal (Python int, may be negative)
#   ('b', True|False)   decided boolean;  ('bt', term) symbolic Bool term / Prop term usable after `if`
#   ('elem', term)      element value
#   ('comp',) ('this',) ('thisptr',) ('vec',) ('void',) ('default',)
#   ('pair', a, b)
# ---------------------------------------------------------------------------------------------------------------------

class Path:
    def __init__(self):
        self.lst = 'l'            # Lean term of the current content
        self.ncalls = 0           # comparator calls made directly on this path
        self.csyms = ()           # symbolic call counts (results of lowerBound / of generated callees)
        self.known = {}           # atomic condition -> bool
        self.derefs = {}          # (list term, index term) -> bound element variable
        self.frames = [{}]        # stack of local-variable frames
        self.nfresh = 0

    def copy(self):
        p = Path()
        p.lst, p.ncalls, p.csyms = self.lst, self.ncalls, self.csyms
        p.known = dict(self.known); p.derefs = dict(self.derefs)
        p.frames = [dict(f) for f in self.frames]; p.nfresh = self.nfresh
        return p

    def calls_term(self):
        parts = list(self.csyms)
        if self.ncalls or not parts:
            parts.append(str(self.ncalls))
        return ' + '.join(parts)


class Ite:
    def __init__(self, cond, t, f, line, note=''):
        self.cond, self.t, self.f, self.line, self.note = cond, t, f, line, note

class MatchIdx:
    def __init__(self, lst, idx, var, sub, line):
        self.lst, self.idx, self.var, self.sub, self.line = lst, idx, var, sub, line

class Bind:
    def __init__(self, call, var, sub, line):
        self.call, self.var, self.sub, self.line = call, var, sub, line

class Let:
    def __init__(self, var, term, sub, line):
        self.var, self.term, self.sub, self.line = var, term, sub, line

class Leaf:
    def __init__(self, lst, ret, calls, line):
        self.lst, self.ret, self.calls, self.line = lst, ret, calls, line

class UB:
    def __init__(self, why, line):
        self.why, self.line = why, line


def atom(s):
    """parenthesise a Lean term unless it is atomic: `name`, `name.proj`, `(…)`, `(…).proj`"""
    s = s.strip()
    if all(ch.isalnum() or ch in '._' for ch in s):
        return s
    if s.startswith('('):
        d = 0
        for i, ch in enumerate(s):
            if ch == '(':
                d += 1
            elif ch == ')':
                d -= 1
                if d == 0:
                    rest = s[i + 1:]
                    if rest == '' or (rest.startswith('.') and all(ch.isalnum() or ch in '._' for ch in rest)):
                        return s
                    break
    return f'({s})'


def nat_sub(a, k):
    if k == 0:
        return a
    return f'{atom(a)} - {k}'


def nat_add(a, k):
    if k == 0:
        return a
    if a == '0':
        return str(k)
    return f'{atom(a)} + {k}'


class Translator:
    def __init__(self, spec):
        self.spec = spec
        self.by_id = {}          # decl id -> CXXMethodDecl
        self.targets = {}        # decl id -> lean name
        self.sigs = {}           # lean name -> (param kinds, return kind)
        bases = spec.get('bases', [])
        if len(bases) != 1:
            raise Unsupported(f'FlatSet is expected to have exactly one base class (the comparator), found {len(bases)}')
        self.comp_type = bases[0]['type']['qualType']
        for m in kids(spec):
            if m.get('kind') == 'CXXMethodDecl':
                self.by_id[m['id']] = m
            elif m.get('kind') == 'FunctionTemplateDecl':
                for c in kids(m):
                    if c.get('kind') == 'CXXMethodDecl':
                        self.by_id[c['id']] = c
        for nm, ptypes, lean in TARGETS:
            found = [m for m in self.by_id.values()
                     if m.get('name') == nm and has_body(m) and tuple(qual(p) for p in params_of(m)) == ptypes]
            if len(found) != 1:
                raise Unsupported(f'member FlatSet::{nm}({", ".join(ptypes)}) with a body: expected exactly one, found '
                                  f'{len(found)} (changed set of members)')
            if not str(found[0].get('_file')).endswith(os.path.join('amc', 'flatset.hpp')):
                raise Unsupported(f'member FlatSet::{nm} is defined in {found[0].get("_file")}, not in amc/flatset.hpp')
            self.targets[found[0]['id']] = lean

    # ---- kinds of C++ types -----------------------------------------------------------------------------------------
    def type_kind(self, ty, n):
        t = ty.replace('const ', '').replace(' &&', '').replace(' &', '').strip()
        if t in ('amc::FlatSet<int>::const_iterator', 'amc::FlatSet<int>::iterator', 'amc::FlatSet<int>::miterator',
                 'const_iterator', 'iterator', 'miterator', 'int *', 'int const *'):
            return 'it'
        if ty.strip() in ('const int *',):
            return 'it'
        if t in ('int', 'amc::FlatSet<int>::const_reference', 'amc::FlatSet<int>::key_type',
                 'amc::FlatSet<int>::value_type'):
            return 'elem'
        if t in ('amc::FlatSet<int>::size_type', 'unsigned int', 'unsigned long'):
            return 'n'
        if t == 'bool':
            return 'b'
        if t in ('std::pair<iterator, bool>', 'std::pair<amc::FlatSet<int>::iterator, bool>'):
            return ('pair', 'it', 'b')
        if t in ('std::pair<const_iterator, const_iterator>',):
            return ('pair', 'it', 'it')
        if t == 'void':
            return 'void'
        raise Unsupported(f'{where(n)}: type `{ty}` is outside the translated subset')

    def lean_type(self, kind):
        if isinstance(kind, tuple):
            return f'{self.lean_type(kind[1])} × {self.lean_type(kind[2])}'
        return {'it': 'Nat', 'n': 'Nat', 'b': 'Bool', 'elem': 'α', 'void': 'Unit'}[kind]

    def ret_kind(self, m):
        ty = qual(m)
        return self.type_kind(ty[:ty.index('(')].strip(), m)

    # ---- helpers ----------------------------------------------------------------------------------------------------
    def fresh(self, path, prefix):
        v = f'{prefix}{path.nfresh}'
        path.nfresh += 1
        if v in self.param_names:
            raise Unsupported(f'generated variable name {v} collides with a C++ parameter name')
        return v

    def fork(self, path, cond, line, kt, kf, note=''):
        """fork on an atomic Lean condition (Prop or Bool term); a condition already decided on this path is not forked"""
        if cond in path.known:
            return kt(path) if path.known[cond] else kf(path)
        pt, pf = path.copy(), path.copy()
        pt.known[cond] = True; pf.known[cond] = False
        return Ite(cond, kt(pt), kf(pf), line, note)

    def branch(self, val, path, n, kt, kf):
        """continue with kt / kf according to a boolean value"""
        if val[0] == 'b':
            return kt(path) if val[1] else kf(path)
        if val[0] == 'bt':
            return self.fork(path, val[1], line_of(n), kt, kf)
        raise Unsupported(f'{where(n)}: a boolean was expected, found {val[0]}')

    def need_it(self, v, n, what):
        if v[0] == 'it':
            return None
        if v[0] == 'itbad':
            return UB(f'{what} of an iterator before begin() ({v[1]})', line_of(n))
        raise Unsupported(f'{where(n)}: {what}: an iterator was expected, found {v[0]}')

    def lookup(self, path, name, n):
        fr = path.frames[-1]
        if name not in fr:
            raise Unsupported(f'{where(n)}: reference to `{name}`, which is neither a parameter nor a local variable')
        return fr[name]

    def to_term(self, v, kind, n):
        """Lean term of a returned value of the given kind"""
        if isinstance(kind, tuple):
            if v[0] != 'pair':
                raise Unsupported(f'{where(n)}: a pair was expected, found {v[0]}')
            return f'({self.to_term(v[1], kind[1], n)}, {self.to_term(v[2], kind[2], n)})'
        if kind == 'it':
            if v[0] == 'it':
                return v[1]
            raise Unsupported(f'{where(n)}: an iterator value was expected, found {v[0]}')
        if kind == 'n':
            if v[0] == 'n':
                return v[1]
            if v[0] == 'int' and v[1] >= 0:
                return str(v[1])
            if v[0] == 'b':
                return '1' if v[1] else '0'
            raise Unsupported(f'{where(n)}: an unsigned value was expected, found {v[0]}')
        if kind == 'b':
            if v[0] == 'b':
                return 'true' if v[1] else 'false'
            if v[0] == 'bt':
                return v[1] if v[2] else f'decide ({v[1]})'
            raise Unsupported(f'{where(n)}: a boolean was expected, found {v[0]}')
        if kind == 'elem':
            if v[0] == 'elem':
                return v[1]
        if kind == 'void':
            return '()'
        raise Unsupported(f'{where(n)}: cannot return a {v[0]} as {kind}')

    def from_term(self, term, kind):
        if isinstance(kind, tuple):
            return ('pair', self.from_term(f'{term}.1', kind[1]), self.from_term(f'{term}.2', kind[2]))
        if kind == 'b':
            return ('bt', term, True)
        if kind == 'void':
            return ('void',)
        return (kind, term)

    # ---- expressions (continuation-passing: k(path, value) -> tree) ---------------------------------------------------
    def eval(self, n, path, k):
        kind = n.get('kind')
        f = getattr(self, 'e_' + kind, None)
        if f is None:
            raise Unsupported(f'{where(n)}: expression kind {kind} is outside the translated subset')
        return f(n, path, k)

    def eval_list(self, ns, path, k, acc=()):
        if not ns:
            return k(path, list(acc))
        return self.eval(ns[0], path, lambda p, v: self.eval_list(ns[1:], p, k, acc + (v,)))

    def passthrough(self, n, path, k):
        c = kids(n)
        if len(c) != 1:
            raise Unsupported(f'{where(n)}: {n.get("kind")} with {len(c)} operands')
        return self.eval(c[0], path, k)

    e_ParenExpr = passthrough
    e_MaterializeTemporaryExpr = passthrough
    e_ExprWithCleanups = passthrough
    e_CXXBindTemporaryExpr = passthrough
    e_ConstantExpr = passthrough

    def e_ImplicitCastExpr(self, n, path, k):
        ck = n.get('castKind')
        c = kids(n)[0]
        if ck in ('LValueToRValue', 'NoOp', 'UncheckedDerivedToBase', 'DerivedToBase'):
            def cont(p, v):
                if ck in ('DerivedToBase', 'UncheckedDerivedToBase') and v[0] == 'this':
                    t = qual(n).replace('const ', '').strip()
                    if t != self.comp_type:
                        raise Unsupported(f'{where(n)}: cast of *this to `{qual(n)}` (only the comparator base `{self.comp_type}` is known)')
                    return k(p, ('comp',))
                if ck in ('DerivedToBase', 'UncheckedDerivedToBase') and v[0] not in ('vec',):
                    raise Unsupported(f'{where(n)}: derived-to-base cast of a {v[0]}')
                return k(p, v)
            return self.eval(c, path, cont)
        if ck == 'IntegralCast':
            def cont(p, v):
                if v[0] in ('int', 'n', 'b'):
                    return k(p, v)
                if v[0] == 'bt':   # bool -> integer: decide it
                    return self.branch(v, p, n, lambda q: k(q, ('b', True)), lambda q: k(q, ('b', False)))
                raise Unsupported(f'{where(n)}: integral cast of a {v[0]}')
            return self.eval(c, path, cont)
        raise Unsupported(f'{where(n)}: implicit cast {ck} is outside the translated subset')

    def e_CXXStaticCastExpr(self, n, path, k):
        if n.get('castKind') != 'NoOp':
            raise Unsupported(f'{where(n)}: static_cast of kind {n.get("castKind")}')
        return self.passthrough(n, path, k)

    def e_CXXFunctionalCastExpr(self, n, path, k):
        # `T(args...)` with one argument of the element type: the constructed value is the value of the model
        if n.get('castKind') != 'NoOp' or self.type_kind(qual(n), n) != 'elem':
            raise Unsupported(f'{where(n)}: functional cast to `{qual(n)}` ({n.get("castKind")})')
        def cont(p, v):
            if v[0] != 'elem':
                raise Unsupported(f'{where(n)}: element constructed from a {v[0]}')
            return k(p, v)
        return self.eval(kids(n)[0], path, cont)

    def e_CXXThisExpr(self, n, path, k):
        return k(path, ('thisptr',))

    def e_IntegerLiteral(self, n, path, k):
        return k(path, ('int', int(n['value'])))

    def e_CXXBoolLiteralExpr(self, n, path, k):
        return k(path, ('b', bool(n['value'])))

    def e_CXXDefaultArgExpr(self, n, path, k):
        return k(path, ('default',))

    def e_DeclRefExpr(self, n, path, k):
        rd = n.get('referencedDecl', {})
        if rd.get('kind') in ('ParmVarDecl', 'VarDecl'):
            return k(path, self.lookup(path, rd['name'], n))
        raise Unsupported(f'{where(n)}: reference to {rd.get("kind")} `{rd.get("name")}`')

    def e_MemberExpr(self, n, path, k):
        name = n.get('name')
        def cont(p, v):
            if v[0] in ('thisptr', 'this') and name == '_sortedVector':
                return k(p, ('vec',))
            if v[0] == 'pair' and name == 'first':
                return k(p, v[1])
            if v[0] == 'pair' and name == 'second':
                return k(p, v[2])
            raise Unsupported(f'{where(n)}: member access `.{name}` on a {v[0]}')
        return self.eval(kids(n)[0], path, cont)

    def e_UnaryOperator(self, n, path, k):
        op = n.get('opcode')
        c = kids(n)[0]
        if op == '!':
            def cont(p, v):
                if v[0] == 'b':
                    return k(p, ('b', not v[1]))
                if v[0] == 'bt':
                    return self.branch(v, p, n, lambda q: k(q, ('b', False)), lambda q: k(q, ('b', True)))
                raise Unsupported(f'{where(n)}: `!` applied to a {v[0]}')
            return self.eval(c, path, cont)
        if op == '-':
            def cont(p, v):
                if v[0] == 'int':
                    return k(p, ('int', -v[1]))
                raise Unsupported(f'{where(n)}: unary minus applied to a {v[0]}')
            return self.eval(c, path, cont)
        if op == '*':
            def cont(p, v):
                if v[0] == 'thisptr':
                    return k(p, ('this',))
                bad = self.need_it(v, n, 'dereference')
                if bad:
                    return bad
                return self.deref(p, v[1], n, k)
            return self.eval(c, path, cont)
        raise Unsupported(f'{where(n)}: unary operator `{op}` is outside the translated subset')

    def deref(self, path, idx, n, k):
        key = (path.lst, idx)
        if key in path.derefs:
            return k(path, ('elem', path.derefs[key]))
        p = path.copy()
        var = self.fresh(p, 'x')
        p.derefs[key] = var
        return MatchIdx(path.lst, idx, var, k(p, ('elem', var)), line_of(n))

    def it_offset(self, path, v, off, n, k):
        """iterator + integer literal"""
        bad = self.need_it(v, n, 'arithmetic')
        if bad:
            return bad
        if off >= 0:
            return k(path, ('it', nat_add(v[1], off)))
        m = -off
        cond = f'{v[1]} = 0' if m == 1 else f'{v[1]} < {m}'
        return self.fork(path, cond, line_of(n),
                         lambda p: k(p, ('itbad', f'{v[1]} - {m} with {cond}')),
                         lambda p: k(p, ('it', nat_sub(v[1], m))),
                         note=f'iterator - {m}: before begin() on the first arm')

    def compare(self, op, a, b, n, path, k):
        for v in (a, b):
            bad = self.need_it(v, n, 'comparison') if v[0] in ('it', 'itbad') else None
            if bad:
                return bad
        if a[0] == 'it' and b[0] == 'it':
            x, y = a[1], b[1]
            if op == '==':
                return k(path, ('b', True)) if x == y else k(path, ('bt', f'{x} = {y}', False))
            if op == '!=':
                if x == y:
                    return k(path, ('b', False))
                return self.fork(path, f'{x} = {y}', line_of(n), lambda p: k(p, ('b', False)), lambda p: k(p, ('b', True)))
            if op in ('<', '<='):
                return k(path, ('bt', f'{x} {"<" if op == "<" else "≤"} {y}', False))
            if op in ('>', '>='):
                return k(path, ('bt', f'{y} {"<" if op == ">" else "≤"} {x}', False))
        def num(v):
            if v[0] == 'n':
                return v[1]
            if v[0] == 'int' and v[1] >= 0:
                return str(v[1])
            return None
        x, y = num(a), num(b)
        if x is not None and y is not None and op in ('==', '!='):
            if op == '==':
                return k(path, ('bt', f'{x} = {y}', False))
            return self.fork(path, f'{x} = {y}', line_of(n), lambda p: k(p, ('b', False)), lambda p: k(p, ('b', True)))
        raise Unsupported(f'{where(n)}: comparison `{op}` of a {a[0]} and a {b[0]}')

    def e_BinaryOperator(self, n, path, k):
        op = n.get('opcode')
        lhs, rhs = kids(n)
        if op == '||':
            return self.eval(lhs, path, lambda p, v: self.branch(
                v, p, lhs, lambda q: k(q, ('b', True)),
                lambda q: self.eval(rhs, q, lambda r, w: self.branch(w, r, rhs, lambda s: k(s, ('b', True)), lambda s: k(s, ('b', False))))))
        if op == '&&':
            return self.eval(lhs, path, lambda p, v: self.branch(
                v, p, lhs,
                lambda q: self.eval(rhs, q, lambda r, w: self.branch(w, r, rhs, lambda s: k(s, ('b', True)), lambda s: k(s, ('b', False)))),
                lambda q: k(q, ('b', False))))
        if op in ('==', '!=', '<', '<=', '>', '>='):
            return self.eval(lhs, path, lambda p, a: self.eval(rhs, p, lambda q, b: self.compare(op, a, b, n, q, k)))
        if op in ('+', '-'):
            def cont(p, a, b):
                if a[0] in ('it', 'itbad') and b[0] == 'int':
                    return self.it_offset(p, a, b[1] if op == '+' else -b[1], n, k)
                raise Unsupported(f'{where(n)}: `{op}` on a {a[0]} and a {b[0]}')
            return self.eval(lhs, path, lambda p, a: self.eval(rhs, p, lambda q, b: cont(q, a, b)))
        if op == '=':
            if lhs.get('kind') != 'DeclRefExpr' or lhs.get('referencedDecl', {}).get('kind') != 'VarDecl':
                raise Unsupported(f'{where(n)}: assignment to something else than a local variable')
            name = lhs['referencedDecl']['name']
            def cont(p, v):
                self.lookup(p, name, n)
                p = p.copy()
                p.frames[-1][name] = v
                return k(p, v)
            return self.eval(rhs, path, cont)
        raise Unsupported(f'{where(n)}: binary operator `{op}` is outside the translated subset')

    def e_ConditionalOperator(self, n, path, k):
        c, a, b = kids(n)
        return self.eval(c, path, lambda p, v: self.branch(v, p, c, lambda q: self.eval(a, q, k), lambda q: self.eval(b, q, k)))

    def construct(self, n, path, k):
        ty = qual(n).replace('const ', '')
        args = kids(n)
        if ty == self.comp_type and len(args) == 1:
            def cont(p, v):
                if v[0] != 'comp':
                    raise Unsupported(f'{where(n)}: comparator constructed from a {v[0]}')
                return k(p, v)
            return self.eval(args[0], path, cont)
        if ty.startswith('std::pair<'):
            if len(args) == 2:
                return self.eval_list(args, path, lambda p, vs: k(p, ('pair', vs[0], vs[1])))
            if len(args) == 1:   # copy / move of a pair
                def cont(p, v):
                    if v[0] != 'pair':
                        raise Unsupported(f'{where(n)}: pair constructed from a {v[0]}')
                    return k(p, v)
                return self.eval(args[0], path, cont)
        raise Unsupported(f'{where(n)}: construction of `{qual(n)}` with {len(args)} argument(s)')

    e_CXXConstructExpr = construct
    e_CXXTemporaryObjectExpr = construct

    def e_CXXOperatorCallExpr(self, n, path, k):
        c = kids(n)
        callee = c[0]
        while callee.get('kind') == 'ImplicitCastExpr':
            callee = kids(callee)[0]
        name = callee.get('referencedDecl', {}).get('name')
        if name != 'operator()' or len(c) != 4:
            raise Unsupported(f'{where(n)}: call of overloaded operator `{name}` is outside the translated subset')
        def cont(p, vs):
            o, a, b = vs
            if o[0] != 'comp':
                raise Unsupported(f'{where(n)}: operator() called on a {o[0]} (only the comparator of the set is known)')
            if a[0] != 'elem' or b[0] != 'elem':
                raise Unsupported(f'{where(n)}: comparator applied to a {a[0]} and a {b[0]}')
            p = p.copy()
            p.ncalls += 1
            return k(p, ('bt', f'lt {atom(a[1])} {atom(b[1])}', True))
        return self.eval_list(c[1:], path, cont)

    def e_CallExpr(self, n, path, k):
        c = kids(n)
        callee = c[0]
        while callee.get('kind') == 'ImplicitCastExpr':
            callee = kids(callee)[0]
        rd = callee.get('referencedDecl', {})
        if callee.get('kind') != 'DeclRefExpr' or rd.get('kind') != 'FunctionDecl':
            raise Unsupported(f'{where(n)}: call through something else than a named function')
        name = rd.get('name')
        args = c[1:]
        if name in ('forward', 'move') and len(args) == 1:
            return self.eval(args[0], path, k)
        if name in ('next', 'prev') and len(args) == 2:
            def cont(p, vs):
                it, d = vs
                if d[0] == 'default':
                    d = ('int', 1)
                if d[0] != 'int':
                    raise Unsupported(f'{where(n)}: std::{name} with a non-literal distance')
                return self.it_offset(p, it, d[1] if name == 'next' else -d[1], n, k)
            return self.eval_list(args, path, cont)
        if name in ('lower_bound', 'upper_bound') and len(args) == 4:
            def cont(p, vs):
                first, last, val, comp = vs
                for it in (first, last):
                    bad = self.need_it(it, n, f'std::{name}')
                    if bad:
                        return bad
                if val[0] != 'elem' or comp[0] != 'comp':
                    raise Unsupported(f'{where(n)}: std::{name}(…, {val[0]}, {comp[0]})')
                p = p.copy()
                var = self.fresh(p, 'r')
                ln = last[1] if first[1] == '0' else f'{atom(last[1])} - {atom(first[1])}'
                fn = 'Sets.lowerBound' if name == 'lower_bound' else 'Sets.upperBound'
                term = f'{fn} lt {atom(p.lst)} {atom(val[1])} {atom(first[1])} {atom(ln)}'
                p.csyms = p.csyms + (f'{var}.2',)
                return Let(var, term, k(p, ('it', f'{var}.1')), line_of(n))
            return self.eval_list(args, path, cont)
        raise Unsupported(f'{where(n)}: call of function `{name}` with {len(args)} argument(s) is outside the translated subset')

    def e_CXXMemberCallExpr(self, n, path, k):
        c = kids(n)
        me = c[0]
        if me.get('kind') != 'MemberExpr':
            raise Unsupported(f'{where(n)}: member call through a {me.get("kind")}')
        name = me.get('name')
        args = c[1:]
        def on_obj(p, obj):
            if obj[0] in ('thisptr', 'this'):
                return self.call_member(n, me, name, args, p, k)
            if obj[0] == 'vec':
                return self.eval_list(args, p, lambda q, vs: self.vec_prim(n, name, vs, q, k))
            raise Unsupported(f'{where(n)}: member call `.{name}` on a {obj[0]}')
        return self.eval(kids(me)[0], path, on_obj)

    def vec_prim(self, n, name, vs, path, k):
        """members of the underlying vector"""
        if name in ('begin', 'cbegin') and not vs:
            return k(path, ('it', '0'))
        if name in ('end', 'cend') and not vs:
            return k(path, ('it', f'{atom(path.lst)}.length'))
        if name == 'empty' and not vs:
            return k(path, ('bt', f'{atom(path.lst)}.length = 0', False))
        if name == 'size' and not vs:
            return k(path, ('n', f'{atom(path.lst)}.length'))
        if name == 'back' and not vs:
            return self.deref(path, f'{atom(path.lst)}.length - 1', n, k)
        if name == 'front' and not vs:
            return self.deref(path, '0', n, k)
        if name == 'insert' and len(vs) == 2 and vs[0][0] in ('it', 'itbad') and vs[1][0] == 'elem':
            bad = self.need_it(vs[0], n, '_sortedVector.insert')
            if bad:
                return bad
            p = path.copy()
            p.lst = f'{atom(p.lst)}.insertIdx {atom(vs[0][1])} {atom(vs[1][1])}'
            return k(p, ('it', vs[0][1]))
        if name == 'erase' and len(vs) == 1 and vs[0][0] in ('it', 'itbad'):
            bad = self.need_it(vs[0], n, '_sortedVector.erase')
            if bad:
                return bad
            p = path.copy()
            p.lst = f'{atom(p.lst)}.eraseIdx {atom(vs[0][1])}'
            return k(p, ('it', vs[0][1]))
        if name == 'push_back' and len(vs) == 1 and vs[0][0] == 'elem':
            p = path.copy()
            p.lst = f'{atom(p.lst)} ++ [{vs[0][1]}]'
            return k(p, ('void',))
        raise Unsupported(f'{where(n)}: vector member `{name}` with argument kinds ({", ".join(v[0] for v in vs)}) is outside the translated subset')

    def call_member(self, n, me, name, args, path, k):
        mid = me.get('referencedMemberDecl')
        decl = self.by_id.get(mid)
        if decl is None:
            raise Unsupported(f'{where(n)}: call of FlatSet member `{name}`, whose declaration is not in the instantiation')
        if mid in self.targets:
            lean = self.targets[mid]
            pk = [self.type_kind(qual(p), p) for p in params_of(decl)]
            rk = self.ret_kind(decl)
            def cont(p, vs):
                if len(vs) != len(pk):
                    raise Unsupported(f'{where(n)}: call of `{name}` with {len(vs)} arguments')
                terms = []
                for v, kd in zip(vs, pk):
                    if kd == 'it':
                        bad = self.need_it(v, n, f'argument of {name}')
                        if bad:
                            return bad
                    terms.append(atom(self.to_term(v, kd, n)))
                p = p.copy()
                var = self.fresh(p, 'r')
                call = f'{lean} lt {atom(p.lst)} ' + ' '.join(terms)
                if self.is_const(decl):
                    if lean not in self.sigs:
                        raise Unsupported(f'{where(n)}: `{name}` is called before it is generated (order of TARGETS)')
                    p.csyms = p.csyms + (f'{var}.2',)
                    return Bind(call.strip(), var, k(p, self.from_term(f'{var}.1', rk)), line_of(n))
                p.lst = f'{var}.1'
                p.csyms = p.csyms + (f'{var}.2.2',)
                return Bind(call.strip(), var, k(p, self.from_term(f'{var}.2.1', rk)), line_of(n))
            return self.eval_list(args, path, cont)
        # inline
        if not has_body(decl):
            raise Unsupported(f'{where(n)}: call of FlatSet member `{name}` without a visible body')
        if len(path.frames) > 8:
            raise Unsupported(f'{where(n)}: inlining depth exceeded at `{name}`')
        ps = params_of(decl)
        if len(ps) != len(args):
            raise Unsupported(f'{where(n)}: call of `{name}` with {len(args)} arguments for {len(ps)} parameters')
        def cont(p, vs):
            p = p.copy()
            p.frames.append({q['name']: v for q, v in zip(ps, vs)})
            def kret(q, v):
                q = q.copy()
                q.frames.pop()
                return k(q, v)
            return self.exec_block([body_of(decl)], p, lambda q: self.fall_off(decl, q, kret), kret)
        return self.eval_list(args, path, cont)

    @staticmethod
    def is_const(decl):
        ty = qual(decl)
        return ty[ty.rindex(')') + 1:].split()[:1] == ['const']

    def fall_off(self, decl, path, kret):
        ty = qual(decl)
        if ty[:ty.index('(')].strip() == 'void':
            return kret(path, ('void',))
        raise Unsupported(f'{where(decl)}: control reaches the end of non-void `{decl.get("name")}`')

    # ---- statements -------------------------------------------------------------------------------------------------
    def is_assert(self, n):
        """`assert(c)` after preprocessing: ((c) ? (void)0 : __assert_fail(...))"""
        m = n
        while m.get('kind') == 'ParenExpr':
            m = kids(m)[0]
        if m.get('kind') != 'ConditionalOperator':
            return False
        def mentions(x):
            if isinstance(x, dict):
                if x.get('referencedDecl', {}).get('name') == '__assert_fail':
                    return True
                return any(mentions(c) for c in x.get('inner', []))
            return False
        return mentions(kids(m)[2])

    def exec_block(self, stmts, path, knext, kret):
        if not stmts:
            return knext(path)
        s, rest = stmts[0], stmts[1:]
        after = lambda p: self.exec_block(rest, p, knext, kret)
        kind = s.get('kind')
        if kind == 'CompoundStmt':
            return self.exec_block(kids(s), path, after, kret)
        if kind == 'NullStmt':
            return after(path)
        if kind == 'DeclStmt':
            decls = kids(s)
            def do(ds, p):
                if not ds:
                    return after(p)
                d = ds[0]
                if d.get('kind') != 'VarDecl' or len(kids(d)) != 1:
                    raise Unsupported(f'{where(s)}: declaration of `{d.get("name")}` without a single initialiser')
                self.type_kind(qual(d), d)
                def bound(q, v):
                    q = q.copy()
                    q.frames[-1][d['name']] = v
                    return do(ds[1:], q)
                return self.eval(kids(d)[0], p, bound)
            return do(decls, path)
        if kind == 'IfStmt':
            if s.get('hasInit') or s.get('hasVar') or s.get('isConstexpr'):
                raise Unsupported(f'{where(s)}: if statement with initialiser / declaration / constexpr')
            c = kids(s)
            cond, then = c[0], c[1]
            els = c[2] if len(c) > 2 else None
            return self.eval(cond, path, lambda p, v: self.branch(
                v, p, s,
                lambda q: self.exec_block([then], q, after, kret),
                lambda q: self.exec_block([els], q, after, kret) if els is not None else after(q)))
        if kind == 'ReturnStmt':
            c = kids(s)
            if not c:
                return kret(path, ('void',))
            return self.eval(c[0], path, kret)
        if kind in ('ForStmt', 'WhileStmt', 'DoStmt', 'CXXForRangeStmt', 'SwitchStmt', 'BreakStmt', 'ContinueStmt',
                    'GotoStmt', 'CXXTryStmt', 'CXXThrowExpr'):
            raise Unsupported(f'{where(s)}: statement kind {kind} is outside the translated subset (loop-free code only)')
        if self.is_assert(s):
            return after(path)
        # expression statement
        return self.eval(s, path, lambda p, v: after(p))

    # ---- one definition -----------------------------------------------------------------------------------------------
    def translate(self, decl, lean):
        ps = params_of(decl)
        rk = self.ret_kind(decl)
        names, kinds = [], []
        for p in ps:
            nm = p.get('name')
            if not nm:
                raise Unsupported(f'{where(decl)}: unnamed parameter')
            kinds.append(self.type_kind(qual(p), p))
            names.append(nm + '_' if nm in RESERVED else nm)
        self.param_names = set(names)
        path = Path()
        for p, nm, kd in zip(ps, names, kinds):
            if kd not in ('it', 'elem'):
                raise Unsupported(f'{where(decl)}: parameter `{nm}` of kind {kd}')
            path.frames[-1][p['name']] = (kd, nm)
        const = self.is_const(decl)
        def kret(p, v):
            if len(p.frames) != 1:
                raise Unsupported(f'{where(decl)}: internal error, unbalanced frames')
            if rk == 'it' and v[0] == 'itbad':
                return UB(f'an iterator before begin() is returned ({v[1]})', None)
            if const and p.lst != 'l':
                raise Unsupported(f'{where(decl)}: const member `{decl.get("name")}` modifies the content ({p.lst})')
            return Leaf(None if const else p.lst, self.to_term(v, rk, decl), p.calls_term(), None)
        tree = self.exec_block([body_of(decl)], path, lambda p: self.fall_off(decl, p, kret), kret)
        sig_params = ' '.join(f'({nm} : {self.lean_type(kd)})' for nm, kd in zip(names, kinds))
        rty0 = atom(self.lean_type(rk)) if isinstance(rk, tuple) else self.lean_type(rk)
        rty = f'Option ({rty0} × Nat)' if const else f'Option (List α × {rty0} × Nat)'
        cpp_sig = f'{decl.get("name")}({", ".join(qual(p) for p in ps)})'
        out = [f'/-- flatset.hpp:{line_of(decl)} `{cpp_sig}{" const" if const else ""}`: ({"" if const else "content, "}returned value, comparator calls); `none` = undefined behaviour -/',
               f'def {lean} (lt : α → α → Bool) (l : List α){" " + sig_params if sig_params else ""} : {rty} :=']
        out += self.emit(tree, 1)
        self.sigs[lean] = (kinds, rk)
        return '\n'.join(out) + '\n'

    def emit(self, t, d):
        ind = '  ' * d
        ln = lambda x: f'  -- L{x}' if x else ''
        if isinstance(t, Ite):
            note = f' ({t.note})' if t.note and t.line else ''
            return ([f'{ind}if {t.cond} then{ln(t.line)}{note}'] + self.emit(t.t, d + 1) + [f'{ind}else'] + self.emit(t.f, d + 1))
        if isinstance(t, MatchIdx):
            return ([f'{ind}match {atom(t.lst)}[{t.idx}]? with{ln(t.line)}',
                     f'{ind}| none => none',
                     f'{ind}| some {t.var} =>'] + self.emit(t.sub, d + 1))
        if isinstance(t, Bind):
            return ([f'{ind}match {t.call} with{ln(t.line)}',
                     f'{ind}| none => none',
                     f'{ind}| some {t.var} =>'] + self.emit(t.sub, d + 1))
        if isinstance(t, Let):
            return [f'{ind}let {t.var} := {t.term}{ln(t.line)}'] + self.emit(t.sub, d)
        if isinstance(t, Leaf):
            return [f'{ind}some ({t.ret}, {t.calls})' if t.lst is None else f'{ind}some ({t.lst}, {t.ret}, {t.calls})']
        if isinstance(t, UB):
            return [f'{ind}none  -- {t.why}']
        raise Unsupported('internal error: unknown tree node')


def find_spec(objs):
    specs = [o for o in objs if o.get('kind') == 'ClassTemplateSpecializationDecl' and o.get('name') == 'FlatSet' and o.get('inner')]
    if not specs:
        for o in objs:
            if o.get('kind') == 'ClassTemplateDecl' and o.get('name') == 'FlatSet':
                specs += [c for c in kids(o) if c.get('kind') == 'ClassTemplateSpecializationDecl' and c.get('inner')]
    if len(specs) != 1:
        raise Unsupported(f'expected exactly one instantiated specialisation of amc::FlatSet, found {len(specs)}')
    return specs[0]


def generate(include):
    hdr = os.path.join(include, 'amc', 'flatset.hpp')
    if not os.path.exists(hdr):
        raise Unsupported(f'{hdr} does not exist')
    with tempfile.TemporaryDirectory(prefix='flatset2lean_') as wd:
        src = os.path.join(wd, 'inst_flatset.cpp')
        with open(src, 'w') as f:
            f.write(INST_SOURCE)
        objs = clang_dump(include, src, 'FlatSet')
    for o in objs:
        annotate_lines(o)
    spec = find_spec(objs)
    tr = Translator(spec)
    by_lean = {lean: mid for mid, lean in tr.targets.items()}
    out = ['/- GENERATED by translator/flatset2lean.py from include/amc/flatset.hpp (instantiation amc::FlatSet<int>). Do not edit. -/',
           'import AmcVerif.Model.Sets',
           'set_option linter.unusedVariables false',
           'namespace AmcVerif.Gen.FlatSet',
           'open AmcVerif',
           'variable {α : Type}',
           '']
    for nm, ptypes, lean in TARGETS:
        out.append(tr.translate(tr.by_id[by_lean[lean]], lean))
    out.append('end AmcVerif.Gen.FlatSet')
    return '\n'.join(out) + '\n'


def main():
    ap = argparse.ArgumentParser()
    ap.add_argument('--include', required=True, help='include directory of the library (contains amc/flatset.hpp)')
    ap.add_argument('--out', required=True, help='generated Lean file (AmcVerif/Gen/FlatSetGen.lean)')
    a = ap.parse_args()
    try:
        text = generate(os.path.abspath(a.include))
    except Unsupported as e:
        print(f'TRANSLATION-BROKEN flatset2lean: {e}', file=sys.stderr)
        sys.exit(2)
    old = open(a.out).read() if os.path.exists(a.out) else None
    if old != text:
        os.makedirs(os.path.dirname(os.path.abspath(a.out)), exist_ok=True)
        with open(a.out, 'w') as f:
            f.write(text)
    import hashlib
    print(json.dumps({'ok': True, 'path': a.out, 'sha256': hashlib.sha256(text.encode()).hexdigest(), 'changed': old != text}))


if __name__ == '__main__':
    main()
