#!/usr/bin/env python3
"""flatset2lean -- regenerates, from the *current* include/amc/flatset.hpp, Lean 4 definitions of the decision logic of
amc::FlatSet: insert_hint, insert_val, insert, find, erase(key), lower_bound, upper_bound, contains, count, equal_range (T2) and
(T8) erase(position), erase(first, last), clear, size, empty, swap, the comparison operators, mfind, extract(key / position),
insert(node_type&&), insert(hint, node_type&&), eraseDuplicates, insert(first, last), insert(initializer_list), operator=(initializer_list),
operator=(vector&&), the range / initializer-list / vector constructors, merge (both overloads).

Method (same as amc2lean.py): clang++-14 dumps the typed JSON AST of the explicit instantiation `amc::FlatSet<int>`;
each selected member body is executed symbolically with path splitting (no state merging).  Abstract domain:

  the sorted vector          a Lean term of type `List α` (initially the parameter `l`; of the other set of a two-object member: `o`)
  the comparator object      a Lean term of type `α → α → Bool`: `lt` (stored in *this), `lt_o` (stored in the other set), a constructor
                             parameter `comp`, or `lt_default` = a DEFAULT-CONSTRUCTED comparator (`Compare()`), which is not the stored one
  an iterator                a Lean `Nat` index (begin() = 0, end() = length of the *current* list)
  `*it`                      `match l[it]? with | none => none | some x => …`: the `none` arm is "dereference of an iterator
                             outside [begin, end)" = undefined behaviour, which makes the whole result `none`
  `it - k` (next(it,-k), prev)  forks on `it < k` (`it = 0` for k = 1); on the true arm the iterator is *poisoned* (it is before
                             begin()): it may be formed and copied, any other use of it makes the result `none`
  `compRef()(a, b)`          `lt a b`, and the comparator-call count of the path is incremented
  `std::lower_bound(f, l, v, comp)`   `Sets.lowerBound lt list v f (l - f)` (hand-written model of the libstdc++ loop)
  `_sortedVector.insert(it, v)`       list := list.insertIdx it v, returns `it`
  `_sortedVector.insert(pos, f, l)`   list := list ++ range (at end()) / take pos ++ range ++ drop pos
  `_sortedVector.erase(it)`           list := list.eraseIdx it, returns `it`; undefined behaviour unless it < length
  `_sortedVector.erase(f, l)`         list := list.take f ++ list.drop l; undefined behaviour unless f <= l <= length
  `_sortedVector.push_back(v)`        list := list ++ [v];  `.back()` / `.front()` = dereference of end() - 1 / begin();
                             `.empty()` = (length = 0);  `.size()` = length;  `.clear()`, `.swap(o._sortedVector)`
  `_sortedVector == / < o._sortedVector`   `vecEq eqT l o` / `vecLess ltT l o` (std::equal / std::lexicographical_compare with the operators
                             `eqT`, `ltT` of the ELEMENT type: extra parameters of the generated function)
  `std::stable_sort(it, end(), c)`    list := `stableSortTail c list it`;  `std::sort` is REFUSED (not stable: no list function)
  `std::inplace_merge(begin(), it, end(), c)`   list := `inplaceMerge c list it`
  `erase(std::unique(begin(), end(), pred), end())`   list := `uniqueBy pred list`; the lambda `pred` is executed symbolically on its own
                             and emitted as `<member>_pred` (so WHICH comparator object it uses is part of the generated text)
  a node handle              an `Option α`; a `node_type&&` parameter is split at entry (`match nh with`), its final value is returned
  an input range [first, last), an initializer_list, a `vector_type&&`   a Lean parameter of type `List α`
  constructors               return (comparator object stored, content, calls); base / member initialisers and delegation are followed
  `for (it = o.mbegin(); it != o.mend();) BODY` with `it = o._sortedVector.erase(it)` / `++it` at the end of every path of BODY
                             `foldErase <member>_step o l []`: BODY is generated as a function of (content, element)
  `while (COND) BODY` over local iterators of the two sets     `whileFuel <member>_step (l.length + o.length + 1) state`: COND and BODY are
                             generated as a function of the state; the fuel has to be proved sufficient by the bridge
  `std::forward`, `std::move`, `T(x)`  identity on element values (moved-from states are not modelled)
  `assert(…)`                ignored

Heterogeneous lookups (T9).  The template members `find / contains / count / lower_bound / upper_bound (const K &)`, which exist
only for a TRANSPARENT comparator, are instantiated for `amc::FlatSet<int, TLess>` and K = `HetKey` (both declared in the
instantiation source: `TLess` has `is_transparent` and exactly three call operators (int, int), (int, const HetKey &),
(const HetKey &, int)) and translated by the subclass `HetTranslator` into `find_het`, … with the parameters
`(lt : α → α → Bool) (ltEK : α → κ → Bool) (ltKE : κ → α → Bool) (l : List α) (k : κ)`:

  a `const K &` parameter    a Lean term of type `κ` (value kind 'key')
  `compRef()(a, b)`          WHICH of the three overloads is called is read from the AST (the `operator()` declaration referenced, the
                             types of the two argument expressions, and the kinds of the two symbolic values must all agree):
                             (elem, elem) -> `lt a b`, (elem, key) -> `ltEK a b`, (key, elem) -> `ltKE a b`; anything else is refused
  `std::lower_bound(begin(), end(), k, compRef())`   `Sets.lowerBoundBy (fun x => ltEK x k) l first len` (libstdc++ only evaluates comp(*it, k))
  `std::upper_bound(begin(), end(), k, compRef())`   `Sets.upperBoundBy (fun x => ltKE k x) l first len` (libstdc++ only evaluates comp(k, *it))
  `it1 - it2` (difference_type)      a signed difference (value kind 'diff'); its conversion to an unsigned type forks on `it2 ≤ it1`:
                             `it1 - it2` on Nat on the true arm, `none` on the other (a negative difference converted to size_type
                             is not what the code means; the bridge proves the arm unreachable)

Every generated function has the type `… → Option (List α × R × Nat)` (const: `Option (R × Nat)`; two sets: two contents, and the two
comparator objects when the member changes them): `none` = undefined behaviour reached, otherwise (final content, returned
value, number of comparator calls made by FlatSet's own code: calls inside std::stable_sort / inplace_merge / unique are not
modelled).  A FlatSet member that is itself generated is *called* (`match callee … with | none => none | some r => …`), any other
FlatSet member with a visible body (begin, end, mbegin, compRef, …) is inlined, members of the underlying vector are primitives.

The translator refuses (exit status 2, message naming the construct and its source line) anything outside this subset.
"""
import argparse, json, os, re, subprocess, sys, tempfile

CLANG = 'clang++-14'
CLANG_TIMEOUT = 300


class Unsupported(Exception):
    pass


INST_SOURCE = '''#include <amc/flatset.hpp>
template class amc::FlatSet<int>;
template std::pair<amc::FlatSet<int>::iterator, bool> amc::FlatSet<int>::emplace<const int &>(const int &);
template amc::FlatSet<int>::iterator amc::FlatSet<int>::emplace_hint<const int &>(amc::FlatSet<int>::const_iterator, const int &);
template void amc::FlatSet<int>::insert<const int *>(const int *, const int *);
template amc::FlatSet<int>::FlatSet(const int *, const int *, const std::less<int> &, const amc::allocator<int> &);
template amc::FlatSet<int>::FlatSet(const int *, const int *, const amc::allocator<int> &);
template void amc::FlatSet<int>::merge<std::greater<int>, true>(amc::FlatSet<int, std::greater<int>> &);
struct HetKey { int d; };
struct TLess {
  using is_transparent = void;
  bool operator()(int, int) const;
  bool operator()(int, const HetKey &) const;
  bool operator()(const HetKey &, int) const;
};
template amc::FlatSet<int, TLess>::const_iterator amc::FlatSet<int, TLess>::lower_bound<HetKey, true>(const HetKey &) const;
template amc::FlatSet<int, TLess>::const_iterator amc::FlatSet<int, TLess>::upper_bound<HetKey, true>(const HetKey &) const;
template amc::FlatSet<int, TLess>::const_iterator amc::FlatSet<int, TLess>::find<HetKey, true>(const HetKey &) const;
template bool amc::FlatSet<int, TLess>::contains<HetKey, true>(const HetKey &) const;
template amc::FlatSet<int, TLess>::size_type amc::FlatSet<int, TLess>::count<HetKey, true>(const HetKey &) const;
'''
HET_SPEC = 'amc::FlatSet<int, TLess>'      # the specialisation with the transparent comparator
HET_COMP = 'TLess'
HET_KEY = 'HetKey'
DEFINES = ('AMC_NONSTD_FEATURES',)

IT = 'amc::FlatSet<int>::const_iterator'
CREF = 'amc::FlatSet<int>::const_reference'
ALLOC = 'const amc::BasicAllocatorWrapper<int, amc::SimpleAllocator> &'
COMP = 'const std::less<int> &'
ILIST = 'std::initializer_list<value_type>'
NODE = 'amc::FlatSet<int>::node_type &&'

# (C++ member name, parameter types as clang prints them in the instantiation FlatSet<int>) -> Lean name.
# A parameter type ('re', r) is matched as a regular expression.  The name `FlatSet` designates a constructor.
# The order of this table is the order of the generated definitions (callees first).
TARGETS = [
    ('size', (), 'size'),
    ('empty', (), 'empty'),
    ('lower_bound', (CREF,), 'lower_bound'),
    ('upper_bound', (CREF,), 'upper_bound'),
    ('find', (CREF,), 'find'),
    ('contains', (CREF,), 'contains'),
    ('count', (CREF,), 'count'),
    ('equal_range', ('const amc::FlatSet<int>::key_type &',), 'equal_range'),
    ('erase', (CREF,), 'erase'),
    ('insert_val', ('const int &',), 'insert_val'),
    ('insert_val', ('int &&',), 'insert_val_rv'),
    ('insert', ('const int &',), 'insert'),
    ('insert', ('int &&',), 'insert_rv'),
    ('insert_hint', (IT, 'const int &'), 'insert_hint'),
    ('insert_hint', (IT, 'int &&'), 'insert_hint_rv'),
    ('insert', (IT, 'const int &'), 'insert_at'),
    ('insert', (IT, 'int &&'), 'insert_at_rv'),
    ('emplace', ('const int &',), 'emplace'),
    ('emplace_hint', (IT, 'const int &'), 'emplace_hint'),
    # ---- T8, priority 1
    ('erase', (IT,), 'erase_at'),
    ('erase', (IT, IT), 'erase_range'),
    ('clear', (), 'clear'),
    ('swap', ('amc::FlatSet<int> &',), 'swap'),
    ('operator==', ('const amc::FlatSet<int> &',), 'op_eq'),
    ('operator!=', ('const amc::FlatSet<int> &',), 'op_ne'),
    ('operator<', ('const amc::FlatSet<int> &',), 'op_lt'),
    ('operator<=', ('const amc::FlatSet<int> &',), 'op_le'),
    ('operator>', ('const amc::FlatSet<int> &',), 'op_gt'),
    ('operator>=', ('const amc::FlatSet<int> &',), 'op_ge'),
    ('mfind', (CREF,), 'mfind'),
    ('extract', ('const amc::FlatSet<int>::key_type &',), 'extract'),
    ('extract', (IT,), 'extract_at'),
    ('insert', (NODE,), 'insert_node'),
    ('insert', (IT, NODE), 'insert_node_at'),
]
TARGETS_P2 = [
    ('eraseDuplicates', (), 'eraseDuplicates'),
    ('insert', ('const int *', 'const int *'), 'insert_range'),
    ('insert', (ILIST,), 'insert_ilist'),
    ('operator=', (ILIST,), 'assign_ilist'),
    ('operator=', ('amc::FlatSet<int>::vector_type &&',), 'assign_vector'),
    ('FlatSet', ('const int *', 'const int *', COMP, ALLOC), 'ctor_range'),
    ('FlatSet', ('const int *', 'const int *', ALLOC), 'ctor_range_alloc'),
    ('FlatSet', (ILIST, COMP, ALLOC), 'ctor_ilist'),
    ('FlatSet', (ILIST, ALLOC), 'ctor_ilist_alloc'),
    ('FlatSet', ('amc::FlatSet<int>::vector_type &&', COMP, ALLOC), 'ctor_vector'),
]
TARGETS_P3 = [
    ('merge', (('re', r'FlatSet<int, std::greater<int>, .*> &'),), 'merge_other'),
    ('merge', ('amc::FlatSet<int> &',), 'merge'),
]
# ---- T9: heterogeneous lookups of the specialisation HET_SPEC (translated by HetTranslator, Lean names `*_het`)
HKEY = f'const {HET_KEY} &'
TARGETS_HET = [
    ('lower_bound', (HKEY,), 'lower_bound_het'),
    ('upper_bound', (HKEY,), 'upper_bound_het'),
    ('find', (HKEY,), 'find_het'),
    ('contains', (HKEY,), 'contains_het'),
    ('count', (HKEY,), 'count_het'),
]
LEVEL = int(os.environ.get('FLATSET2LEAN_LEVEL', '3'))
if LEVEL >= 2:
    TARGETS = TARGETS + TARGETS_P2
if LEVEL >= 3:
    TARGETS = TARGETS + TARGETS_P3

RESERVED = {'l', 'lt', 'α', 'some', 'none', 'if', 'then', 'else', 'match', 'with', 'let', 'fun', 'def', 'true', 'false',
            'o', 'lt_o', 'eqT', 'ltT', 'lt_default', 'st', 'at', 'from', 'end', 'in', 'do', 'ltEK', 'ltKE', 'κ'}


# ---------------------------------------------------------------------------------------------------------------------
# clang
# ---------------------------------------------------------------------------------------------------------------------

def parse_concat(src):
    dec = json.JSONDecoder(); i = 0; objs = []
    while i < len(src):
        while i < len(src) and src[i].isspace():
            i += 1
        if i >= len(src):
            break
        o, j = dec.raw_decode(src, i); objs.append(o); i = j
    return objs


def clang_dump(include, src_path, flt, defines=()):
    cmd = [CLANG, '-std=gnu++17'] + [f'-D{d}' for d in defines] + ['-I', include, '-fsyntax-only', '-Xclang', '-ast-dump=json',
           '-Xclang', f'-ast-dump-filter={flt}', src_path]
    try:
        p = subprocess.run(cmd, capture_output=True, text=True, timeout=CLANG_TIMEOUT)
    except subprocess.TimeoutExpired:
        raise Unsupported('clang timed out')
    if p.returncode != 0:
        raise Unsupported('clang failed on the instantiation TU: ' + p.stderr[-2000:])
    return parse_concat(p.stdout)


def annotate_lines(obj):
    """clang prints `line` (and `file`) of a location only when it differs from the previously printed location: make
    every location absolute.  Adds '_line' to every node (line of range.begin, expansion location for macros)."""
    state = {'line': None, 'file': None}

    def loc(d):
        # a bare source location {offset, [file], [line], col, tokLen} or {spellingLoc, expansionLoc}
        if 'spellingLoc' in d or 'expansionLoc' in d:
            for k in ('spellingLoc', 'expansionLoc'):   # clang's order of printing
                if k in d:
                    loc(d[k])
            d['_line'] = d.get('expansionLoc', d.get('spellingLoc', {})).get('_line')
            d['_file'] = d.get('expansionLoc', d.get('spellingLoc', {})).get('_file')
            return
        if 'file' in d:
            state['file'] = d['file']
        if 'line' in d:
            state['line'] = d['line']
        if 'offset' in d:
            d['_line'] = state['line']; d['_file'] = state['file']

    # '_line' is added while iterating: iterate over a snapshot of the items
    def walk_safe(n):
        if isinstance(n, dict):
            for k, v in list(n.items()):
                if k == 'loc' and isinstance(v, dict):
                    loc(v)
                elif k == 'range' and isinstance(v, dict):
                    for kk in ('begin', 'end'):
                        if kk in v:
                            loc(v[kk])
                    n['_line'] = v.get('begin', {}).get('_line')
                    n['_file'] = v.get('begin', {}).get('_file')
                elif isinstance(v, (dict, list)):
                    walk_safe(v)
        elif isinstance(n, list):
            for c in n:
                walk_safe(c)
    walk_safe(obj)


def qual(n):
    return n.get('type', {}).get('qualType', '')


def line_of(n):
    return n.get('_line')


def where(n):
    return f"flatset.hpp:{line_of(n)}" if line_of(n) else 'flatset.hpp:?'


def kids(n):
    return [c for c in n.get('inner', []) if isinstance(c, dict)]


def has_body(m):
    return any(c.get('kind') == 'CompoundStmt' for c in kids(m))


def body_of(m):
    return [c for c in kids(m) if c.get('kind') == 'CompoundStmt'][0]


def params_of(m):
    return [c for c in kids(m) if c.get('kind') == 'ParmVarDecl']


# ---------------------------------------------------------------------------------------------------------------------
# symbolic values
#   ('it', term)        iterator = Nat index (Lean term)
#   ('itbad', why)      poisoned iterator (before begin())
#   ('n', term)         non-negative integer (Lean Nat term)
#   ('int', k)          integer literal (Python int, may be negative)
#   ('b', True|False)   decided boolean;  ('bt', term) symbolic Bool term / Prop term usable after `if`
#   ('elem', term)      element value
#   ('comp',) ('this',) ('thisptr',) ('vec',) ('void',) ('default',)
#   ('pair', a, b)
# ---------------------------------------------------------------------------------------------------------------------

class Path:
    def __init__(self):
        self.lst = 'l'            # Lean term of the current content of *this
        self.olst = None          # Lean term of the current content of the other set (two-object members), else None
        self.cmp = 'lt'           # Lean term of the comparator object stored in *this
        self.ocmp = None          # ... in the other set
        self.ncalls = 0           # comparator calls made directly on this path
        self.csyms = ()           # symbolic call counts (results of lowerBound / of generated callees)
        self.known = {}           # atomic condition -> bool
        self.derefs = {}          # (list term, index term) -> bound element variable
        self.frames = [{}]        # stack of local-variable frames
        self.nfresh = 0
        self.cursor = None        # body of a cursor loop only: None (untouched) | 'erase' | 'next'

    def copy(self):
        p = self.__class__.__new__(self.__class__)
        for k, v in self.__dict__.items():
            if isinstance(v, dict):
                v = dict(v)
            elif isinstance(v, list):
                v = [dict(f) for f in v]
            p.__dict__[k] = v
        return p

    def calls_term(self):
        parts = list(self.csyms)
        if self.ncalls or not parts:
            parts.append(str(self.ncalls))
        return ' + '.join(parts)

    # the two objects of a two-object member: 's' = *this, 'o' = the other set
    def get_lst(self, who):
        return self.lst if who == 's' else self.olst

    def set_lst(self, who, t):
        if who == 's':
            self.lst = t
        else:
            self.olst = t

    def get_cmp(self, who):
        return self.cmp if who == 's' else self.ocmp

    def set_cmp(self, who, t):
        if who == 's':
            self.cmp = t
        else:
            self.ocmp = t


class Ite:
    def __init__(self, cond, t, f, line, note=''):
        self.cond, self.t, self.f, self.line, self.note = cond, t, f, line, note

class MatchIdx:
    def __init__(self, lst, idx, var, sub, line):
        self.lst, self.idx, self.var, self.sub, self.line = lst, idx, var, sub, line

class Bind:
    def __init__(self, call, var, sub, line):
        self.call, self.var, self.sub, self.line = call, var, sub, line

class Let:
    def __init__(self, var, term, sub, line):
        self.var, self.term, self.sub, self.line = var, term, sub, line

class Leaf:
    def __init__(self, lst, ret, calls, line):
        self.lst, self.ret, self.calls, self.line = lst, ret, calls, line

class UB:
    def __init__(self, why, line):
        self.why, self.line = why, line

class MatchOpt:
    """`match term with | none => a | some var => b` on a node handle (an `Option α`)"""
    def __init__(self, term, var, a, b, line, what='node handle: empty / holding a value'):
        self.term, self.var, self.a, self.b, self.line, self.what = term, var, a, b, line, what


def peel(n):
    """the expression under parentheses, implicit casts and temporaries (for syntactic recognition only)"""
    while isinstance(n, dict) and n.get('kind') in ('ParenExpr', 'ImplicitCastExpr', 'MaterializeTemporaryExpr', 'ExprWithCleanups',
                                                     'CXXBindTemporaryExpr') and len(kids(n)) == 1:
        n = kids(n)[0]
    return n


def leaves(t):
    if isinstance(t, Ite):
        yield from leaves(t.t); yield from leaves(t.f)
    elif isinstance(t, (MatchIdx, Bind, Let)):
        yield from leaves(t.sub)
    elif isinstance(t, MatchOpt):
        yield from leaves(t.a); yield from leaves(t.b)
    elif isinstance(t, Leaf):
        yield t


def atom(s):
    """parenthesise a Lean term unless it is atomic: `name`, `name.proj`, `(…)`, `(…).proj`"""
    s = s.strip()
    if all(ch.isalnum() or ch in '._' for ch in s) or s == '[]':
        return s
    if s.startswith('('):
        d = 0
        for i, ch in enumerate(s):
            if ch == '(':
                d += 1
            elif ch == ')':
                d -= 1
                if d == 0:
                    rest = s[i + 1:]
                    if rest == '' or (rest.startswith('.') and all(ch.isalnum() or ch in '._' for ch in rest)):
                        return s
                    break
    return f'({s})'


def nat_sub(a, k):
    if k == 0:
        return a
    return f'{atom(a)} - {k}'


def nat_add(a, k):
    if k == 0:
        return a
    if a == '0':
        return str(k)
    return f'{atom(a)} + {k}'


class Translator:
    HEADER = os.path.join('amc', 'flatset.hpp')
    CLASS = 'FlatSet'
    ITER_KINDS = ()

    def __init__(self, spec, others=(), target_table=None):
        self.spec = spec
        self.target_table = TARGETS if target_table is None else target_table
        self.by_id = {}          # decl id -> CXXMethodDecl / CXXConstructorDecl of the instantiation FlatSet<int>
        self.other_ids = {}      # decl id -> CXXMethodDecl of another specialisation of FlatSet (the `o` of merge<C2>)
        self.targets = {}        # decl id -> lean name
        self.sigs = {}           # lean name -> dict(pk=[kinds of the C++ parameters], ret=kind, const=bool, two=bool, extras=[..], ctor=bool)
        self.aux_defs = []       # auxiliary definitions (lambda bodies, loop bodies) of the function being translated
        self.extras = []         # extra Lean parameters used by the function being translated (eqT, ltT, lt_default)
        self.param_names = set()
        bases = spec.get('bases', [])
        if len(bases) != 1:
            raise Unsupported(f'FlatSet is expected to have exactly one base class (the comparator), found {len(bases)}')
        self.comp_type = bases[0]['type']['qualType']
        fields = [m.get('name') for m in kids(spec) if m.get('kind') == 'FieldDecl']
        if fields != ['_sortedVector']:
            raise Unsupported(f'flatset.hpp: the data members of FlatSet are expected to be exactly `_sortedVector`; found {fields} '
                              f'(the model has no such state)')
        targs = [qual(a) for a in kids(spec) if a.get('kind') == 'TemplateArgument']
        if len(targs) != 4:
            raise Unsupported(f'FlatSet is expected to have four template arguments, found {len(targs)}')
        self.alloc_type, self.vec_type = targs[2], targs[3]
        self.irt_fields = None
        for m in kids(spec):
            if m.get('kind') in ('CXXMethodDecl', 'CXXConstructorDecl'):
                self.by_id[m['id']] = m
            elif m.get('kind') == 'FunctionTemplateDecl':
                for c in kids(m):
                    if c.get('kind') in ('CXXMethodDecl', 'CXXConstructorDecl'):
                        self.by_id[c['id']] = c
            elif m.get('kind') == 'CXXRecordDecl' and m.get('name') == 'insert_return_type':
                self.irt_fields = [c.get('name') for c in kids(m) if c.get('kind') == 'FieldDecl']
        for sp in others:
            for m in kids(sp):
                if m.get('kind') == 'CXXMethodDecl':
                    self.other_ids[m['id']] = m
        for nm, ptypes, lean in self.target_table:
            found = [m for m in self.by_id.values()
                     if m.get('name') == nm and has_body(m) and self.match_ptypes(m, ptypes)
                     and (m.get('kind') == 'CXXConstructorDecl') == (nm == self.CLASS)]
            shown = ', '.join(p if isinstance(p, str) else p[1] for p in ptypes)
            if len(found) != 1:
                raise Unsupported(f'member FlatSet::{nm}({shown}) with a body: expected exactly one, found '
                                  f'{len(found)} (changed set of members)')
            if not str(found[0].get('_file')).endswith(self.HEADER):
                raise Unsupported(f'member FlatSet::{nm} is defined in {found[0].get("_file")}, not in amc/flatset.hpp')
            self.targets[found[0]['id']] = lean

    @staticmethod
    def match_ptypes(m, ptypes):
        ps = [qual(p) for p in params_of(m)]
        if len(ps) != len(ptypes):
            return False
        for a, b in zip(ps, ptypes):
            if isinstance(b, str):
                if a != b:
                    return False
            elif not re.fullmatch(b[1], a):
                return False
        return True

    # ---- kinds of C++ types -----------------------------------------------------------------------------------------
    def type_kind(self, ty, n):
        t = ty.replace('const ', '').replace(' &&', '').replace(' &', '').strip()
        if t in ('amc::FlatSet<int>::const_iterator', 'amc::FlatSet<int>::iterator', 'amc::FlatSet<int>::miterator',
                 'const_iterator', 'iterator', 'miterator', 'int *', 'int const *'):
            return 'it'
        if ty.strip() in ('const int *',):
            return 'it'
        if t in ('int', 'amc::FlatSet<int>::const_reference', 'amc::FlatSet<int>::key_type',
                 'amc::FlatSet<int>::value_type'):
            return 'elem'
        if t in ('amc::FlatSet<int>::size_type', 'unsigned int', 'unsigned long'):
            return 'n'
        if t == 'bool':
            return 'b'
        if t in ('std::pair<iterator, bool>', 'std::pair<amc::FlatSet<int>::iterator, bool>'):
            return ('pair', 'it', 'b')
        if t in ('std::pair<const_iterator, const_iterator>',):
            return ('pair', 'it', 'it')
        if t == 'void':
            return 'void'
        if t == 'amc::FlatSet<int>::node_type':
            return 'node'
        if t == 'amc::FlatSet<int>::insert_return_type':
            return 'irt'
        if t == self.comp_type:
            return 'comp'
        if t == 'amc::FlatSet<int>':
            return 'self'
        raise Unsupported(f'{where(n)}: type `{ty}` is outside the translated subset')

    def param_kind(self, p):
        """kind of a parameter of a translated member (more kinds than for local variables and returned values)"""
        ty = qual(p)
        t = ty.replace('const ', '').replace(' &&', '').replace(' &', '').strip()
        if ty == 'const int *':
            return 'range'                      # one end of an input range [first, last) (InputIt = const int *)
        if ty == 'std::initializer_list<value_type>':
            return 'ilist'
        if ty == 'amc::FlatSet<int>::vector_type &&':
            return 'vecval'
        if ty == 'amc::FlatSet<int>::node_type &&':
            return 'node'
        if t == self.alloc_type and ty.startswith('const ') and ty.endswith(' &'):
            return 'alloc'
        if t == self.comp_type and ty.startswith('const ') and ty.endswith(' &'):
            return 'comp'
        if ty in ('amc::FlatSet<int> &', 'const amc::FlatSet<int> &') or re.fullmatch(r'FlatSet<int, .*> &', ty):
            return 'other'
        kd = self.type_kind(ty, p)
        if kd in ('it', 'elem', 'key'):
            return kd
        raise Unsupported(f'{where(p)}: parameter `{p.get("name")}` of type `{ty}` is outside the translated subset')

    def lean_type(self, kind):
        if isinstance(kind, tuple):
            return f'{self.lean_type(kind[1])} × {self.lean_type(kind[2])}'
        return {'it': 'Nat', 'n': 'Nat', 'b': 'Bool', 'elem': 'α', 'void': 'Unit', 'self': 'Unit', 'node': 'Option α',
                'irt': 'Nat × Bool × Option α', 'key': 'κ'}[kind]

    def ret_kind(self, m):
        if m.get('kind') == 'CXXConstructorDecl':
            return 'void'
        ty = qual(m)
        return self.type_kind(ty[:ty.index('(')].strip(), m)

    # ---- helpers ----------------------------------------------------------------------------------------------------
    def fresh(self, path, prefix):
        v = f'{prefix}{path.nfresh}'
        path.nfresh += 1
        if v in self.param_names:
            raise Unsupported(f'generated variable name {v} collides with a C++ parameter name')
        return v

    def fork(self, path, cond, line, kt, kf, note=''):
        """fork on an atomic Lean condition (Prop or Bool term); a condition already decided on this path is not forked"""
        if cond in path.known:
            return kt(path) if path.known[cond] else kf(path)
        pt, pf = path.copy(), path.copy()
        pt.known[cond] = True; pf.known[cond] = False
        return Ite(cond, kt(pt), kf(pf), line, note)

    def branch(self, val, path, n, kt, kf):
        """continue with kt / kf according to a boolean value"""
        if val[0] == 'b':
            return kt(path) if val[1] else kf(path)
        if val[0] == 'bt':
            return self.fork(path, val[1], line_of(n), kt, kf)
        raise Unsupported(f'{where(n)}: a boolean was expected, found {val[0]}')

    def need_it(self, v, n, what):
        if v[0] in ('it', 'oit'):
            return None
        if v[0] == 'itbad':
            return UB(f'{what} of an iterator before begin() ({v[1]})', line_of(n))
        raise Unsupported(f'{where(n)}: {what}: an iterator was expected, found {v[0]}')

    def lookup(self, path, name, n):
        fr = path.frames[-1]
        if name not in fr:
            raise Unsupported(f'{where(n)}: reference to `{name}`, which is neither a parameter nor a local variable')
        return fr[name]

    EXTRA_TYPES = {'stateless': 'Bool'}      # every other extra parameter is a comparator `α → α → Bool`

    def use_extra(self, name):
        if name not in self.extras:
            self.extras.append(name)

    def extra_type(self, name):
        return self.EXTRA_TYPES.get(name, 'α → α → Bool')

    def source_text(self, n):
        """the spelling of an expression in the header (clang's JSON does not print the qualifier of a DeclRefExpr)"""
        r = n.get('range', {})
        b, e = r.get('begin', {}), r.get('end', {})
        b = b.get('expansionLoc', b); e = e.get('expansionLoc', e)
        f = n.get('_file')
        if f is None or 'offset' not in b or 'offset' not in e or not str(f).endswith(self.HEADER):
            return None
        try:
            with open(f, 'rb') as fh:
                data = fh.read()
        except OSError:
            return None
        return ''.join(data[b['offset']:e['offset'] + e.get('tokLen', 0)].decode('utf-8', 'replace').split())

    @staticmethod
    def comp_term(v):
        return v[1] if len(v) > 1 else 'lt'

    @staticmethod
    def it_who(v):
        return 'o' if v[0] == 'oit' else 's'

    def cur_self(self, path):
        return path.frames[-1].get('$self', 's')

    def node_term(self, o, n):
        if o[0] == 'onone':
            return 'none'
        if o[0] == 'osome':
            return f'some {atom(o[1])}'
        raise Unsupported(f'{where(n)}: the value of a moved-from node handle is used')

    def to_term(self, v, kind, n):
        """Lean term of a returned value of the given kind"""
        if isinstance(kind, tuple):
            if v[0] != 'pair':
                raise Unsupported(f'{where(n)}: a pair was expected, found {v[0]}')
            return f'({self.to_term(v[1], kind[1], n)}, {self.to_term(v[2], kind[2], n)})'
        if kind == 'it':
            if v[0] in ('it', 'oit'):
                return v[1]
            raise Unsupported(f'{where(n)}: an iterator value was expected, found {v[0]}')
        if kind == 'n':
            if v[0] == 'n':
                return v[1]
            if v[0] == 'int' and v[1] >= 0:
                return str(v[1])
            if v[0] == 'b':
                return '1' if v[1] else '0'
            raise Unsupported(f'{where(n)}: an unsigned value was expected, found {v[0]}')
        if kind == 'b':
            if v[0] == 'b':
                return 'true' if v[1] else 'false'
            if v[0] == 'bt':
                return v[1] if v[2] else f'decide ({v[1]})'
            raise Unsupported(f'{where(n)}: a boolean was expected, found {v[0]}')
        if kind == 'elem':
            if v[0] == 'elem':
                return v[1]
        if kind in ('void', 'self'):
            return '()'
        if kind == 'node':
            if v[0] == 'node':
                return self.node_term(v[1], n)
            raise Unsupported(f'{where(n)}: a node handle was expected, found {v[0]}')
        if kind == 'irt':
            if v[0] == 'rec' and sorted(v[1]) == sorted(self.irt_fields or []) and self.irt_fields == ['position', 'inserted', 'node']:
                d = v[1]
                return (f'({self.to_term(d["position"], "it", n)}, {self.to_term(d["inserted"], "b", n)}, '
                        f'{self.to_term(d["node"], "node", n)})')
            raise Unsupported(f'{where(n)}: an insert_return_type {{position, inserted, node}} was expected, found {v[0]}')
        raise Unsupported(f'{where(n)}: cannot return a {v[0]} as {kind}')

    def from_term(self, term, kind):
        if isinstance(kind, tuple):
            return ('pair', self.from_term(f'{term}.1', kind[1]), self.from_term(f'{term}.2', kind[2]))
        if kind == 'b':
            return ('bt', term, True)
        if kind in ('void', 'self'):
            return ('void',)
        return (kind, term)

    # ---- lvalues: a local variable or parameter followed by data-member accesses ---------------------------------------
    def lvalue_path(self, n):
        n = peel(n)
        if n.get('kind') == 'DeclRefExpr' and n.get('referencedDecl', {}).get('kind') in ('VarDecl', 'ParmVarDecl'):
            return (n['referencedDecl']['name'], ())
        if n.get('kind') == 'MemberExpr' and len(kids(n)) == 1:
            b = self.lvalue_path(kids(n)[0])
            if b is not None:
                return (b[0], b[1] + (n.get('name'),))
        return None

    def get_field(self, v, f, n):
        if v[0] == 'rec' and f in v[1]:
            return v[1][f]
        if v[0] == 'node' and f == '_optV':
            return ('opt', v[1])
        if v[0] == 'pair' and f == 'first':
            return v[1]
        if v[0] == 'pair' and f == 'second':
            return v[2]
        raise Unsupported(f'{where(n)}: member access `.{f}` on a {v[0]}')

    def set_field(self, v, fields, new, n):
        if not fields:
            if v[0] == 'opt' or new[0] in ('opt', 'nullopt'):
                if new[0] == 'nullopt':
                    return ('opt', ('onone',))
                if new[0] == 'opt' and v[0] == 'opt':
                    return new
                raise Unsupported(f'{where(n)}: assignment of a {new[0]} to a {v[0]}')
            if v[0] == 'it' and new[0] in ('it', 'itbad'):
                return new
            if v[0] in self.ITER_KINDS and new[0] in self.ITER_KINDS:
                return new
            if v[0] in ('b', 'bt') and new[0] in ('b', 'bt'):
                return new
            if v[0] == new[0]:
                return new
            if v[0] == 'cursor' and new[0] == 'cur_erase':
                return v
            raise Unsupported(f'{where(n)}: assignment of a {new[0]} to a {v[0]}')
        f = fields[0]
        if v[0] == 'rec' and f in v[1]:
            d = dict(v[1])
            d[f] = self.set_field(d[f], fields[1:], new, n)
            return ('rec', d)
        if v[0] == 'node' and f == '_optV' and len(fields) == 1:
            r = self.set_field(('opt', v[1]), (), new, n)
            return ('node', r[1])
        raise Unsupported(f'{where(n)}: assignment to member `.{f}` of a {v[0]}')

    def store(self, path, lp, new, n):
        """the path after the assignment `lp = new`"""
        old = self.lookup(path, lp[0], n)
        p = path.copy()
        p.frames[-1][lp[0]] = self.set_field(old, lp[1], new, n)
        return p

    # ---- expressions (continuation-passing: k(path, value) -> tree) ---------------------------------------------------
    def eval(self, n, path, k):
        kind = n.get('kind')
        f = getattr(self, 'e_' + kind, None)
        if f is None:
            raise Unsupported(f'{where(n)}: expression kind {kind} is outside the translated subset')
        return f(n, path, k)

    def eval_list(self, ns, path, k, acc=()):
        if not ns:
            return k(path, list(acc))
        return self.eval(ns[0], path, lambda p, v: self.eval_list(ns[1:], p, k, acc + (v,)))

    def passthrough(self, n, path, k):
        c = kids(n)
        if len(c) != 1:
            raise Unsupported(f'{where(n)}: {n.get("kind")} with {len(c)} operands')
        return self.eval(c[0], path, k)

    e_ParenExpr = passthrough
    e_MaterializeTemporaryExpr = passthrough
    e_ExprWithCleanups = passthrough
    e_CXXBindTemporaryExpr = passthrough
    e_ConstantExpr = passthrough

    def e_ImplicitCastExpr(self, n, path, k):
        ck = n.get('castKind')
        c = kids(n)[0]
        if ck in ('LValueToRValue', 'NoOp', 'UncheckedDerivedToBase', 'DerivedToBase', 'UserDefinedConversion'):
            def cont(p, v):
                if ck in ('DerivedToBase', 'UncheckedDerivedToBase') and v[0] == 'this':
                    t = qual(n).replace('const ', '').strip()
                    if t != self.comp_type and v[1] == 's':
                        raise Unsupported(f'{where(n)}: cast of *this to `{qual(n)}` (only the comparator base `{self.comp_type}` is known)')
                    return k(p, ('comp', p.get_cmp(v[1]), v[1]))
                if ck in ('DerivedToBase', 'UncheckedDerivedToBase') and v[0] not in ('vec',):
                    raise Unsupported(f'{where(n)}: derived-to-base cast of a {v[0]}')
                return k(p, v)
            return self.eval(c, path, cont)
        if ck == 'IntegralCast':
            def cont(p, v):
                if v[0] in ('int', 'n', 'b'):
                    return k(p, v)
                if v[0] == 'diff':
                    # a signed iterator difference converted to an unsigned type: `a - b` on Nat when b <= a; a negative
                    # difference would wrap around, which is not what the code means: undefined behaviour of the model
                    if self.type_kind(qual(n), n) != 'n':
                        raise Unsupported(f'{where(n)}: iterator difference converted to `{qual(n)}`')
                    return self.fork(p, f'{v[2]} ≤ {v[1]}', line_of(n),
                                     lambda q: k(q, ('n', f'{atom(v[1])} - {atom(v[2])}')),
                                     lambda q: UB('negative iterator difference converted to an unsigned type', None),
                                     note='iterator difference to size_type: last >= first')
                if v[0] == 'bt':   # bool -> integer: decide it
                    return self.branch(v, p, n, lambda q: k(q, ('b', True)), lambda q: k(q, ('b', False)))
                raise Unsupported(f'{where(n)}: integral cast of a {v[0]}')
            return self.eval(c, path, cont)
        raise Unsupported(f'{where(n)}: implicit cast {ck} is outside the translated subset')

    def e_CXXStaticCastExpr(self, n, path, k):
        if n.get('castKind') != 'NoOp':
            raise Unsupported(f'{where(n)}: static_cast of kind {n.get("castKind")}')
        return self.passthrough(n, path, k)

    def e_CXXFunctionalCastExpr(self, n, path, k):
        # `T(args...)` with one argument of the element type: the constructed value is the value of the model
        if n.get('castKind') != 'NoOp' or self.type_kind(qual(n), n) != 'elem':
            raise Unsupported(f'{where(n)}: functional cast to `{qual(n)}` ({n.get("castKind")})')
        def cont(p, v):
            if v[0] != 'elem':
                raise Unsupported(f'{where(n)}: element constructed from a {v[0]}')
            return k(p, v)
        return self.eval(kids(n)[0], path, cont)

    def e_CXXThisExpr(self, n, path, k):
        return k(path, ('thisptr', self.cur_self(path)))

    def e_IntegerLiteral(self, n, path, k):
        return k(path, ('int', int(n['value'])))

    def e_CXXBoolLiteralExpr(self, n, path, k):
        return k(path, ('b', bool(n['value'])))

    def e_CXXDefaultArgExpr(self, n, path, k):
        return k(path, ('default',))

    def e_DeclRefExpr(self, n, path, k):
        rd = n.get('referencedDecl', {})
        if rd.get('kind') in ('ParmVarDecl', 'VarDecl'):
            if rd.get('name') == 'nullopt' and 'nullopt' not in path.frames[-1]:
                return k(path, ('nullopt',))
            if rd.get('name') == 'value' and 'value' not in path.frames[-1] and qual(n) == 'const bool':
                # a type trait. Only `std::is_empty<Compare>::value` is known: whether the comparator TYPE is stateless is a
                # parameter `stateless` of the generated definition (the instantiation translated has a stateless comparator,
                # both arms are translated)
                txt = self.source_text(n)
                if txt == 'std::is_empty<Compare>::value':
                    self.use_extra('stateless')
                    return k(path, ('bt', 'stateless', True))
                raise Unsupported(f'{where(n)}: reference to the constant `{txt or "value"}` (only std::is_empty<Compare>::value is known)')
            return k(path, self.lookup(path, rd['name'], n))
        raise Unsupported(f'{where(n)}: reference to {rd.get("kind")} `{rd.get("name")}`')

    def e_MemberExpr(self, n, path, k):
        name = n.get('name')
        def cont(p, v):
            if v[0] in ('thisptr', 'this') and name == '_sortedVector':
                return k(p, ('vec', v[1] if len(v) > 1 else 's'))
            if v[0] in ('rec', 'node', 'pair'):
                return k(p, self.get_field(v, name, n))
            raise Unsupported(f'{where(n)}: member access `.{name}` on a {v[0]}')
        return self.eval(kids(n)[0], path, cont)

    def e_InitListExpr(self, n, path, k):
        if self.type_kind(qual(n), n) != 'irt' or not self.irt_fields or len(kids(n)) != len(self.irt_fields):
            raise Unsupported(f'{where(n)}: initialiser list for `{qual(n)}`')
        return self.eval_list(kids(n), path, lambda p, vs: k(p, ('rec', dict(zip(self.irt_fields, vs)))))

    def e_UnaryOperator(self, n, path, k):
        op = n.get('opcode')
        c = kids(n)[0]
        if op == '!':
            def cont(p, v):
                if v[0] == 'b':
                    return k(p, ('b', not v[1]))
                if v[0] == 'bt':
                    return self.branch(v, p, n, lambda q: k(q, ('b', False)), lambda q: k(q, ('b', True)))
                raise Unsupported(f'{where(n)}: `!` applied to a {v[0]}')
            return self.eval(c, path, cont)
        if op == '-':
            def cont(p, v):
                if v[0] == 'int':
                    return k(p, ('int', -v[1]))
                raise Unsupported(f'{where(n)}: unary minus applied to a {v[0]}')
            return self.eval(c, path, cont)
        if op == '*':
            def cont(p, v):
                if v[0] == 'thisptr':
                    return k(p, ('this', v[1] if len(v) > 1 else 's'))
                if v[0] == 'cursor':
                    if p.cursor is not None:
                        raise Unsupported(f'{where(n)}: the loop iterator is dereferenced after it has been advanced')
                    return k(p, ('elem', 'x'))
                bad = self.need_it(v, n, 'dereference')
                if bad:
                    return bad
                return self.deref(p, p.get_lst(self.it_who(v)), v[1], n, k)
            return self.eval(c, path, cont)
        if op in ('++', '--') and not n.get('isPostfix'):
            lp = self.lvalue_path(c)
            if lp is not None and not lp[1]:
                v = self.lookup(path, lp[0], n)
                if v[0] == 'cursor' and op == '++':
                    if path.cursor is not None:
                        raise Unsupported(f'{where(n)}: the loop iterator is advanced twice on a path')
                    p = path.copy()
                    p.cursor = 'next'
                    return k(p, ('void',))
                if v[0] in ('it', 'oit'):
                    def cont(p, w):
                        if w[0] == 'itbad':
                            return UB(f'`--` moves an iterator before begin() ({w[1]})', line_of(n))
                        return k(self.store(p, lp, (v[0], w[1]), n), ('void',))
                    return self.it_offset(path, ('it', v[1]), 1 if op == '++' else -1, n, cont)
            raise Unsupported(f'{where(n)}: `{op}` on something else than a local iterator variable')
        raise Unsupported(f'{where(n)}: unary operator `{op}` is outside the translated subset')

    def deref(self, path, lst, idx, n, k):
        key = (lst, idx)
        if key in path.derefs:
            return k(path, ('elem', path.derefs[key]))
        p = path.copy()
        var = self.fresh(p, 'x')
        p.derefs[key] = var
        p.known[f'{idx} < {atom(lst)}.length'] = True
        return MatchIdx(lst, idx, var, k(p, ('elem', var)), line_of(n))

    def it_offset(self, path, v, off, n, k):
        """iterator + integer literal"""
        bad = self.need_it(v, n, 'arithmetic')
        if bad:
            return bad
        if off >= 0:
            return k(path, (v[0], nat_add(v[1], off)))
        m = -off
        cond = f'{v[1]} = 0' if m == 1 else f'{v[1]} < {m}'
        return self.fork(path, cond, line_of(n),
                         lambda p: k(p, ('itbad', f'{v[1]} - {m} with {cond}')),
                         lambda p: k(p, (v[0], nat_sub(v[1], m))),
                         note=f'iterator - {m}: before begin() on the first arm')

    def compare(self, op, a, b, n, path, k):
        for v in (a, b):
            bad = self.need_it(v, n, 'comparison') if v[0] in ('it', 'itbad', 'oit') else None
            if bad:
                return bad
        if a[0] == b[0] and a[0] in ('it', 'oit'):
            x, y = a[1], b[1]
            if op == '==':
                return k(path, ('b', True)) if x == y else k(path, ('bt', f'{x} = {y}', False))
            if op == '!=':
                if x == y:
                    return k(path, ('b', False))
                return self.fork(path, f'{x} = {y}', line_of(n), lambda p: k(p, ('b', False)), lambda p: k(p, ('b', True)))
            if op in ('<', '<='):
                return k(path, ('bt', f'{x} {"<" if op == "<" else "≤"} {y}', False))
            if op in ('>', '>='):
                return k(path, ('bt', f'{y} {"<" if op == ">" else "≤"} {x}', False))
        def num(v):
            if v[0] == 'n':
                return v[1]
            if v[0] == 'int' and v[1] >= 0:
                return str(v[1])
            return None
        x, y = num(a), num(b)
        if x is not None and y is not None and op in ('==', '!='):
            if op == '==':
                return k(path, ('bt', f'{x} = {y}', False))
            return self.fork(path, f'{x} = {y}', line_of(n), lambda p: k(p, ('b', False)), lambda p: k(p, ('b', True)))
        raise Unsupported(f'{where(n)}: comparison `{op}` of a {a[0]} and a {b[0]}')

    def e_BinaryOperator(self, n, path, k):
        op = n.get('opcode')
        lhs, rhs = kids(n)
        if op == '||':
            return self.eval(lhs, path, lambda p, v: self.branch(
                v, p, lhs, lambda q: k(q, ('b', True)),
                lambda q: self.eval(rhs, q, lambda r, w: self.branch(w, r, rhs, lambda s: k(s, ('b', True)), lambda s: k(s, ('b', False))))))
        if op == '&&':
            return self.eval(lhs, path, lambda p, v: self.branch(
                v, p, lhs,
                lambda q: self.eval(rhs, q, lambda r, w: self.branch(w, r, rhs, lambda s: k(s, ('b', True)), lambda s: k(s, ('b', False)))),
                lambda q: k(q, ('b', False))))
        if op in ('==', '!=', '<', '<=', '>', '>='):
            return self.eval(lhs, path, lambda p, a: self.eval(rhs, p, lambda q, b: self.compare(op, a, b, n, q, k)))
        if op in ('+', '-'):
            def cont(p, a, b):
                if a[0] in ('it', 'itbad', 'oit') and b[0] == 'int':
                    return self.it_offset(p, a, b[1] if op == '+' else -b[1], n, k)
                if op == '-' and a[0] == 'it' and b[0] == 'it' and b[1] == '0':       # it - begin()
                    return k(p, ('n', a[1]))
                if op == '-' and a[0] == 'it' and b[0] == 'it' and qual(n) == 'long':
                    # difference_type of two iterators of *this (the order in which the two operands are evaluated is
                    # unspecified in C++; the translator evaluates the left one first)
                    return k(p, ('diff', a[1], b[1]))
                if op == '+' and a[0] == 'it' and b[0] == 'n':
                    return k(p, ('it', b[1] if a[1] == '0' else f'{atom(a[1])} + {atom(b[1])}'))
                if op == '+' and a[0] == 'n' and b[0] == 'n':
                    return k(p, ('n', f'{atom(a[1])} + {atom(b[1])}'))
                raise Unsupported(f'{where(n)}: `{op}` on a {a[0]} and a {b[0]}')
            return self.eval(lhs, path, lambda p, a: self.eval(rhs, p, lambda q, b: cont(q, a, b)))
        if op == '=':
            lp = self.lvalue_path(lhs)
            if lp is None or (not lp[1] and peel(lhs).get('referencedDecl', {}).get('kind') != 'VarDecl'):
                raise Unsupported(f'{where(n)}: assignment to something else than a local variable')
            def cont(p, v):
                return k(self.store(p, lp, v, n), v)
            return self.eval(rhs, path, cont)
        raise Unsupported(f'{where(n)}: binary operator `{op}` is outside the translated subset')

    def e_ConditionalOperator(self, n, path, k):
        c, a, b = kids(n)
        return self.eval(c, path, lambda p, v: self.branch(v, p, c, lambda q: self.eval(a, q, k), lambda q: self.eval(b, q, k)))

    def construct(self, n, path, k):
        ty = qual(n).replace('const ', '')
        args = kids(n)
        if ty == self.comp_type and len(args) == 1:
            def cont(p, v):
                if v[0] != 'comp':
                    raise Unsupported(f'{where(n)}: comparator constructed from a {v[0]}')
                return k(p, ('comp', self.comp_term(v), None))
            return self.eval(args[0], path, cont)
        if ty == self.comp_type and not args:
            # a default-constructed comparator: NOT the comparator object stored in the set
            self.use_extra('lt_default')
            return k(path, ('comp', 'lt_default', None))
        if ty.startswith('std::pair<'):
            if len(args) == 2:
                return self.eval_list(args, path, lambda p, vs: k(p, ('pair', vs[0], vs[1])))
            if len(args) == 1:   # copy / move of a pair
                def cont(p, v):
                    if v[0] != 'pair':
                        raise Unsupported(f'{where(n)}: pair constructed from a {v[0]}')
                    return k(p, v)
                return self.eval(args[0], path, cont)
        if ty == 'amc::FlatSet<int>::node_type':
            if len(args) == 1:
                src = peel(args[0])
                moved = None
                if src.get('kind') == 'CallExpr' and len(kids(src)) == 2 and \
                        peel(kids(src)[0]).get('referencedDecl', {}).get('name') == 'move':
                    moved = self.lvalue_path(kids(src)[1])
                def cont(p, v):
                    if v[0] == 'alloc':
                        return k(p, ('node', ('onone',)))
                    if v[0] != 'node':
                        raise Unsupported(f'{where(n)}: node handle constructed from a {v[0]}')
                    if moved is not None:
                        # the defaulted move constructor leaves the source optional engaged with a moved-from value
                        p = self.store(p, moved, ('node', ('omoved',)), n)
                    return k(p, v)
                return self.eval(args[0], path, cont)
            if len(args) == 2:
                def cont(p, vs):
                    if vs[0][0] != 'elem' or vs[1][0] != 'alloc':
                        raise Unsupported(f'{where(n)}: node_type({vs[0][0]}, {vs[1][0]})')
                    return k(p, ('node', ('osome', vs[0][1])))
                return self.eval_list(args, path, cont)
        if ty in ('std::optional<int>', 'std::optional<value_type>') and len(args) == 1:
            def cont(p, v):
                if v[0] == 'elem':
                    return k(p, ('opt', ('osome', v[1])))
                if v[0] in ('opt', 'nullopt'):
                    return k(p, v)
                raise Unsupported(f'{where(n)}: std::optional constructed from a {v[0]}')
            return self.eval(args[0], path, cont)
        if ty in ('std::nullopt_t', 'amc::FlatSet<int>::insert_return_type', 'std::initializer_list<value_type>',
                  'std::initializer_list<int>') and len(args) == 1:
            want = {'std::nullopt_t': 'nullopt', 'amc::FlatSet<int>::insert_return_type': 'rec'}.get(ty, 'ilist')
            def cont(p, v):
                if v[0] != want:
                    raise Unsupported(f'{where(n)}: `{qual(n)}` constructed from a {v[0]}')
                return k(p, v)
            return self.eval(args[0], path, cont)
        raise Unsupported(f'{where(n)}: construction of `{qual(n)}` with {len(args)} argument(s)')

    e_CXXConstructExpr = construct
    e_CXXTemporaryObjectExpr = construct

    def e_CXXOperatorCallExpr(self, n, path, k):
        c = kids(n)
        callee = c[0]
        while callee.get('kind') == 'ImplicitCastExpr':
            callee = kids(callee)[0]
        rd = callee.get('referencedDecl', {})
        name = rd.get('name')
        if name == 'operator()' and len(c) == 4:
            def cont(p, vs):
                o, a, b = vs
                if o[0] != 'comp':
                    raise Unsupported(f'{where(n)}: operator() called on a {o[0]} (only the comparator of the set is known)')
                fn = self.comp_overload(n, rd, c[2], c[3], o, a, b)
                p = p.copy()
                p.ncalls += 1
                return k(p, ('bt', f'{atom(fn)} {atom(a[1])} {atom(b[1])}', True))
            return self.eval_list(c[1:], path, cont)
        if name == 'operator*' and len(c) == 2:
            def cont(p, v):
                if v[0] != 'opt':
                    raise Unsupported(f'{where(n)}: overloaded `*` applied to a {v[0]}')
                if v[1][0] == 'osome':
                    return k(p, ('elem', v[1][1]))
                if v[1][0] == 'onone':
                    return UB('`*` of an empty std::optional (node handle without a value)', line_of(n))
                return UB('`*` of a moved-from node handle', line_of(n))
            return self.eval(c[1], path, cont)
        if name == 'operator=' and len(c) == 3:
            return self.assign_op(n, c[1], c[2], path, k)
        if name in ('operator==', 'operator<') and len(c) == 3:
            def cont(p, vs):
                a, b = vs
                if a[0] == 'vec' and b[0] == 'vec':
                    # operator== / operator< of the underlying vector: std::equal on equal sizes / std::lexicographical_compare,
                    # both with the operators of the ELEMENT type (not the comparator of the set)
                    ex, fn = ('eqT', 'vecEq') if name == 'operator==' else ('ltT', 'vecLess')
                    self.use_extra(ex)
                    return k(p, ('bt', f'{fn} {ex} {atom(p.get_lst(a[1]))} {atom(p.get_lst(b[1]))}', True))
                if a[0] == 'this' and b[0] == 'this' and rd.get('id') in self.targets:
                    return self.call_two(n, self.targets[rd['id']], a[1], b[1], p, k)
                raise Unsupported(f'{where(n)}: `{name}` applied to a {a[0]} and a {b[0]}')
            return self.eval_list(c[1:], path, cont)
        raise Unsupported(f'{where(n)}: call of overloaded operator `{name}` is outside the translated subset')

    def comp_overload(self, n, rd, ea, eb, o, a, b):
        """the Lean function that a call `comp(a, b)` of the comparator object `o` evaluates (rd: the `operator()` declaration
        referenced, ea / eb: the two argument expressions)"""
        if a[0] != 'elem' or b[0] != 'elem':
            raise Unsupported(f'{where(n)}: comparator applied to a {a[0]} and a {b[0]}')
        return self.comp_term(o)

    def bound_by_key(self, n, name, rd, first, ln, val, comp, path):
        """the Lean term of `std::lower_bound / upper_bound (first, first + ln, key, comp)` with a key of another type"""
        raise Unsupported(f'{where(n)}: std::{name}(…, {val[0]}, {comp[0]})')

    def assign_op(self, n, lhs, rhs, path, k):
        """an overloaded `operator=`: optional = nullopt / optional, std::tie(a, b) = pair, _sortedVector = vector&&"""
        l = peel(lhs)
        if l.get('kind') == 'CallExpr' and peel(kids(l)[0]).get('referencedDecl', {}).get('name') == 'tie':
            lps = [self.lvalue_path(a) for a in kids(l)[1:]]
            if len(lps) != 2 or any(lp is None for lp in lps):
                raise Unsupported(f'{where(n)}: std::tie of something else than two variables / data members')
            def cont(p, v):
                if v[0] != 'pair':
                    raise Unsupported(f'{where(n)}: std::tie(…) = {v[0]}')
                p = self.store(p, lps[0], v[1], n)
                p = self.store(p, lps[1], v[2], n)
                return k(p, ('void',))
            return self.eval(rhs, path, cont)
        lp = self.lvalue_path(l)
        if lp is not None:
            def cont(p, v):
                if v[0] not in ('opt', 'nullopt') and v[0] not in self.ITER_KINDS:
                    raise Unsupported(f'{where(n)}: overloaded assignment of a {v[0]}')
                return k(self.store(p, lp, v, n), ('void',))
            return self.eval(rhs, path, cont)
        def on_lhs(p, lv):
            if lv[0] != 'vec':
                raise Unsupported(f'{where(n)}: overloaded assignment to a {lv[0]}')
            def cont(q, v):
                if v[0] != 'vecval':
                    raise Unsupported(f'{where(n)}: assignment of a {v[0]} to the underlying vector')
                q = q.copy()
                q.set_lst(lv[1], v[1])
                return k(q, ('void',))
            return self.eval(rhs, p, cont)
        return self.eval(lhs, path, on_lhs)

    def e_LambdaExpr(self, n, path, k):
        """a lambda `[&c…](const_reference a, const_reference b) { return …; }` passed to a library algorithm: its body is
        executed symbolically on its own and emitted as an auxiliary Bool-valued definition"""
        c = kids(n)
        rec = [x for x in c if x.get('kind') == 'CXXRecordDecl']
        body = [x for x in c if x.get('kind') == 'CompoundStmt']
        if len(rec) != 1 or len(body) != 1:
            raise Unsupported(f'{where(n)}: lambda expression of an unknown shape')
        ops = [m for m in kids(rec[0]) if m.get('kind') == 'CXXMethodDecl' and m.get('name') == 'operator()']
        if len(ops) != 1:
            raise Unsupported(f'{where(n)}: lambda without a single operator()')
        ps = params_of(ops[0])
        if len(ps) != 2 or any(self.type_kind(qual(q), q) != 'elem' for q in ps) or self.ret_kind(ops[0]) != 'b':
            raise Unsupported(f'{where(n)}: only a binary predicate on elements is known as a lambda')
        caps = [x for x in c if x.get('kind') == 'DeclRefExpr']
        frame = {}
        outer = None
        for cp in caps:
            nm = cp.get('referencedDecl', {}).get('name')
            v = self.lookup(path, nm, cp)
            if v[0] != 'comp' or outer is not None:
                raise Unsupported(f'{where(cp)}: lambda capture `{nm}` of a {v[0]} (only one capture, of a comparator, is known)')
            outer = self.comp_term(v)
            frame[nm] = ('comp', 'lt', None)          # inside the auxiliary definition the captured comparator is called `lt`
        names = []
        for q in ps:
            nm = q.get('name')
            lnm = nm + '_' if nm in RESERVED else nm
            names.append(lnm)
            frame[nm] = ('elem', lnm)
        sub = Path()
        sub.frames = [frame]
        saved = self.param_names
        self.param_names = set(names)
        def kret(p, v):
            return Leaf(None, self.to_term(v, 'b', n), None, None)
        def no_fall(p):
            raise Unsupported(f'{where(n)}: control reaches the end of the lambda')
        tree = self.exec_block(body, sub, no_fall, kret)
        self.param_names = saved
        for lf in self.walk(tree):
            if isinstance(lf, (UB, MatchIdx, Bind, MatchOpt)):
                raise Unsupported(f'{where(n)}: the lambda body does more than comparing its arguments')
        lines = self.emit(tree, 1)
        uses_default = any('lt_default' in ln for ln in lines)
        name = f'{self.cur_lean}_pred'
        if name in self.aux_names:
            raise Unsupported(f'{where(n)}: more than one lambda in a member')
        self.aux_names.append(name)
        sig = f'def {name} (lt : α → α → Bool)' + (' (lt_default : α → α → Bool)' if uses_default else '') + \
              ''.join(f' ({nm} : α)' for nm in names) + ' : Bool :='
        what = f'capturing the comparator `{caps[0].get("referencedDecl", {}).get("name")}`, here `lt`' if caps else 'capturing nothing'
        doc = (f'/-- flatset.hpp:{line_of(n)} the lambda passed to a library algorithm in `{self.cur_cpp}` ({what}); '
               f'comparator calls are not counted -/')
        self.aux_defs.append('\n'.join([doc, sig] + lines) + '\n')
        return k(path, ('pred', f'{name} {atom(outer if outer is not None else path.cmp)}' + (' lt_default' if uses_default else '')))

    def walk(self, t):
        yield t
        if isinstance(t, Ite):
            yield from self.walk(t.t); yield from self.walk(t.f)
        elif isinstance(t, (MatchIdx, Bind, Let)):
            yield from self.walk(t.sub)
        elif isinstance(t, MatchOpt):
            yield from self.walk(t.a); yield from self.walk(t.b)

    def e_CallExpr(self, n, path, k):
        c = kids(n)
        callee = c[0]
        while callee.get('kind') == 'ImplicitCastExpr':
            callee = kids(callee)[0]
        rd = callee.get('referencedDecl', {})
        if callee.get('kind') != 'DeclRefExpr' or rd.get('kind') != 'FunctionDecl':
            raise Unsupported(f'{where(n)}: call through something else than a named function')
        name = rd.get('name')
        args = c[1:]
        if name in ('forward', 'move') and len(args) == 1:
            return self.eval(args[0], path, k)
        if name == 'make_move_iterator' and len(args) == 1:
            def cont(p, v):
                if v[0] not in ('it', 'oit'):
                    raise Unsupported(f'{where(n)}: std::make_move_iterator of a {v[0]}')
                return k(p, v)
            return self.eval(args[0], path, cont)
        if name in ('next', 'prev') and len(args) == 2:
            def cont(p, vs):
                it, d = vs
                if d[0] == 'default':
                    d = ('int', 1)
                if d[0] != 'int':
                    raise Unsupported(f'{where(n)}: std::{name} with a non-literal distance')
                return self.it_offset(p, it, d[1] if name == 'next' else -d[1], n, k)
            return self.eval_list(args, path, cont)
        if name in ('lower_bound', 'upper_bound') and len(args) == 4:
            def cont(p, vs):
                first, last, val, comp = vs
                for it in (first, last):
                    bad = self.need_it(it, n, f'std::{name}')
                    if bad:
                        return bad
                if first[0] != 'it' or last[0] != 'it':
                    raise Unsupported(f'{where(n)}: std::{name} on a range of the other set')
                if val[0] not in ('elem', 'key') or comp[0] != 'comp':
                    raise Unsupported(f'{where(n)}: std::{name}(…, {val[0]}, {comp[0]})')
                p = p.copy()
                var = self.fresh(p, 'r')
                ln = last[1] if first[1] == '0' else f'{atom(last[1])} - {atom(first[1])}'
                if val[0] == 'key':
                    term = self.bound_by_key(n, name, rd, first[1], ln, val, comp, p)
                else:
                    fn = 'Sets.lowerBound' if name == 'lower_bound' else 'Sets.upperBound'
                    term = f'{fn} {atom(self.comp_term(comp))} {atom(p.lst)} {atom(val[1])} {atom(first[1])} {atom(ln)}'
                p.csyms = p.csyms + (f'{var}.2',)
                return Let(var, term, k(p, ('it', f'{var}.1')), line_of(n))
            return self.eval_list(args, path, cont)
        if name in ('stable_sort', 'sort') and len(args) == 3:
            def cont(p, vs):
                first, last, comp = vs
                if first[0] != 'it' or last[0] != 'it' or comp[0] != 'comp':
                    raise Unsupported(f'{where(n)}: std::{name}({first[0]}, {last[0]}, {comp[0]})')
                if last[1] != f'{atom(p.lst)}.length':
                    raise Unsupported(f'{where(n)}: std::{name} on a range that does not end at end() of the underlying vector')
                if name == 'sort':
                    raise Unsupported(f'{where(n)}: std::sort is not a stable sort: equivalent elements may be reordered, so which of them '
                                      f'survives eraseDuplicates() is unspecified; there is no list function for it (the model inserts in input order)')
                p = p.copy()
                p.lst = f'stableSortTail {atom(self.comp_term(comp))} {atom(p.lst)} {atom(first[1])}'
                return k(p, ('void',))
            return self.eval_list(args, path, cont)
        if name == 'inplace_merge' and len(args) == 4:
            def cont(p, vs):
                first, mid, last, comp = vs
                if first[0] != 'it' or mid[0] != 'it' or last[0] != 'it' or comp[0] != 'comp':
                    raise Unsupported(f'{where(n)}: std::inplace_merge({first[0]}, {mid[0]}, {last[0]}, {comp[0]})')
                if first[1] != '0' or last[1] != f'{atom(p.lst)}.length':
                    raise Unsupported(f'{where(n)}: std::inplace_merge on something else than [begin(), mid, end()) of the underlying vector')
                p = p.copy()
                p.lst = f'inplaceMerge {atom(self.comp_term(comp))} {atom(p.lst)} {atom(mid[1])}'
                return k(p, ('void',))
            return self.eval_list(args, path, cont)
        if name == 'unique' and len(args) == 3:
            def cont(p, vs):
                first, last, pred = vs
                if first[0] != 'it' or last[0] != 'it' or pred[0] != 'pred':
                    raise Unsupported(f'{where(n)}: std::unique({first[0]}, {last[0]}, {pred[0]})')
                if first[1] != '0' or last[1] != f'{atom(p.lst)}.length':
                    raise Unsupported(f'{where(n)}: std::unique on something else than [begin(), end()) of the underlying vector')
                return k(p, ('uniq', pred[1], p.lst))
            return self.eval_list(args, path, cont)
        if name == 'swap' and len(args) == 2:
            def cont(p, vs):
                a, b = vs
                if a[0] != 'comp' or b[0] != 'comp' or len(a) < 3 or len(b) < 3 or {a[2], b[2]} != {'s', 'o'}:
                    raise Unsupported(f'{where(n)}: std::swap of something else than the comparator objects of the two sets')
                p = p.copy()
                x, y = p.get_cmp(a[2]), p.get_cmp(b[2])
                p.set_cmp(a[2], y)
                p.set_cmp(b[2], x)
                return k(p, ('void',))
            return self.eval_list(args, path, cont)
        raise Unsupported(f'{where(n)}: call of function `{name}` with {len(args)} argument(s) is outside the translated subset')

    def e_CXXMemberCallExpr(self, n, path, k):
        c = kids(n)
        me = c[0]
        if me.get('kind') != 'MemberExpr':
            raise Unsupported(f'{where(n)}: member call through a {me.get("kind")}')
        name = me.get('name')
        args = c[1:]
        def on_obj(p, obj):
            if obj[0] in ('thisptr', 'this'):
                return self.call_member(n, me, name, args, p, k, obj[1] if len(obj) > 1 else 's')
            if obj[0] == 'vec':
                who = obj[1] if len(obj) > 1 else 's'
                return self.eval_list(args, p, lambda q, vs: self.vec_prim(n, name, vs, q, k, who))
            if obj[0] == 'node' and not args and name in ('operator bool', 'empty'):
                if obj[1][0] == 'omoved':
                    raise Unsupported(f'{where(n)}: `{name}` of a moved-from node handle')
                has = obj[1][0] == 'osome'
                return k(p, ('b', has if name == 'operator bool' else not has))
            if obj[0] == 'ilist' and not args and name in ('begin', 'end', 'size'):
                if name == 'begin':
                    return k(p, ('rit', obj[1], '0'))
                if name == 'end':
                    return k(p, ('rit', obj[1], f'{atom(obj[1])}.length'))
                return k(p, ('n', f'{atom(obj[1])}.length'))
            raise Unsupported(f'{where(n)}: member call `.{name}` on a {obj[0]}')
        return self.eval(kids(me)[0], path, on_obj)

    @staticmethod
    def sub_range(lst, first, last):
        """the Lean list of the range [first, last) of lst"""
        t = lst
        if last != f'{atom(lst)}.length':
            t = f'{atom(t)}.take {atom(last)}'
        if first != '0':
            t = f'{atom(t)}.drop {atom(first)}'
        return t

    def vec_prim(self, n, name, vs, path, k, who='s'):
        """members of the underlying vector (of *this or of the other set)"""
        lst = path.get_lst(who)
        itk = 'it' if who == 's' else 'oit'
        if self.mode == 'cursor_step' and who == 'o':
            if name == 'erase' and len(vs) == 1 and vs[0][0] == 'cursor':
                if path.cursor is not None:
                    raise Unsupported(f'{where(n)}: the loop iterator is advanced twice on a path')
                p = path.copy()
                p.cursor = 'erase'
                return k(p, ('cur_erase',))
            raise Unsupported(f'{where(n)}: member `{name}` of the vector of the other set is outside the recognised loop shape '
                              f'(only `it = o._sortedVector.erase(it)`)')
        if lst is None:
            raise Unsupported(f'{where(n)}: the underlying vector is used before it is initialised')
        if name in ('begin', 'cbegin') and not vs:
            return k(path, (itk, '0'))
        if name in ('end', 'cend') and not vs:
            return k(path, (itk, f'{atom(lst)}.length'))
        if name == 'empty' and not vs:
            return k(path, ('bt', f'{atom(lst)}.length = 0', False))
        if name == 'size' and not vs:
            return k(path, ('n', f'{atom(lst)}.length'))
        if name == 'get_allocator' and not vs:
            return k(path, ('alloc',))
        if name == 'back' and not vs:
            return self.deref(path, lst, f'{atom(lst)}.length - 1', n, k)
        if name == 'front' and not vs:
            return self.deref(path, lst, '0', n, k)
        if name == 'insert' and len(vs) == 2 and vs[0][0] in (itk, 'itbad') and vs[1][0] == 'elem':
            bad = self.need_it(vs[0], n, '_sortedVector.insert')
            if bad:
                return bad
            p = path.copy()
            p.set_lst(who, f'{atom(lst)}.insertIdx {atom(vs[0][1])} {atom(vs[1][1])}')
            return k(p, (itk, vs[0][1]))
        if name == 'insert' and len(vs) == 3 and vs[0][0] == itk and vs[1][0] == vs[2][0] and vs[1][0] in ('rit', 'it', 'oit'):
            # insert(pos, first, last)
            at_end = vs[0][1] == f'{atom(lst)}.length'
            if vs[1][0] == 'rit':
                if vs[1][1] != vs[2][1]:
                    raise Unsupported(f'{where(n)}: range insertion from two different input ranges')
                src = vs[1][1]
            else:
                sw = self.it_who(vs[1])
                if sw == who:
                    raise Unsupported(f'{where(n)}: range insertion of a vector into itself')
                src = path.get_lst(sw)
            sub = atom(self.sub_range(src, vs[1][2] if vs[1][0] == "rit" else vs[1][1], vs[2][2] if vs[2][0] == "rit" else vs[2][1]))
            def go1(p):
                p = p.copy()
                if at_end:
                    p.set_lst(who, f'{atom(lst)} ++ {sub}')
                else:
                    p.set_lst(who, f'{atom(lst)}.take {atom(vs[0][1])} ++ {sub} ++ {atom(lst)}.drop {atom(vs[0][1])}')
                return k(p, (itk, vs[0][1]))
            def go(p):
                if at_end:
                    return go1(p)
                return self.fork(p, f'{vs[0][1]} ≤ {atom(lst)}.length', line_of(n), go1,
                                 lambda q: UB('range insertion at a position after end()', None), note='range insert: pos <= end()')
            if vs[1][0] == 'rit':
                return go(path)
            a, b = vs[1][1], vs[2][1]
            return self.fork(path, f'{a} ≤ {b}', line_of(n),
                             lambda p: self.fork(p, f'{b} ≤ {atom(src)}.length', line_of(n), go,
                                                 lambda q: UB('range insertion from a range that ends after end()', None), note='range insert: last <= end()'),
                             lambda p: UB('range insertion from a range with last before first', None), note='range insert: first <= last')
        if name == 'erase' and len(vs) == 1 and vs[0][0] in (itk, 'itbad'):
            bad = self.need_it(vs[0], n, '_sortedVector.erase')
            if bad:
                return bad
            def go(p):
                p = p.copy()
                p.set_lst(who, f'{atom(lst)}.eraseIdx {atom(vs[0][1])}')
                return k(p, (itk, vs[0][1]))
            return self.fork(path, f'{vs[0][1]} < {atom(lst)}.length', line_of(n), go,
                             lambda p: UB('_sortedVector.erase of an iterator outside [begin, end)', None), note='_sortedVector.erase')
        if name == 'erase' and len(vs) == 2 and vs[0][0] == 'uniq' and vs[1][0] == itk:
            if vs[0][2] != lst or vs[1][1] != f'{atom(lst)}.length':
                raise Unsupported(f'{where(n)}: the result of std::unique is used otherwise than in `erase(std::unique(…), end())`')
            p = path.copy()
            p.set_lst(who, f'uniqueBy {atom(vs[0][1])} {atom(lst)}')
            return k(p, ('void',))
        if name == 'erase' and len(vs) == 2 and vs[0][0] in (itk, 'itbad') and vs[1][0] in (itk, 'itbad'):
            for v in vs:
                bad = self.need_it(v, n, '_sortedVector.erase')
                if bad:
                    return bad
            a, b = vs[0][1], vs[1][1]
            def go(p):
                p = p.copy()
                p.set_lst(who, f'{atom(lst)}.take {atom(a)} ++ {atom(lst)}.drop {atom(b)}')
                return k(p, (itk, a))
            return self.fork(path, f'{a} ≤ {b}', line_of(n),
                             lambda p: self.fork(p, f'{b} ≤ {atom(lst)}.length', line_of(n), go,
                                                 lambda q: UB('_sortedVector.erase of a range that ends after end()', None), note='_sortedVector.erase: last <= end()'),
                             lambda p: UB('_sortedVector.erase of a range with last before first', None), note='_sortedVector.erase: first <= last')
        if name == 'push_back' and len(vs) == 1 and vs[0][0] == 'elem':
            p = path.copy()
            p.set_lst(who, f'{atom(lst)} ++ [{vs[0][1]}]')
            return k(p, ('void',))
        if name == 'clear' and not vs:
            p = path.copy()
            p.set_lst(who, '[]')
            return k(p, ('void',))
        if name == 'swap' and len(vs) == 1 and vs[0][0] == 'vec' and vs[0][1] != who:
            p = path.copy()
            other = vs[0][1]
            x, y = p.get_lst(who), p.get_lst(other)
            p.set_lst(who, y)
            p.set_lst(other, x)
            return k(p, ('void',))
        raise Unsupported(f'{where(n)}: vector member `{name}` with argument kinds ({", ".join(v[0] for v in vs)}) is outside the translated subset')

    def conv_args(self, n, name, pk, vs, path, who):
        """Lean argument terms of a call of a generated function, or a UB node"""
        if len(vs) != len(pk):
            raise Unsupported(f'{where(n)}: call of `{name}` with {len(vs)} arguments')
        terms = []
        i = 0
        while i < len(pk):
            v, kd = vs[i], pk[i]
            if kd == 'it':
                bad = self.need_it(v, n, f'argument of {name}')
                if bad:
                    return bad
                if self.it_who(v) != who:
                    raise Unsupported(f'{where(n)}: an iterator of the other set is passed to `{name}`')
                terms.append(atom(v[1]))
            elif kd == 'elem':
                terms.append(atom(self.to_term(v, 'elem', n)))
            elif kd == 'key':
                if v[0] != 'key':
                    raise Unsupported(f'{where(n)}: call of `{name}` with a {v[0]} for a key of another type')
                terms.append(atom(v[1]))
            elif kd == 'range':
                if i + 1 >= len(pk) or pk[i + 1] != 'range' or v[0] != 'rit' or vs[i + 1][0] != 'rit' or v[1] != vs[i + 1][1]:
                    raise Unsupported(f'{where(n)}: call of `{name}` with something else than an input range')
                terms.append(atom(self.sub_range(v[1], v[2], vs[i + 1][2])))
                i += 1
            elif kd == 'ilist':
                if v[0] != 'ilist':
                    raise Unsupported(f'{where(n)}: call of `{name}` with a {v[0]} for an initializer_list')
                terms.append(atom(v[1]))
            elif kd == 'vecval':
                if v[0] != 'vecval':
                    raise Unsupported(f'{where(n)}: call of `{name}` with a {v[0]} for a vector')
                terms.append(atom(v[1]))
            elif kd == 'comp':
                if v[0] != 'comp':
                    raise Unsupported(f'{where(n)}: call of `{name}` with a {v[0]} for a comparator')
                terms.append(atom(self.comp_term(v)))
            elif kd == 'alloc':
                if v[0] != 'alloc':
                    raise Unsupported(f'{where(n)}: call of `{name}` with a {v[0]} for an allocator')
            else:
                raise Unsupported(f'{where(n)}: call of `{name}`: parameter kind {kd} cannot be passed')
            i += 1
        return terms

    def call_member(self, n, me, name, args, path, k, who='s'):
        mid = me.get('referencedMemberDecl')
        decl = self.by_id.get(mid) or self.other_ids.get(mid)
        if decl is None:
            raise Unsupported(f'{where(n)}: call of FlatSet member `{name}`, whose declaration is not in the instantiation')
        if mid in self.targets:
            lean = self.targets[mid]
            if lean not in self.sigs:
                raise Unsupported(f'{where(n)}: `{name}` is called before it is generated (order of TARGETS)')
            sg = self.sigs[lean]
            if sg['two'] or sg['ctor']:
                raise Unsupported(f'{where(n)}: call of the two-object member / constructor `{name}` as a member function')
            def cont(p, vs):
                terms = self.conv_args(n, name, sg['pk'], vs, p, who)
                if isinstance(terms, UB):
                    return terms
                for ex in sg['extras']:
                    self.use_extra(ex)
                p = p.copy()
                var = self.fresh(p, 'r')
                call = ' '.join([lean] + self.self_args(n, p, who) + terms + sg['extras'])
                if who == 'o' and sg['ret'] == 'it':
                    raise Unsupported(f'{where(n)}: `{name}` called on the other set returns an iterator')
                if sg['const']:
                    p.csyms = p.csyms + (f'{var}.2',)
                    return Bind(call.strip(), var, k(p, self.from_term(f'{var}.1', sg['ret'])), line_of(n))
                p.set_lst(who, f'{var}.1')
                p.csyms = p.csyms + (f'{var}.2.2',)
                return Bind(call.strip(), var, k(p, self.from_term(f'{var}.2.1', sg['ret'])), line_of(n))
            return self.eval_list(args, path, cont)
        # inline
        if not has_body(decl):
            raise Unsupported(f'{where(n)}: call of FlatSet member `{name}` without a visible body')
        if not str(decl.get('_file')).endswith(self.HEADER):
            raise Unsupported(f'{where(n)}: member `{name}` is defined in {decl.get("_file")}, not in amc/flatset.hpp')
        if len(path.frames) > 8:
            raise Unsupported(f'{where(n)}: inlining depth exceeded at `{name}`')
        ps = params_of(decl)
        if len(ps) != len(args):
            raise Unsupported(f'{where(n)}: call of `{name}` with {len(args)} arguments for {len(ps)} parameters')
        def cont(p, vs):
            p = p.copy()
            fr = {q['name']: v for q, v in zip(ps, vs)}
            if who != 's':
                fr['$self'] = who
            fr['$member'] = ('meta', name)
            p.frames.append(fr)
            def kret(q, v):
                q = q.copy()
                q.frames.pop()
                return k(q, v)
            return self.exec_block([body_of(decl)], p, lambda q: self.fall_off(decl, q, kret), kret)
        return self.eval_list(args, path, cont)

    def self_args(self, n, path, who):
        """the leading Lean arguments of a generated member function: comparator object and content of the set"""
        return [atom(path.get_cmp(who)), atom(path.get_lst(who))]

    SELF_PARAMS = '(lt : α → α → Bool) (l : List α)'

    def call_two(self, n, lean, a, b, path, k):
        """call of a generated const two-object member `a.f(b)` (a, b in {'s', 'o'})"""
        if lean not in self.sigs:
            raise Unsupported(f'{where(n)}: `{lean}` is called before it is generated (order of TARGETS)')
        sg = self.sigs[lean]
        if not (sg['two'] and sg['const'] and sg['pk'] == ['other']) or a == b:
            raise Unsupported(f'{where(n)}: call of `{lean}` between the two sets')
        for ex in sg['extras']:
            self.use_extra(ex)
        p = path.copy()
        var = self.fresh(p, 'r')
        call = ' '.join([lean, atom(p.get_cmp(a)), atom(p.get_lst(a)), atom(p.get_cmp(b)), atom(p.get_lst(b))] + sg['extras'])
        p.csyms = p.csyms + (f'{var}.2',)
        return Bind(call, var, k(p, self.from_term(f'{var}.1', sg['ret'])), line_of(n))

    @staticmethod
    def is_const(decl):
        ty = qual(decl)
        return ty[ty.rindex(')') + 1:].split()[:1] == ['const']

    def fall_off(self, decl, path, kret):
        ty = qual(decl)
        if ty[:ty.index('(')].strip() == 'void':
            return kret(path, ('void',))
        raise Unsupported(f'{where(decl)}: control reaches the end of non-void `{decl.get("name")}`')

    # ---- statements -------------------------------------------------------------------------------------------------
    def is_assert(self, n):
        """`assert(c)` after preprocessing: ((c) ? (void)0 : __assert_fail(...))"""
        m = n
        while m.get('kind') == 'ParenExpr':
            m = kids(m)[0]
        if m.get('kind') != 'ConditionalOperator':
            return False
        def mentions(x):
            if isinstance(x, dict):
                if x.get('referencedDecl', {}).get('name') == '__assert_fail':
                    return True
                return any(mentions(c) for c in x.get('inner', []))
            return False
        return mentions(kids(m)[2])

    def exec_block(self, stmts, path, knext, kret):
        if not stmts:
            return knext(path)
        s, rest = stmts[0], stmts[1:]
        after = lambda p: self.exec_block(rest, p, knext, kret)
        kind = s.get('kind')
        if kind == 'CompoundStmt':
            return self.exec_block(kids(s), path, after, kret)
        if kind == 'NullStmt':
            return after(path)
        if kind == 'DeclStmt':
            decls = kids(s)
            def do(ds, p):
                if not ds:
                    return after(p)
                d = ds[0]
                if d.get('kind') != 'VarDecl' or len(kids(d)) != 1:
                    raise Unsupported(f'{where(s)}: declaration of `{d.get("name")}` without a single initialiser')
                self.type_kind(qual(d), d)
                def bound(q, v):
                    q = q.copy()
                    q.frames[-1][d['name']] = v
                    return do(ds[1:], q)
                return self.eval(kids(d)[0], p, bound)
            return do(decls, path)
        if kind == 'IfStmt':
            if s.get('hasInit') or s.get('hasVar') or s.get('isConstexpr'):
                raise Unsupported(f'{where(s)}: if statement with initialiser / declaration / constexpr')
            c = kids(s)
            cond, then = c[0], c[1]
            els = c[2] if len(c) > 2 else None
            return self.eval(cond, path, lambda p, v: self.branch(
                v, p, s,
                lambda q: self.exec_block([then], q, after, kret),
                lambda q: self.exec_block([els], q, after, kret) if els is not None else after(q)))
        if kind == 'ReturnStmt':
            c = kids(s)
            if not c:
                return kret(path, ('void',))
            return self.eval(c[0], path, kret)
        if kind in ('ForStmt', 'WhileStmt'):
            return self.loop(s, path, after)
        if kind == 'BreakStmt' and self.in_loop_body:
            return self.kbreak(path)
        if kind in ('DoStmt', 'CXXForRangeStmt', 'SwitchStmt', 'BreakStmt', 'ContinueStmt',
                    'GotoStmt', 'CXXTryStmt', 'CXXThrowExpr'):
            raise Unsupported(f'{where(s)}: statement kind {kind} is outside the translated subset')
        if self.is_assert(s):
            return after(path)
        # expression statement
        return self.eval(s, path, lambda p, v: after(p))

    in_loop_body = False
    mode = 'member'

    def loop(self, s, path, after):
        """a loop of the member being translated, or of a member inlined directly into it whose caller has no local state
        (the loop body is then `<member>_<inlined member>_step`)"""
        if self.mode != 'member' or len(path.frames) > 2:
            raise Unsupported(f'{where(s)}: a loop inside a loop body / a member inlined at depth > 1 is outside the translated subset')
        if len(path.frames) == 2:
            live = [nm for nm, v in path.frames[0].items() if v[0] not in ('this', 'alloc', 'meta')]
            if live or s.get('kind') != 'ForStmt' or '$member' not in path.frames[-1] or '$self' in path.frames[-1]:
                raise Unsupported(f'{where(s)}: a loop inside an inlined member whose caller has local state {live} / of another shape '
                                  f'than the cursor loop is outside the translated subset')
            self.loop_name = f'{self.cur_lean}_{path.frames[-1]["$member"][1]}_step'
        else:
            self.loop_name = f'{self.cur_lean}_step'
        if self.loop_name in self.aux_names:
            raise Unsupported(f'{where(s)}: the loop is reached twice / more than one loop in a member')
        if s.get('kind') == 'ForStmt':
            return self.cursor_loop(s, path, after)
        return self.while_loop(s, path, after)

    def cursor_loop(self, s, path, after):
        """`for (miterator it = o.mbegin(); it != o.mend();) BODY` where every path of BODY ends with exactly one of
        `it = o._sortedVector.erase(it)` / `++it` and uses `it` only as `*it`: a fold of BODY over the elements of `o`.
        BODY becomes `<member>_step` (content, element) -> (content, erased from o?, calls); the loop is `foldErase`."""
        c = s.get('inner', [])
        if len(c) != 5 or path.olst is None:
            raise Unsupported(f'{where(s)}: for statement of an unknown shape')
        init, condvar, cond, inc, body = c
        if not (isinstance(init, dict) and init.get('kind') == 'DeclStmt' and len(kids(init)) == 1
                and kids(init)[0].get('kind') == 'VarDecl' and len(kids(kids(init)[0])) == 1):
            raise Unsupported(f'{where(s)}: loop whose initialisation is not the declaration of one iterator')
        if (isinstance(condvar, dict) and condvar) or (isinstance(inc, dict) and inc):
            raise Unsupported(f'{where(s)}: loop with a condition variable / an increment expression (only the loop advancing its '
                              f'iterator in the body is recognised)')
        itname = kids(init)[0]['name']
        if path.olst != 'o' or path.lst != 'l':
            raise Unsupported(f'{where(s)}: the sets are modified before the loop')
        live = [nm for nm, v in path.frames[-1].items() if v[0] not in ('this', 'alloc', 'meta')]
        if live:
            raise Unsupported(f'{where(s)}: local variables / parameters {live} are live at the loop')
        def chk_init(p, v):
            if v != ('oit', '0'):
                raise Unsupported(f'{where(s)}: the loop iterator does not start at begin() of the other set')
            if not (isinstance(cond, dict) and cond.get('kind') == 'BinaryOperator' and cond.get('opcode') == '!='
                    and self.lvalue_path(kids(cond)[0]) == (itname, ())):
                raise Unsupported(f'{where(s)}: loop whose condition is not `{itname} != o.mend()`')
            def chk_end(q, w):
                if w != ('oit', 'o.length'):
                    raise Unsupported(f'{where(s)}: loop whose condition is not `{itname} != o.mend()`')
                return self.cursor_loop2(s, body, itname, q, after)
            return self.eval(kids(cond)[1], p, chk_end)
        return self.eval(kids(kids(init)[0])[0], path, chk_init)

    def cursor_loop2(self, s, body, itname, path, after):
        name = self.loop_name
        self.aux_names.append(name)
        sub = Path()
        sub.olst, sub.ocmp = 'o', 'lt_o'
        sub.frames = [dict(path.frames[-1])]
        sub.frames[-1][itname] = ('cursor',)
        saved = (self.param_names, self.mode)
        self.param_names, self.mode = {'x'}, 'cursor_step'
        def kend(p):
            if p.cursor is None:
                raise Unsupported(f'{where(s)}: a path of the loop body does not advance the loop iterator')
            if p.olst != 'o' or p.cmp != 'lt' or p.ocmp != 'lt_o':
                raise Unsupported(f'{where(s)}: the loop body modifies the other set otherwise than by `o._sortedVector.erase(it)`')
            return Leaf(p.lst, 'true' if p.cursor == 'erase' else 'false', p.calls_term(), None)
        def kret(p, v):
            raise Unsupported(f'{where(s)}: return inside the loop body')
        tree = self.exec_block([body], sub, kend, kret)
        self.param_names, self.mode = saved
        doc = (f'/-- flatset.hpp:{line_of(s)} body of the loop of `{self.cur_cpp}` over the elements `x` of the other set: '
               f'(content, element erased from the other set?, comparator calls) -/')
        sig = f'def {name} (lt : α → α → Bool) (l : List α) (x : α) : Option (List α × Bool × Nat) :='
        self.aux_defs.append('\n'.join([doc, sig] + self.emit(tree, 1)) + '\n')
        p = path.copy()
        var = self.fresh(p, 'r')
        call = f'foldErase ({name} {atom(p.cmp)}) {atom(p.olst)} {atom(p.lst)} []'
        p.lst, p.olst = f'{var}.1', f'{var}.2.1'
        p.csyms = p.csyms + (f'{var}.2.2',)
        return Bind(call, var, after(p), line_of(s))

    def while_loop(self, s, path, after):
        """`while (COND) BODY` over local iterator variables of the two sets: COND and BODY become `<member>_step`
        (contents, iterators) -> (continue?, contents, iterators, calls), iterated by `whileFuel` with the fuel
        `l.length + o.length + 1` (enough when every round consumes an element of one of the two ranges: to be proved)."""
        c = kids(s)
        if len(c) != 2 or path.olst is None:
            raise Unsupported(f'{where(s)}: while statement of an unknown shape')
        cond, body = c
        locs = [(nm, v) for nm, v in path.frames[-1].items() if v[0] not in ('this', 'alloc', 'meta')]
        if not locs or any(v[0] not in ('it', 'oit') for nm, v in locs):
            raise Unsupported(f'{where(s)}: only iterators of the two sets may be live at the loop; found '
                              + ', '.join(f'`{nm}` ({v[0]})' for nm, v in locs))
        name = self.loop_name
        self.aux_names.append(name)
        lnames = []
        for nm, v in locs:
            if nm in RESERVED:
                raise Unsupported(f'{where(s)}: local variable called `{nm}`')
            lnames.append(nm)
        sub = Path()
        sub.olst, sub.ocmp = 'o', 'lt_o'
        sub.frames = [dict(path.frames[-1])]
        for nm, v in locs:
            sub.frames[-1][nm] = (v[0], nm)
        saved = (self.param_names, self.mode, self.in_loop_body)
        self.param_names, self.mode, self.in_loop_body = set(lnames), 'while_step', True
        def leaf(p, cont):
            if p.cmp != 'lt' or p.ocmp != 'lt_o':
                raise Unsupported(f'{where(s)}: the loop modifies a comparator object')
            vals = []
            for nm, v in locs:
                w = p.frames[-1][nm]
                if w[0] == 'itbad':
                    return UB(f'`{nm}` is before begin() at the end of a round ({w[1]})', None)
                vals.append(w[1])
            return Leaf(None, f'{cont}, ({", ".join([p.lst, p.olst] + vals)})', p.calls_term(), None)
        self.kbreak = lambda p: leaf(p, 'false')
        def kret(p, v):
            raise Unsupported(f'{where(s)}: return inside the loop body')
        tree = self.eval(cond, sub, lambda p, v: self.branch(
            v, p, cond, lambda q: self.exec_block([body], q, lambda r: leaf(r, 'true'), kret), lambda q: leaf(q, 'false')))
        self.param_names, self.mode, self.in_loop_body = saved
        sty = 'List α × List α' + ' × Nat' * len(locs)
        doc = (f'/-- flatset.hpp:{line_of(s)} condition and body of the loop of `{self.cur_cpp}`: (another round?, (content, '
               f'content of the other set, {", ".join(lnames)}), comparator calls) -/')
        sig = (f'def {name} (lt : α → α → Bool) (l : List α) (lt_o : α → α → Bool) (o : List α)'
               + ''.join(f' ({nm} : Nat)' for nm in lnames) + f' : Option (Bool × ({sty}) × Nat) :=')
        self.aux_defs.append('\n'.join([doc, sig] + self.emit(tree, 1)) + '\n')
        p = path.copy()
        var = self.fresh(p, 'r')
        # projections of a right-nested tuple: s.1, s.2.1, s.2.2.1, …, s.2.2…2
        projs = []
        for i in range(len(locs) + 2):
            projs.append('s' + '.2' * i + ('' if i == len(locs) + 1 else '.1'))
        init = ', '.join([p.lst, p.olst] + [v[1] for nm, v in locs])
        call = (f'whileFuel (fun s => {name} {atom(p.cmp)} {projs[0]} {atom(p.ocmp)} ' + ' '.join(projs[1:]) + ') '
                f'({atom(p.lst)}.length + {atom(p.olst)}.length + 1) ({init})')
        rp = [f'{var}.1' + '.2' * i + ('' if i == len(locs) + 1 else '.1') for i in range(len(locs) + 2)]
        p.lst, p.olst = rp[0], rp[1]
        for (nm, v), t in zip(locs, rp[2:]):
            p.frames[-1][nm] = (v[0], t)
        p.csyms = p.csyms + (f'{var}.2',)
        return Bind(call, var, after(p), line_of(s))

    # ---- one definition -----------------------------------------------------------------------------------------------
    def translate(self, decl, lean):
        ctor = decl.get('kind') == 'CXXConstructorDecl'
        ps = params_of(decl)
        rk = self.ret_kind(decl)
        self.aux_defs, self.aux_names, self.extras = [], [], []
        self.cur_lean = lean
        cpp_sig = f'{decl.get("name")}({", ".join(qual(p) for p in ps)})'
        self.cur_cpp = cpp_sig
        names, ltypes, pk = [], [], []
        path = Path()
        node_param = None
        i = 0
        used = set()
        def lname(nm):
            l = nm + '_' if nm in RESERVED else nm
            if l in used:
                raise Unsupported(f'{where(decl)}: two Lean parameters called `{l}`')
            used.add(l)
            return l
        while i < len(ps):
            p = ps[i]
            nm = p.get('name')
            if not nm:
                raise Unsupported(f'{where(decl)}: unnamed parameter')
            kd = self.param_kind(p)
            pk.append(kd)
            if kd in ('it', 'elem', 'key'):
                l = lname(nm)
                names.append(l); ltypes.append(self.lean_type(kd))
                path.frames[-1][nm] = (kd, l)
            elif kd == 'range':
                if i + 1 >= len(ps) or self.param_kind(ps[i + 1]) != 'range' or (nm, ps[i + 1].get('name')) != ('first', 'last'):
                    raise Unsupported(f'{where(decl)}: an input range is expected to be two consecutive parameters `first`, `last`')
                l = lname('vs')
                names.append(l); ltypes.append('List α')
                path.frames[-1][nm] = ('rit', l, '0')
                path.frames[-1][ps[i + 1]['name']] = ('rit', l, f'{l}.length')
                pk.append('range')
                i += 1
            elif kd in ('ilist', 'vecval'):
                l = lname(nm)
                names.append(l); ltypes.append('List α')
                path.frames[-1][nm] = (kd, l)
            elif kd == 'comp':
                l = lname(nm)
                names.append(l); ltypes.append('α → α → Bool')
                path.frames[-1][nm] = ('comp', l, None)
            elif kd == 'alloc':
                path.frames[-1][nm] = ('alloc',)
            elif kd == 'node':
                if node_param is not None:
                    raise Unsupported(f'{where(decl)}: two node handles')
                l = lname(nm)
                names.append(l); ltypes.append('Option α')
                node_param = (nm, l)
            elif kd == 'other':
                if nm != 'o' or path.olst is not None:
                    raise Unsupported(f'{where(decl)}: the other set is expected to be a single parameter called `o`')
                names += ['lt_o', 'o']; ltypes += ['α → α → Bool', 'List α']
                used.update(('lt_o', 'o'))
                path.frames[-1][nm] = ('this', 'o')
                path.olst, path.ocmp = 'o', 'lt_o'
            i += 1
        self.param_names = set(names)
        two = path.olst is not None
        const = (not ctor) and self.is_const(decl)
        if ctor:
            path.lst, path.cmp = None, 'lt_default'
        init = (path.cmp, path.lst, path.ocmp, path.olst)
        out_modes = set()
        def kret(p, v):
            if len(p.frames) != 1:
                raise Unsupported(f'{where(decl)}: internal error, unbalanced frames')
            if rk == 'it' and v[0] == 'itbad':
                return UB(f'an iterator before begin() is returned ({v[1]})', None)
            if const and (p.cmp, p.lst, p.ocmp, p.olst) != init:
                raise Unsupported(f'{where(decl)}: const member `{decl.get("name")}` modifies the content ({p.lst})')
            ret = self.to_term(v, rk, decl)
            if node_param is not None:
                nv = p.frames[0][node_param[0]]
                if nv[1][0] == 'omoved':
                    out_modes.add('moved')
                else:
                    out_modes.add('kept')
                    ret = f'({ret}, {self.node_term(nv[1], decl)})'
            lf = Leaf(None, ret, p.calls_term(), None)
            lf.st = (p.cmp, p.lst, p.ocmp, p.olst)
            return lf
        def run(p):
            if ctor:
                return self.ctor_inits(decl, p, lambda q: self.exec_block([body_of(decl)], q, lambda r: kret(r, ('void',)), kret))
            return self.exec_block([body_of(decl)], p, lambda q: self.fall_off(decl, q, kret), kret)
        if node_param is not None:
            pa, pb = path.copy(), path.copy()
            var = self.fresh(pb, 'x')
            pa.frames[-1][node_param[0]] = ('node', ('onone',))
            pb.frames[-1][node_param[0]] = ('node', ('osome', var))
            tree = MatchOpt(node_param[1], var, run(pa), run(pb), line_of(decl))
        else:
            tree = run(path)
        if len(out_modes) > 1:
            raise Unsupported(f'{where(decl)}: the node handle passed in is moved from on some paths only')
        lvs = list(leaves(tree))
        cmp_changed = any(lf.st[0] != init[0] or lf.st[2] != init[2] for lf in lvs) and not ctor
        for lf in lvs:
            c, l, oc, ol = lf.st
            if l is None:
                raise Unsupported(f'{where(decl)}: the underlying vector is never initialised')
            if const:
                lf.lst = None
            elif ctor:
                lf.lst = f'{c}, {l}'
            elif two:
                lf.lst = f'{c}, {l}, {oc}, {ol}' if cmp_changed else f'{l}, {ol}'
            else:
                if c != init[0]:
                    raise Unsupported(f'{where(decl)}: the comparator object of the set is modified')
                lf.lst = l
        if ctor:
            for lf in lvs:
                lf.ret = None
            if any(lf.st[0] == 'lt_default' for lf in lvs):
                self.use_extra('lt_default')     # the comparator object of a set constructed without one
        rty0 = self.lean_type(rk)
        if node_param is not None and out_modes == {'kept'}:
            rty0 = f'({atom(rty0) if "×" in rty0 else rty0} × Option α)'
        elif '×' in rty0:
            rty0 = atom(rty0)
        if const:
            rty = f'Option ({rty0} × Nat)'
            what = 'returned value, comparator calls'
        elif ctor:
            rty = 'Option ((α → α → Bool) × List α × Nat)'
            what = 'comparator object stored in the new set, content, comparator calls'
        elif two and cmp_changed:
            rty = f'Option ((α → α → Bool) × List α × (α → α → Bool) × List α × {rty0} × Nat)'
            what = 'comparator, content, comparator of the other set, content of the other set, returned value, comparator calls'
        elif two:
            rty = f'Option (List α × List α × {rty0} × Nat)'
            what = 'content, content of the other set, returned value, comparator calls'
        else:
            rty = f'Option (List α × {rty0} × Nat)'
            what = 'content, returned value, comparator calls'
        if node_param is not None and out_modes == {'kept'}:
            what = what.replace('returned value', '(returned value, node handle left to the caller)')
        extras = list(self.extras)
        sig_params = ''.join(f' ({nm} : {ty})' for nm, ty in zip(names, ltypes))
        sig_params += ''.join(f' ({ex} : {self.extra_type(ex)})' for ex in extras)
        if ctor:
            head = f'def {lean}{sig_params} : {rty} :='
        else:
            head = f'def {lean} {self.SELF_PARAMS}{sig_params} : {rty} :='
        out = list(self.aux_defs)
        out.append('\n'.join([f'/-- flatset.hpp:{line_of(decl)} `{cpp_sig}{" const" if const else ""}`: ({what}); `none` = undefined behaviour -/',
                              head] + self.emit(tree, 1)) + '\n')
        self.sigs[lean] = dict(pk=pk, ret=rk, const=const, two=two, extras=extras, ctor=ctor, cmp_changed=cmp_changed)
        return '\n'.join(out)

    def ctor_inits(self, decl, path, k):
        """the member initialiser list of a constructor: the comparator base, `_sortedVector`, or a delegation"""
        inits = [c for c in kids(decl) if c.get('kind') == 'CXXCtorInitializer']
        def do(rest, p):
            if not rest:
                return k(p)
            ci = rest[0]
            e = kids(ci)
            if len(e) != 1:
                raise Unsupported(f'{where(decl)}: constructor initialiser with {len(e)} expressions')
            e = e[0]
            if 'baseInit' in ci:
                if ci['baseInit'].get('qualType') != self.comp_type:
                    raise Unsupported(f'{where(e)}: initialiser of an unknown base class `{ci["baseInit"].get("qualType")}`')
                def cont(q, v):
                    if v[0] != 'comp':
                        raise Unsupported(f'{where(e)}: the comparator base is initialised with a {v[0]}')
                    q = q.copy()
                    q.cmp = self.comp_term(v)
                    return do(rest[1:], q)
                return self.eval(e, p, cont)
            if 'anyInit' in ci:
                if ci['anyInit'].get('name') != '_sortedVector':
                    raise Unsupported(f'{where(e)}: initialiser of an unknown data member `{ci["anyInit"].get("name")}`')
                ce = peel(e)
                if ce.get('kind') != 'CXXConstructExpr':
                    raise Unsupported(f'{where(e)}: `_sortedVector` is initialised by a {ce.get("kind")}')
                def cont(q, vs):
                    kinds = [v[0] for v in vs]
                    q = q.copy()
                    if kinds == ['alloc']:
                        q.lst = '[]'
                    elif kinds == ['rit', 'rit', 'alloc'] and vs[0][1] == vs[1][1]:
                        q.lst = self.sub_range(vs[0][1], vs[0][2], vs[1][2])
                    elif kinds == ['vecval', 'alloc']:
                        q.lst = vs[0][1]
                    else:
                        raise Unsupported(f'{where(e)}: `_sortedVector` constructed from ({", ".join(kinds)})')
                    return do(rest[1:], q)
                return self.eval_list(kids(ce), p, cont)
            if 'delegatingInit' in ci:
                ce = peel(e)
                if ce.get('kind') != 'CXXConstructExpr' or len(inits) != 1:
                    raise Unsupported(f'{where(e)}: delegating initialiser of an unknown shape')
                cty = ce.get('ctorType', {}).get('qualType')
                tg = [mid for mid in self.targets if self.by_id[mid].get('kind') == 'CXXConstructorDecl' and qual(self.by_id[mid]) == cty]
                if len(tg) != 1 or self.targets[tg[0]] not in self.sigs:
                    raise Unsupported(f'{where(e)}: delegation to a constructor that is not generated (`{cty}`)')
                lean = self.targets[tg[0]]
                sg = self.sigs[lean]
                def cont(q, vs):
                    terms = self.conv_args(e, lean, sg['pk'], vs, q, 's')
                    if isinstance(terms, UB):
                        return terms
                    q = q.copy()
                    var = self.fresh(q, 'r')
                    for ex in sg['extras']:
                        self.use_extra(ex)
                    call = ' '.join([lean] + terms + sg['extras'])
                    q.cmp, q.lst = f'{var}.1', f'{var}.2.1'
                    q.csyms = q.csyms + (f'{var}.2.2',)
                    return Bind(call, var, do(rest[1:], q), line_of(e))
                return self.eval_list(kids(ce), p, cont)
            raise Unsupported(f'{where(decl)}: constructor initialiser of an unknown kind')
        return do(inits, path)

    def emit(self, t, d):
        ind = '  ' * d
        ln = lambda x: f'  -- L{x}' if x else ''
        if isinstance(t, Ite):
            note = f' ({t.note})' if t.note and t.line else ''
            return ([f'{ind}if {t.cond} then{ln(t.line)}{note}'] + self.emit(t.t, d + 1) + [f'{ind}else'] + self.emit(t.f, d + 1))
        if isinstance(t, MatchIdx):
            return ([f'{ind}match {atom(t.lst)}[{t.idx}]? with{ln(t.line)}',
                     f'{ind}| none => none',
                     f'{ind}| some {t.var} =>'] + self.emit(t.sub, d + 1))
        if isinstance(t, Bind):
            return ([f'{ind}match {t.call} with{ln(t.line)}',
                     f'{ind}| none => none',
                     f'{ind}| some {t.var} =>'] + self.emit(t.sub, d + 1))
        if isinstance(t, MatchOpt):
            return ([f'{ind}match {t.term} with{ln(t.line)} ({t.what})',
                     f'{ind}| none =>'] + self.emit(t.a, d + 1) + [f'{ind}| some {t.var} =>'] + self.emit(t.b, d + 1))
        if isinstance(t, Let):
            return [f'{ind}let {t.var} := {t.term}{ln(t.line)}'] + self.emit(t.sub, d)
        if isinstance(t, Leaf):
            if t.calls is None:
                return [f'{ind}{t.ret}']
            parts = [x for x in (t.lst, t.ret, t.calls) if x is not None]
            return [f'{ind}some ({", ".join(parts)})']
        if isinstance(t, UB):
            return [f'{ind}none  -- {t.why}']
        raise Unsupported('internal error: unknown tree node')


class HetTranslator(Translator):
    """the heterogeneous lookups `f(const K &)` of the specialisation HET_SPEC = FlatSet<int, TLess> with K = HetKey.
    The comparator object of the set is the triple of Lean functions (lt, ltEK, ltKE) = the three call operators of TLess."""
    SELF_PARAMS = '(lt : α → α → Bool) (ltEK : α → κ → Bool) (ltKE : κ → α → Bool) (l : List α)'
    # call operator referenced (its type as clang prints it) -> (Lean function, kinds of the two arguments, their C++ types)
    OVERLOADS = {
        'bool (int, int) const': ('lt', ('elem', 'elem'), ('int', 'int')),
        f'bool (int, const {HET_KEY} &) const': ('ltEK', ('elem', 'key'), ('int', HET_KEY)),
        f'bool (const {HET_KEY} &, int) const': ('ltKE', ('key', 'elem'), (HET_KEY, 'int')),
    }

    def __init__(self, spec, comp_decl):
        super().__init__(spec, (), TARGETS_HET)
        if self.comp_type != HET_COMP:
            raise Unsupported(f'the comparator base of {HET_SPEC} is `{self.comp_type}`, expected `{HET_COMP}`')
        # the call operators of the comparator type: exactly the three overloads the Lean parameters stand for
        ops = sorted(qual(m) for m in kids(comp_decl) if m.get('kind') == 'CXXMethodDecl' and m.get('name') == 'operator()')
        if ops != sorted(self.OVERLOADS):
            raise Unsupported(f'the call operators of {HET_COMP} are {ops}, expected {sorted(self.OVERLOADS)}')
        if not any(m.get('kind') == 'TypeAliasDecl' and m.get('name') == 'is_transparent' for m in kids(comp_decl)):
            raise Unsupported(f'{HET_COMP} has no member type `is_transparent`')
        for nm in ('ltEK', 'ltKE', 'κ'):
            if nm not in RESERVED:
                raise Unsupported(f'internal error: `{nm}` is not a reserved Lean name')

    def type_kind(self, ty, n):
        t = ty.replace('const ', '').replace(' &&', '').replace(' &', '').strip()
        if t == HET_KEY:
            return 'key'
        if 'amc::FlatSet<int>' in ty:
            raise Unsupported(f'{where(n)}: type `{ty}` of another specialisation inside {HET_SPEC}')
        return super().type_kind(ty.replace(HET_SPEC, 'amc::FlatSet<int>'), n)

    def param_kind(self, p):
        kd = self.type_kind(qual(p), p)
        if kd == 'key' and qual(p) == HKEY:
            return 'key'
        raise Unsupported(f'{where(p)}: parameter `{p.get("name")}` of type `{qual(p)}` of a heterogeneous lookup (only `{HKEY}` is known)')

    @staticmethod
    def arg_type(e):
        """the C++ type of an argument expression of the comparator, without cv-qualifiers and value category"""
        return qual(peel(e)).replace('const ', '').strip()

    def comp_overload(self, n, rd, ea, eb, o, a, b):
        # (comp_decl comes from a second run of clang: declaration ids cannot be compared; the class of the object expression
        # and the type of the operator referenced identify the overload, TLess having exactly one operator() of each type)
        ty = rd.get('type', {}).get('qualType')
        oty = self.arg_type(kids(n)[1])
        if rd.get('kind') != 'CXXMethodDecl' or oty != HET_COMP or ty not in self.OVERLOADS:
            raise Unsupported(f'{where(n)}: call of an operator() that is not one of the three call operators of {HET_COMP} '
                              f'(`{ty}` on a `{oty}`)')
        fn, kinds, ctypes = self.OVERLOADS[ty]
        got = (self.arg_type(ea), self.arg_type(eb))
        if got != ctypes:
            raise Unsupported(f'{where(n)}: the comparator overload `{ty}` is called with arguments of types {got}')
        if (a[0], b[0]) != kinds:
            raise Unsupported(f'{where(n)}: the comparator overload `{ty}` is applied to a {a[0]} and a {b[0]}')
        if self.comp_term(o) != 'lt':
            raise Unsupported(f'{where(n)}: heterogeneous comparison with another comparator object than the one stored in the set '
                              f'(`{self.comp_term(o)}`)')
        return fn

    def bound_by_key(self, n, name, rd, first, ln, val, comp, path):
        want = f'const int *(const int *, const int *, {HKEY}, {HET_COMP})'
        if rd.get('type', {}).get('qualType') != want:
            raise Unsupported(f'{where(n)}: std::{name} of type `{rd.get("type", {}).get("qualType")}` (expected `{want}`)')
        if self.comp_term(comp) != 'lt':
            raise Unsupported(f'{where(n)}: std::{name} with another comparator object than the one stored in the set')
        x = 'x'
        if x in self.param_names or val[1] == x:
            raise Unsupported(f'{where(n)}: a C++ parameter is called `{x}` (name of the bound variable of the generated predicate)')
        if name == 'lower_bound':      # libstdc++ __lower_bound: the only comparison is comp(*middle, val)
            return f'Sets.lowerBoundBy (fun {x} => ltEK {x} {atom(val[1])}) {atom(path.lst)} {atom(first)} {atom(ln)}'
        return f'Sets.upperBoundBy (fun {x} => ltKE {atom(val[1])} {x}) {atom(path.lst)} {atom(first)} {atom(ln)}'   # comp(val, *middle)

    def self_args(self, n, path, who):
        if who != 's' or path.cmp != 'lt':
            raise Unsupported(f'{where(n)}: call of a heterogeneous lookup on another set / with another comparator object')
        return ['lt', 'ltEK', 'ltKE', atom(path.lst)]


def find_comp_decl(objs):
    decls = [o for o in objs if o.get('kind') == 'CXXRecordDecl' and o.get('name') == HET_COMP and o.get('completeDefinition')]
    if len(decls) != 1:
        raise Unsupported(f'expected exactly one definition of `{HET_COMP}` in the instantiation source, found {len(decls)}')
    return decls[0]


def find_het(objs):
    """the specialisation HET_SPEC from the AST dump"""
    specs = []
    for o in objs:
        if o.get('kind') == 'ClassTemplateDecl' and o.get('name') == 'FlatSet':
            for c in kids(o):
                if c.get('kind') == 'ClassTemplateSpecializationDecl' and c.get('inner'):
                    targs = [qual(a) for a in kids(c) if a.get('kind') == 'TemplateArgument']
                    if targs[:2] == ['int', HET_COMP]:
                        specs.append(c)
    if len(specs) != 1:
        raise Unsupported(f'expected exactly one instantiated specialisation {HET_SPEC}, found {len(specs)}')
    return specs[0]


def find_spec(objs):
    specs = [o for o in objs if o.get('kind') == 'ClassTemplateSpecializationDecl' and o.get('name') == 'FlatSet' and o.get('inner')]
    if not specs:
        for o in objs:
            if o.get('kind') == 'ClassTemplateDecl' and o.get('name') == 'FlatSet':
                specs += [c for c in kids(o) if c.get('kind') == 'ClassTemplateSpecializationDecl' and c.get('inner')]
    if len(specs) != 1:
        raise Unsupported(f'expected exactly one instantiated specialisation of amc::FlatSet, found {len(specs)}')
    return specs[0]


PRELUDE = '''/-! Library algorithms and operators of the underlying vector that the members below call: named list functions at the
level of their specification (the translator pins WHICH algorithm is called on WHICH range with WHICH comparator object). -/

/-- `operator==` of the underlying vector (vectorcommon.hpp): equal sizes and `std::equal`, with `==` of the ELEMENT type -/
def vecEq (eqT : α → α → Bool) : List α → List α → Bool
  | [], [] => true
  | a :: l, b :: o => eqT a b && vecEq eqT l o
  | _, _ => false

/-- `operator<` of the underlying vector (vectorcommon.hpp): `std::lexicographical_compare`, with `<` of the ELEMENT type -/
def vecLess (ltT : α → α → Bool) : List α → List α → Bool
  | _, [] => false
  | [], _ :: _ => true
  | a :: l, b :: o => if ltT a b then true else if ltT b a then false else vecLess ltT l o

/-- `std::stable_sort(begin() + k, end(), comp)`: the first `k` elements stay, the others are sorted, equivalent elements
    keeping their relative order (`List.mergeSort` is the stable sort of the Lean core library) -/
def stableSortTail (comp : α → α → Bool) (l : List α) (k : Nat) : List α :=
  l.take k ++ (l.drop k).mergeSort (fun a b => !comp b a)

/-- `std::inplace_merge(begin(), begin() + k, end(), comp)`: stable merge of the two consecutive ranges (of two equivalent
    elements the one of the first range comes first) -/
def inplaceMerge (comp : α → α → Bool) (l : List α) (k : Nat) : List α :=
  List.merge (l.take k) (l.drop k) (fun a b => !comp b a)

/-- `std::unique` continued after the last element kept, `prev` -/
def uniqueAux (eqv : α → α → Bool) (prev : α) : List α → List α
  | [] => []
  | b :: t => if eqv prev b then uniqueAux eqv prev t else b :: uniqueAux eqv b t

/-- `v.erase(std::unique(v.begin(), v.end(), eqv), v.end())`: of every run of consecutive elements that `eqv` relates to
    the last element kept, only the first is kept -/
def uniqueBy (eqv : α → α → Bool) : List α → List α
  | [] => []
  | a :: t => a :: uniqueAux eqv a t

/-- the loop `for (it = o.mbegin(); it != o.mend();) BODY` where BODY ends with `it = o._sortedVector.erase(it)` or `++it`:
    a fold of the generated body over the elements of the other set; `kept` collects the elements that stay in it.
    Result: (content, what is left in the other set, comparator calls) -/
def foldErase (step : List α → α → Option (List α × Bool × Nat)) : List α → List α → List α → Option (List α × List α × Nat)
  | [], l, kept => some (l, kept, 0)
  | x :: rest, l, kept =>
    match step l x with
    | none => none
    | some r =>
      match foldErase step rest r.1 (if r.2.1 then kept else kept ++ [x]) with
      | none => none
      | some q => some (q.1, q.2.1, r.2.2 + q.2.2)

/-- a `while` loop whose condition and body are `step` (another round?, new state, comparator calls), run for at most `fuel`
    rounds; running out of fuel is not a result (`none`) -/
def whileFuel {σ : Type} (step : σ → Option (Bool × σ × Nat)) : Nat → σ → Option (σ × Nat)
  | 0, _ => none
  | fuel + 1, s =>
    match step s with
    | none => none
    | some r =>
      if r.1 then
        match whileFuel step fuel r.2.1 with
        | none => none
        | some q => some (q.1, r.2.2 + q.2)
      else
        some (r.2.1, r.2.2)
'''


HET_PRELUDE = f'''/-! Heterogeneous lookups `f(const K &)` (members that exist only for a transparent comparator), translated from the instantiation
`{HET_SPEC}` with K = `{HET_KEY}`: `struct {HET_KEY} {{ int d; }};  struct {HET_COMP} {{ using is_transparent = void;
bool operator()(int, int) const;  bool operator()(int, const {HET_KEY} &) const;  bool operator()(const {HET_KEY} &, int) const; }};`.
The comparator object of the set is the triple `lt` (element, element), `ltEK` (element, key), `ltKE` (key, element) of its call
operators; `κ` is the type of the key. -/

variable {{κ : Type}}
'''


def generate(include):
    hdr = os.path.join(include, 'amc', 'flatset.hpp')
    if not os.path.exists(hdr):
        raise Unsupported(f'{hdr} does not exist')
    with tempfile.TemporaryDirectory(prefix='flatset2lean_') as wd:
        src = os.path.join(wd, 'inst_flatset.cpp')
        with open(src, 'w') as f:
            f.write(INST_SOURCE)
        objs = clang_dump(include, src, 'FlatSet', DEFINES)
        cobjs = clang_dump(include, src, HET_COMP, DEFINES)
    for o in objs:
        annotate_lines(o)
    spec = find_spec(objs)
    others = []
    for o in objs:
        if o.get('kind') == 'ClassTemplateDecl' and o.get('name') == 'FlatSet':
            others += [c for c in kids(o) if c.get('kind') == 'ClassTemplateSpecializationDecl' and c.get('inner') and c is not spec]
    tr = Translator(spec, others)
    by_lean = {lean: mid for mid, lean in tr.targets.items()}
    out = ['/- GENERATED by translator/flatset2lean.py from include/amc/flatset.hpp (instantiation amc::FlatSet<int>). Do not edit. -/',
           'import AmcVerif.Model.Sets',
           'set_option linter.unusedVariables false',
           'namespace AmcVerif.Gen.FlatSet',
           'open AmcVerif',
           'variable {α : Type}',
           '',
           PRELUDE]
    for nm, ptypes, lean in TARGETS:
        out.append(tr.translate(tr.by_id[by_lean[lean]], lean))
    ht = HetTranslator(find_het(objs), find_comp_decl(cobjs))
    by_lean = {lean: mid for mid, lean in ht.targets.items()}
    out.append(HET_PRELUDE)
    for nm, ptypes, lean in TARGETS_HET:
        out.append(ht.translate(ht.by_id[by_lean[lean]], lean))
    out.append('end AmcVerif.Gen.FlatSet')
    return '\n'.join(out) + '\n'


def main():
    ap = argparse.ArgumentParser()
    ap.add_argument('--include', required=True, help='include directory of the library (contains amc/flatset.hpp)')
    ap.add_argument('--out', required=True, help='generated Lean file (AmcVerif/Gen/FlatSetGen.lean)')
    a = ap.parse_args()
    try:
        text = generate(os.path.abspath(a.include))
    except Unsupported as e:
        print(f'TRANSLATION-BROKEN flatset2lean: {e}', file=sys.stderr)
        sys.exit(2)
    old = open(a.out).read() if os.path.exists(a.out) else None
    if old != text:
        os.makedirs(os.path.dirname(os.path.abspath(a.out)), exist_ok=True)
        with open(a.out, 'w') as f:
            f.write(text)
    import hashlib
    print(json.dumps({'ok': True, 'path': a.out, 'sha256': hashlib.sha256(text.encode()).hexdigest(), 'changed': old != text}))


if __name__ == '__main__':
    main()
