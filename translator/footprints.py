#!/usr/bin/env python3
"""footprints -- write footprints of the const member functions of the amc containers (property C20, tie T).

From /repo's CURRENT headers (or the tree named by --repo / AMC_REPO) this translator computes, for every `const`
member function of every class of namespace amc (vector bases, StaticVector/DynamicVector, VectorImpl, Vector,
FlatSet, SmallSet and its iterators, the allocators, their nested helper classes) -- and for every copy constructor
with respect to its *source* operand -- the set of WRITES TO NON-LOCAL STATE the function can perform:

  * assignment / compound assignment / ++ / -- whose target lives in `*this` (or in memory reached through `this`),
    in an object a const-declared parameter refers to, in a `static` local or in a namespace-scope variable;
  * calls of non-const member functions on such an object, calls that hand a non-const reference / pointer to such an
    object to a function outside amc;
  * `const_cast` (or a C-style / reinterpret cast that drops const) applied to something derived from `this`, from
    a member or from a const parameter; writes to `mutable` members;
  * transitively through every amc function that is called (bodies are analysed at their call sites with the
    actual provenance of `this` and of the arguments).

Method: clang++-14 dumps the typed JSON AST (instantiated, overload-resolved bodies) of a translation unit that
explicitly instantiates the containers for a few element types; a flow-insensitive points-to analysis over a
handful of abstract regions ('this', one per parameter, one per local variable, temporaries, globals) is run on
every body until it is stable.  Functions that are not defined in namespace amc (std:: algorithms, libc, element
type members) are TRUSTED to write only through non-const access they are given; they are listed in the status.

The translator REFUSES (exit 2, TRANSLATION-BROKEN on stderr, {"ok": false} on stdout) whatever it cannot
classify: an unknown AST node, an unresolvable callee, a const member (template) without an instantiated body,
a class-type argument to an external function whose constness cannot be established, a missing class.

Output: lean/AmcVerif/Gen/Footprints.lean (rewritten only when the text changes) and one JSON status line.
"""
import argparse, hashlib, json, os, re, subprocess, sys, tempfile

CLANG = 'clang++-14'


class Unsupported(Exception):
    pass


# ---------------------------------------------------------------------------------------------------------
# instantiation TU
# ---------------------------------------------------------------------------------------------------------
ELEM_TYPES = ['int', 'FpElem', 'FpStr']

TU_HEAD = r'''#define AMC_NONSTD_FEATURES
#include <functional>
#include <set>
#include <string>
#include <amc/vector.hpp>
#include <amc/smallvector.hpp>
#include <amc/fixedcapacityvector.hpp>
#include <amc/flatset.hpp>
#include <amc/smallset.hpp>
#include <amc/allocator.hpp>
// element types: trivially copyable int, a small struct with its own comparison, a non trivially relocatable one
struct FpElem { int v; bool operator<(const FpElem& o) const { return v < o.v; } bool operator==(const FpElem& o) const { return v == o.v; } };
struct FpStr { std::string s; bool operator<(const FpStr& o) const { return s < o.s; } bool operator==(const FpStr& o) const { return s == o.s; } };
'''

TU_INST = r'''
template class amc::vec::ElemStorage<T>;
template class amc::vec::ElemWithPtrStorage<T>;
template class amc::vec::StaticVectorBase<T, unsigned char>;
template class amc::vec::StdVectorBase<T, amc::allocator<T>, unsigned int>;
template class amc::vec::SmallVectorBase<T, amc::allocator<T>, unsigned int>;
template class amc::vec::StaticVector<T, unsigned char, amc::vec::ExceptionGrowingPolicy>;
template class amc::vec::DynamicVector<T, amc::allocator<T>, unsigned int, false>;
template class amc::vec::DynamicVector<T, amc::allocator<T>, unsigned int, true>;
template class amc::vec::VectorImpl<T, amc::vec::EmptyAlloc, unsigned char, true, amc::vec::ExceptionGrowingPolicy>;
template class amc::vec::VectorImpl<T, amc::allocator<T>, unsigned int, false, amc::vec::DynamicGrowingPolicy>;
template class amc::vec::VectorImpl<T, amc::allocator<T>, unsigned int, true, amc::vec::DynamicGrowingPolicy>;
template class amc::Vector<T, amc::vec::EmptyAlloc, unsigned char, amc::vec::ExceptionGrowingPolicy, 8>;
template class amc::Vector<T, amc::allocator<T>, unsigned int, amc::vec::DynamicGrowingPolicy, 0>;
template class amc::Vector<T, amc::allocator<T>, unsigned int, amc::vec::DynamicGrowingPolicy, 4>;
template class amc::FlatSet<T>;
template class amc::FlatSet<T, std::less<>>;
template class amc::SmallSet<T, 4>;
template class amc::SmallSet<T, 4, std::less<>>;
template class amc::SmallSet<T, 4, std::less<T>, amc::allocator<T>, amc::FlatSet<T>>;
template class amc::SmallSetIterator<T, std::set<T>::const_iterator, false>;
template class amc::SmallSetIterator<T, std::set<T>::const_iterator, true>;
template class amc::SmallSetIteratorCommon<T, std::set<T>::const_iterator>;
template class amc::BasicAllocatorWrapper<T, amc::SimpleAllocator>;
'''

# uses that instantiate the const member *templates* (explicit class instantiation does not)
TU_USES = r'''
namespace fp_uses {
using FV = amc::FixedCapacityVector<T, 8>;
using DV = amc::vector<T>;
using SV = amc::SmallVector<T, 4>;
using TFS = amc::FlatSet<T, std::less<>>;
using TSS = amc::SmallSet<T, 4, std::less<>>;
struct Key { const T& r; };
inline bool operator<(const Key& k, const T& t) { return k.r < t; }
inline bool operator<(const T& t, const Key& k) { return t < k.r; }
void use_sets(const TFS& fs, const TSS& ss, const T& t) {
  Key k{t};
  (void)fs.find(k); (void)fs.contains(k); (void)fs.count(k); (void)fs.lower_bound(k); (void)fs.upper_bound(k);
  (void)ss.find(k); (void)ss.contains(k); (void)ss.count(k);
}
void use_swap2(FV& f, DV& d, SV& s, FV& f2, DV& d2, SV& s2) {
  f.swap2(d); f.swap2(s); f.swap2(f2); d.swap2(f); d.swap2(s); d.swap2(d2); s.swap2(f); s.swap2(d); s.swap2(s2);
}
void use_alloc(const amc::allocator<T>& a, const amc::allocator<int>& b, const amc::allocator<long>& c) {
  (void)(b == c); (void)(b != c); amc::allocator<long> conv(b); (void)conv; (void)a;
}
}
'''

REQUIRED_CLASSES = [
    'amc::vec::StaticVectorBase', 'amc::vec::StdVectorBase', 'amc::vec::SmallVectorBase', 'amc::vec::StaticVector',
    'amc::vec::DynamicVector', 'amc::vec::VectorImpl', 'amc::Vector', 'amc::FlatSet', 'amc::SmallSet',
    'amc::SmallSetIterator', 'amc::SmallSetIteratorCommon', 'amc::BasicAllocatorWrapper', 'amc::SimpleAllocator',
    'amc::vec::ElemStorage', 'amc::vec::ElemWithPtrStorage',
]


def _subst_T(text, t):
    """replace the identifier T (whole word) by t"""
    return re.sub(r'\bT\b', t, text)


def tu_source():
    parts = [TU_HEAD]
    for i, t in enumerate(ELEM_TYPES):
        parts.append(_subst_T(TU_INST, t))
        parts.append(_subst_T(TU_USES.replace('fp_uses', 'fp_uses%d' % i), t))
    return '\n'.join(parts)


def parse_concat(src):
    dec = json.JSONDecoder(); i = 0; objs = []; n = len(src)
    while i < n:
        while i < n and src[i].isspace():
            i += 1
        if i >= n:
            break
        o, j = dec.raw_decode(src, i); objs.append(o); i = j
    return objs


def clang_dump(include, src_path, flt='amc', std='gnu++17'):
    cmd = [CLANG, f'-std={std}', '-I', include, '-fsyntax-only', '-Xclang', '-ast-dump=json',
           '-Xclang', f'-ast-dump-filter={flt}', src_path]
    p = subprocess.run(cmd, capture_output=True, text=True)
    if p.returncode != 0:
        raise Unsupported('clang failed on the instantiation TU: ' + p.stderr[-2500:])
    return parse_concat(p.stdout)


# ---------------------------------------------------------------------------------------------------------
# type strings
# ---------------------------------------------------------------------------------------------------------
def tystr(n):
    t = n.get('type') or {}
    return t.get('desugaredQualType') or t.get('qualType') or ''


def split_top(s, sep=','):
    out = []; depth = 0; cur = []
    for ch in s:
        if ch in '<([':
            depth += 1
        elif ch in '>)]':
            depth -= 1
        if ch == sep and depth == 0:
            out.append(''.join(cur).strip()); cur = []
        else:
            cur.append(ch)
    if ''.join(cur).strip():
        out.append(''.join(cur).strip())
    return out


def last_top(s, chars):
    """index of the last character in `chars` that is outside <>, (), []; -1 if none"""
    depth = 0; idx = -1
    for i, ch in enumerate(s):
        if ch in '<([':
            depth += 1
        elif ch in '>)]':
            depth -= 1
        elif depth == 0 and ch in chars:
            idx = i
    return idx


def strip_ref(t):
    t = t.strip()
    while t.endswith('&'):
        t = t[:-1].rstrip()
    return t


def is_ref(t):
    return t.strip().endswith('&')


def is_rvalue_ref(t):
    return t.strip().endswith('&&')


def is_ptr(t):
    t = strip_ref(t)
    i = last_top(t, '*')
    if i < 0:
        return False
    return t[i + 1:].strip() in ('', 'const', 'const volatile', 'volatile', '__restrict', 'const __restrict')


def top_const(t):
    """is the (non-reference) type const-qualified at top level"""
    t = strip_ref(t)
    i = last_top(t, '*')
    if i >= 0:
        return 'const' in t[i + 1:].split()
    toks = t.split()
    return bool(toks) and (toks[0] == 'const' or toks[-1] == 'const' or ' const ' in ' ' + t + ' ' and last_top(t, '<') < 0)


def pointee(t):
    t = strip_ref(t)
    i = last_top(t, '*')
    return t[:i].strip()


def fn_tail_quals(qt):
    """('const' in qualifiers, ) of a member function type string such as 'int (int) const noexcept'"""
    s = qt.strip()
    i = s.find(' -> ')
    if i >= 0 and last_top(s[:i], ')') >= 0:
        # trailing return type: qualifiers are before '->'
        s = s[:i].rstrip()
    # drop noexcept / noexcept(...) / throw()
    while True:
        m = re.search(r'\s(noexcept|throw)\s*$', s)
        if m:
            s = s[:m.start()].rstrip(); continue
        if s.endswith(')'):
            # maybe noexcept(...)
            depth = 0; j = len(s) - 1
            while j >= 0:
                if s[j] == ')':
                    depth += 1
                elif s[j] == '(':
                    depth -= 1
                    if depth == 0:
                        break
                j -= 1
            head = s[:j].rstrip()
            if head.endswith('noexcept') or head.endswith('throw'):
                s = re.sub(r'\s*(noexcept|throw)$', '', head); continue
        break
    tail = s[s.rfind(')') + 1:].split()
    return 'const' in tail


SCALARS = {'int', 'unsigned int', 'long', 'unsigned long', 'short', 'unsigned short', 'char', 'unsigned char', 'signed char',
           'bool', 'long long', 'unsigned long long', 'float', 'double', 'long double', 'void', 'std::nullptr_t', 'nullptr_t',
           'std::size_t', 'size_t', 'std::ptrdiff_t', 'ptrdiff_t', 'wchar_t', 'char16_t', 'char32_t', 'unsigned', 'uintmax_t',
           'std::bidirectional_iterator_tag', 'std::random_access_iterator_tag', 'std::input_iterator_tag', 'std::forward_iterator_tag'}

INT_RE = re.compile(r'(unsigned |signed )?(char|short|int|long|long long|__int128)( unsigned| int)*')


def is_scalar(t):
    """arithmetic, enumeration or bool type (possibly const / reference): such a value refers to nothing"""
    t = strip_ref(t).strip()
    if not t or '*' in t or '(' in t:
        return False
    toks = [x for x in t.split() if x not in ('const', 'volatile')]
    t = ' '.join(toks)
    return t in SCALARS or bool(INT_RE.fullmatch(t)) or t.startswith('enum ')


# class templates / classes that hold exactly what their template arguments say (no hidden mutable handle)
TRANSPARENT_WRAPPERS = ('std::reverse_iterator', 'std::move_iterator', 'std::back_insert_iterator', 'std::variant', 'std::pair',
                        'std::tuple', 'std::optional', 'std::initializer_list', 'std::less', 'std::greater', 'std::equal_to',
                        'std::allocator', 'std::set', 'std::vector', 'std::__cxx11::basic_string', 'std::basic_string',
                        'std::char_traits', 'std::integral_constant', 'std::_Rb_tree_const_iterator', 'std::in_place_type_t',
                        '__gnu_cxx::__ops::_Iter_less_iter', '__gnu_cxx::__ops::_Iter_comp_iter', '__gnu_cxx::__ops::_Iter_pred',
                        '__gnu_cxx::__ops::_Val_comp_iter', '__gnu_cxx::__ops::_Iter_comp_val', '__gnu_cxx::__ops::_Iter_equals_val')


# ---------------------------------------------------------------------------------------------------------
# index of the dump
# ---------------------------------------------------------------------------------------------------------
FUNC_KINDS = ('FunctionDecl', 'CXXMethodDecl', 'CXXConstructorDecl', 'CXXDestructorDecl', 'CXXConversionDecl')
RECORD_KINDS = ('CXXRecordDecl', 'ClassTemplateSpecializationDecl', 'ClassTemplatePartialSpecializationDecl')


def has_body(n):
    return any(isinstance(c, dict) and c.get('kind') in ('CompoundStmt', 'CXXTryStmt') for c in n.get('inner', []))


class Index:
    def __init__(self, objs):
        self.decl = {}          # id -> node (every node that has an id and is a Decl)
        self.parent = {}        # id(node) python identity -> parent node
        self.records = []       # (node, qualified template/class name, is_pattern)
        self.fn_body = {}       # id -> node with body, following previousDecl chains
        self.file = None; self.line = None
        self.this_type = {}     # record python-id -> printed type
        self.type_to_record = {}
        self._prev = {}
        for o in objs:
            self._walk(o, None, [])
        # definitions of out-of-line members: previousDecl chain
        for nid, n in list(self.decl.items()):
            if n.get('kind') in FUNC_KINDS and has_body(n):
                self.fn_body.setdefault(nid, n)
                p = n.get('previousDecl')
                seen = set()
                while p and p not in seen:
                    seen.add(p)
                    self.fn_body.setdefault(p, n)
                    pn = self.decl.get(p)
                    p = pn.get('previousDecl') if pn else None

    def _loc(self, d):
        """resolve clang's delta-encoded locations in document order"""
        if not isinstance(d, dict):
            return
        for key in ('spellingLoc', 'expansionLoc'):
            if key in d:
                self._loc(d[key])
        if 'file' in d:
            self.file = d['file']
        if 'line' in d:
            self.line = d['line']

    def _walk(self, n, parent, scope):
        if not isinstance(n, dict):
            return
        for k in list(n):
            if k == 'loc':
                self._loc(n['loc'])
                n['_file'], n['_line'] = self.file, self.line
            elif k == 'range':
                self._loc(n['range'].get('begin'))
                n.setdefault('_file', self.file); n['_bline'] = self.line; n['_bfile'] = self.file
                self._loc(n['range'].get('end'))
        kind = n.get('kind', '')
        n['_parent'] = parent
        if 'id' in n and kind.endswith('Decl') and ('inner' in n or n['id'] not in self.decl):
            # a stub (reference to a decl dumped elsewhere) never replaces a full node
            old = self.decl.get(n['id'])
            if old is None or len(n.get('inner', [])) >= len(old.get('inner', [])):
                self.decl[n['id']] = n
        sc = scope
        if kind == 'NamespaceDecl':
            sc = scope + [n.get('name', '(anonymous)')]
        elif kind in RECORD_KINDS:
            if n.get('completeDefinition') and n.get('inner'):
                self.records.append((n, scope[:]))
            sc = scope + [n.get('name') or '(anonymous)']
        elif kind == 'ClassTemplateDecl':
            sc = scope
        for c in n.get('inner', []):
            self._walk(c, n, sc)


def enclosing(n, kinds):
    p = n.get('_parent')
    while p is not None and p.get('kind') not in kinds:
        p = p.get('_parent')
    return p


def fn_name(n):
    """qualified display name of a function decl found in the dump: Class::name"""
    rec = enclosing(n, RECORD_KINDS)
    nm = n.get('name', '?')
    if rec is not None:
        return (rec.get('name') or '(lambda)') + '::' + nm
    return nm


def src_at(n):
    f = n.get('_bfile') or n.get('_file') or '?'
    ln = n.get('_bline') or n.get('_line') or 0
    return f'{os.path.basename(f)}:{ln}'


# ---------------------------------------------------------------------------------------------------------
# the analysis
# ---------------------------------------------------------------------------------------------------------
EMPTY = frozenset()


class Val:
    """abstract value: `sto` = regions the glvalue's storage may lie in (empty for prvalues),
    `pts` = regions the value may point / refer into (for objects: what their sub-objects may point into)"""
    __slots__ = ('sto', 'pts')

    def __init__(self, sto=EMPTY, pts=EMPTY):
        self.sto = frozenset(sto); self.pts = frozenset(pts)

    def __repr__(self):
        return f'Val(sto={sorted(self.sto)}, pts={sorted(self.pts)})'


NOVAL = Val()

PASS_THROUGH = {'ParenExpr', 'ExprWithCleanups', 'CXXBindTemporaryExpr', 'ConstantExpr',
                'CXXFunctionalCastExpr', 'CXXStaticCastExpr', 'ImplicitCastExpr', 'CStyleCastExpr', 'CXXReinterpretCastExpr',
                'CXXConstCastExpr', 'FullExpr', 'CXXDynamicCastExpr'}
LITERALS = {'IntegerLiteral', 'CXXBoolLiteralExpr', 'StringLiteral', 'FloatingLiteral', 'CharacterLiteral',
            'CXXNullPtrLiteralExpr', 'GNUNullExpr', 'CXXScalarValueInitExpr', 'ImplicitValueInitExpr', 'TypeTraitExpr',
            'PredefinedExpr', 'UnaryExprOrTypeTraitExpr', 'CXXNoexceptExpr', 'CXXDefaultInitExpr', 'SizeOfPackExpr',
            'NoInitExpr', 'CXXTypeidExpr', 'SubstNonTypeTemplateParmExpr'}
ASSIGN_OPS = {'=', '+=', '-=', '*=', '/=', '%=', '<<=', '>>=', '&=', '|=', '^='}

# external functions with known data flow (identified by name; a function of that name defined in amc is analysed, not trusted)
IDENTITY_FNS = {'forward', 'move', 'move_if_noexcept', 'as_const', 'launder', '__addressof_dummy'}
SUBOBJECT_FNS = {'get', 'get_if', '__get'}
POINTER_ARITH_FNS = {'prev', 'next', 'min', 'max', 'make_move_iterator', 'make_reverse_iterator', '__niter_base',
                     '__miter_base', '__niter_wrap'}
MEMCPY_FNS = {'memcpy', 'memmove', '__builtin_memcpy', '__builtin_memmove'}


class Frame:
    def __init__(self, fn, this, ctx, parent):
        self.fn = fn; self.this = this; self.ctx = ctx; self.parent = parent
        self.vars = {}       # decl id -> ('obj', region) | ('ref', var key)
        self.ret = [set(), set()]


class Analyzer:
    def __init__(self, index):
        self.ix = index
        self.trusted = {}       # external callee name -> count
        self.notes = set()
        self._pf = {}
        self.reset()

    def reset(self):
        self.env = {}           # region -> set(regions) stored there
        self.alias = {}         # reference variable key -> set(regions) it may be bound to
        self.writes = {}        # description -> None (ordered set)
        self.changed = False
        self.frame = None
        self.stack = []

    # ---- regions --------------------------------------------------------------------------------------
    @staticmethod
    def protected(r):
        return r == 'this' or r.startswith('P:') or r.startswith('G:')

    def load(self, regions):
        out = set()
        for r in regions:
            if self.protected(r) or r.startswith('M:'):
                out.add(r)
            out |= self.env.get(r, set())
        return frozenset(out)

    def store(self, regions, pts):
        for r in regions:
            s = self.env.setdefault(r, set())
            if not pts <= s:
                s |= pts; self.changed = True

    def closure(self, regions):
        seen = set(regions); todo = list(regions)
        while todo:
            r = todo.pop()
            for q in self.load([r]):
                if q not in seen:
                    seen.add(q); todo.append(q)
        return frozenset(seen)

    def describe_region(self, r):
        if r == 'this':
            return '*this'
        if r.startswith('P:'):
            return f"the object const parameter '{r[2:]}' refers to"
        if r.startswith('G:'):
            return r[2:]
        return r

    def chain(self):
        names = [fn_name(f.fn) for f in self.stack[1:]] + ([fn_name(self.frame.fn)] if self.frame and self.stack else [])
        return (' via ' + ' > '.join(names)) if names else ''

    def write(self, what, regions, node):
        bad = sorted(r for r in regions if self.protected(r))
        if not bad:
            return
        for r in bad:
            self.writes[f'{what} targeting {self.describe_region(r)} at {src_at(node)}{self.chain()}'] = None

    def flag(self, text, node):
        self.writes[f'{text} at {src_at(node)}{self.chain()}'] = None

    # ---- variables -----------------------------------------------------------------------------------------
    def lookup_var(self, did):
        f = self.frame
        while f is not None:
            if did in f.vars:
                return f.vars[did]
            f = f.parent
        return None

    def declare_obj(self, did, name):
        r = f'L:{name}#{did[-6:]}@{self.frame.ctx}'
        self.frame.vars[did] = ('obj', r)
        return r

    def declare_ref(self, did, name):
        k = f'R:{name}#{did[-6:]}@{self.frame.ctx}'
        self.frame.vars[did] = ('ref', k)
        return k

    def bind_ref(self, key, regions):
        s = self.alias.setdefault(key, set())
        if not set(regions) <= s:
            s |= set(regions); self.changed = True

    # ---- expressions --------------------------------------------------------------------------------------
    def ev(self, n):
        v = self.ev_(n)
        if v.pts and (is_scalar(tystr(n)) or self.ptr_free(tystr(n), strict=True)):
            # arithmetic / enumeration values, and class values without any pointer member, refer to nothing
            return Val(v.sto, EMPTY)
        return v

    def ev_(self, n):
        k = n.get('kind')
        m = getattr(self, 'ev_' + k, None)
        if m is not None:
            return m(n)
        if k in LITERALS:
            return NOVAL
        if k in PASS_THROUGH:
            return self.ev_cast(n)
        raise Unsupported(f'expression kind {k} at {src_at(n)} in {fn_name(self.frame.fn)}')

    def kids(self, n):
        return [c for c in n.get('inner', []) if isinstance(c, dict) and 'kind' in c]

    def ev_cast(self, n):
        kids = self.kids(n)
        if not kids:
            return NOVAL
        sub = kids[0]
        v = self.ev(sub)
        ck = n.get('castKind')
        kind = n['kind']
        dst = tystr(n)
        # casts that could drop const
        if kind in ('CXXConstCastExpr', 'CStyleCastExpr', 'CXXReinterpretCastExpr', 'CXXFunctionalCastExpr') or \
                (kind == 'CXXStaticCastExpr' and ck == 'BitCast'):
            src = tystr(sub)
            reach = set(v.pts) | set(v.sto)
            prot = sorted(r for r in reach if self.protected(r))
            if prot and (is_ptr(dst) or n.get('valueCategory') in ('lvalue', 'xvalue')):
                drops = self.cast_drops_const(src, dst, n, sub)
                if drops:
                    for r in prot:
                        if r == 'this' or r.startswith('G:'):
                            self.flag(f"{'const_cast' if kind == 'CXXConstCastExpr' else 'cast dropping const'} "
                                      f"of an expression derived from {self.describe_region(r)}", n)
                        else:
                            # a const parameter that is not an object of the container: the cast alone is not a
                            # write to the container; a write through the result is caught at the write
                            self.notes.add(f"const_cast of parameter-derived pointer ({src} -> {dst}) at {src_at(n)} in {fn_name(self.frame.fn)}")
        if ck == 'LValueToRValue':
            return Val(EMPTY, self.load(v.sto))
        if ck == 'ArrayToPointerDecay':
            return Val(EMPTY, v.sto)
        if ck in ('FunctionToPointerDecay', 'BuiltinFnToFnPtr'):
            return NOVAL
        if ck in ('ConstructorConversion', 'UserDefinedConversion'):
            return v
        if ck == 'ToVoid':
            return NOVAL
        return v

    def cast_drops_const(self, src, dst, n, sub):
        if n.get('valueCategory') in ('lvalue', 'xvalue') and not is_ptr(dst):
            s_const = top_const(src); d_const = top_const(dst)
            return s_const and not d_const
        if is_ptr(dst):
            d_const = top_const(pointee(dst))
            if d_const:
                return False
            if is_ptr(src):
                return top_const(pointee(src))
            # integer -> pointer or array decay: cannot tell
            return True
        return False

    def ev_CXXThisExpr(self, n):
        f = self.frame
        while f is not None and f.this is None and f.parent is not None and f.fn.get('_is_lambda_body'):
            f = f.parent
        if f is None or f.this is None:
            # inside a lambda body: `this` of the enclosing member function
            g = self.frame
            while g is not None:
                if g.this is not None:
                    return Val(EMPTY, g.this)
                g = g.parent
            raise Unsupported(f'`this` outside a member function at {src_at(n)}')
        return Val(EMPTY, f.this)

    def ev_DeclRefExpr(self, n):
        rd = n.get('referencedDecl', {})
        kind = rd.get('kind')
        did = rd.get('id')
        if kind in ('ParmVarDecl', 'VarDecl', 'BindingDecl', 'DecompositionDecl'):
            b = self.lookup_var(did)
            if b is None:
                return self.global_var(rd, n)
            if b[0] == 'obj':
                return Val({b[1]}, self.load({b[1]}))
            regs = frozenset(self.alias.get(b[1], set()))
            return Val(regs, self.load(regs))
        if kind in ('FunctionDecl', 'CXXMethodDecl'):
            return NOVAL
        if kind == 'EnumConstantDecl' or kind == 'NonTypeTemplateParmDecl':
            return NOVAL
        if kind == 'FieldDecl':   # capture field of a lambda; not produced by clang for plain captures
            return Val(self.frame.this or EMPTY, self.load(self.frame.this or EMPTY))
        raise Unsupported(f'reference to {kind} {rd.get("name")} at {src_at(n)}')

    def global_var(self, rd, n):
        d = self.ix.decl.get(rd.get('id'))
        ty = (rd.get('type') or {}).get('desugaredQualType') or (rd.get('type') or {}).get('qualType') or ''
        name = rd.get('name', '?')
        if d is not None and (d.get('constexpr') or (top_const(tystr(d)) and not is_ptr(tystr(d)))):
            return NOVAL
        if d is None and top_const(ty) and not is_ptr(ty) and not is_ref(ty):
            return NOVAL
        if d is not None and enclosing(d, FUNC_KINDS) is not None and d.get('storageClass') != 'static':
            # a captured local variable whose frame is not on the stack (lambda analysed out of context)
            raise Unsupported(f"captured variable '{name}' used outside its frame at {src_at(n)}")
        where = 'static local variable' if (d is not None and enclosing(d, FUNC_KINDS) is not None) else \
                ('static data member' if (d is not None and enclosing(d, RECORD_KINDS) is not None) else 'namespace-scope variable')
        r = f"G:{where} '{name}'"
        return Val({r}, {r})

    def ev_MemberExpr(self, n):
        kids = self.kids(n)
        base = self.ev(kids[0]) if kids else NOVAL
        obj = base.pts if n.get('isArrow') else base.sto
        if not n.get('isArrow') and not base.sto:
            # member of a class prvalue (temporary not materialised)
            t = self.temp_region()
            self.store({t}, base.pts)
            obj = frozenset({t})
        md = self.ix.decl.get(n.get('referencedMemberDecl'))
        if md is None:
            # field / method of a class outside amc (std::pair::first ...)
            return Val(obj, self.load(obj))
        mk = md.get('kind')
        if mk == 'FieldDecl':
            if md.get('mutable'):
                self.notes.add(f"access to mutable member '{md.get('name')}' at {src_at(n)}")
            if is_ref(tystr(md)):
                regs = self.load(obj)
                return Val(regs, self.load(regs))
            return Val(obj, self.load(obj))
        if mk == 'VarDecl':   # static data member
            return self.global_var({'id': md['id'], 'name': md.get('name'), 'type': md.get('type')}, n)
        if mk in FUNC_KINDS or mk == 'FunctionTemplateDecl':
            return Val(obj, self.load(obj))
        if mk in ('EnumConstantDecl',):
            return NOVAL
        raise Unsupported(f'member {mk} at {src_at(n)}')

    def temp_region(self):
        return f'T@{self.frame.ctx}'

    def ev_MaterializeTemporaryExpr(self, n):
        v = self.ev(self.kids(n)[0])
        if v.sto:
            return v
        t = self.temp_region()
        self.store({t}, v.pts)
        return Val({t}, self.load({t}))

    def ev_UnaryOperator(self, n):
        op = n.get('opcode')
        v = self.ev(self.kids(n)[0])
        if op in ('++', '--'):
            self.write(f"'{op}'", v.sto, n)
            return Val(v.sto if not n.get('isPostfix') else EMPTY, self.load(v.sto))
        if op == '*':
            return Val(v.pts, self.load(v.pts))
        if op == '&':
            return Val(EMPTY, v.sto)
        if op in ('!', '-', '+', '~', '__extension__', '__real', '__imag'):
            return Val(EMPTY, v.pts if op == '__extension__' else EMPTY)
        raise Unsupported(f'unary operator {op} at {src_at(n)}')

    def ev_BinaryOperator(self, n):
        op = n.get('opcode')
        a, b = self.kids(n)
        va = self.ev(a); vb = self.ev(b)
        if op in ASSIGN_OPS:
            self.write(f"assignment '{op}'", va.sto, n)
            self.store(va.sto, vb.pts if op == '=' else (vb.pts | va.pts))
            return Val(va.sto, self.load(va.sto))
        if op == ',':
            return vb
        if op in ('+', '-'):
            return Val(EMPTY, va.pts | vb.pts)
        if op in ('.*', '->*'):
            raise Unsupported(f'pointer-to-member access at {src_at(n)}')
        return NOVAL

    ev_CompoundAssignOperator = ev_BinaryOperator

    def ev_ConditionalOperator(self, n):
        c, a, b = self.kids(n)
        self.ev(c)
        va = self.ev(a); vb = self.ev(b)
        return Val(va.sto | vb.sto, va.pts | vb.pts)

    def ev_BinaryConditionalOperator(self, n):
        vs = [self.ev(c) for c in self.kids(n)]
        return Val(frozenset().union(*[v.sto for v in vs]), frozenset().union(*[v.pts for v in vs]))

    def ev_OpaqueValueExpr(self, n):
        kids = self.kids(n)
        return self.ev(kids[0]) if kids else NOVAL

    def ev_ArraySubscriptExpr(self, n):
        a, b = self.kids(n)
        va = self.ev(a); vb = self.ev(b)
        regs = va.pts | vb.pts
        return Val(regs, self.load(regs))

    def ev_InitListExpr(self, n):
        pts = set()
        for c in self.kids(n):
            v = self.ev(c)
            pts |= v.pts
        return Val(EMPTY, pts)

    ev_ParenListExpr = ev_InitListExpr
    ev_CXXStdInitializerListExpr = ev_InitListExpr

    def ev_CXXDefaultArgExpr(self, n):
        return NOVAL

    def ev_CXXThrowExpr(self, n):
        for c in self.kids(n):
            self.ev(c)
        return NOVAL

    def ev_CXXNewExpr(self, n):
        kids = self.kids(n)
        if n.get('isPlacement'):
            place = set(); content = set(); seen_place = False
            for c in kids:
                if c.get('kind') in ('CXXConstructExpr', 'CXXTemporaryObjectExpr'):
                    v = self.ev_CXXConstructExpr(c, target=None)
                    content |= v.pts
                    continue
                v = self.ev(c)
                if strip_ref(tystr(c)).replace('const ', '').replace('volatile ', '').strip() == 'void *':
                    place |= v.pts; seen_place = True
                else:
                    content |= v.pts
            if not seen_place:
                raise Unsupported(f'placement new without a recognisable placement argument at {src_at(n)}')
            self.write('placement new', place, n)
            self.store(place, frozenset(content))
            return Val(EMPTY, frozenset(place))
        # operator new is an allocator entry point: fresh memory
        for c in kids:
            self.ev(c)
        t = f'H@{self.frame.ctx}'
        return Val(EMPTY, {t})

    def ev_CXXDeleteExpr(self, n):
        v = self.ev(self.kids(n)[0])
        self.write('delete', v.pts, n)
        return NOVAL

    def ev_CXXPseudoDestructorExpr(self, n):
        for c in self.kids(n):
            self.ev(c)
        return NOVAL

    def ev_LambdaExpr(self, n):
        # captures are evaluated here; the body is analysed where the closure is called or handed to external code
        pts = set()
        for c in self.kids(n):
            if c.get('kind') in ('CXXRecordDecl', 'CompoundStmt'):
                continue
            v = self.ev(c)
            pts |= v.pts | v.sto
        n['_lambda_frame'] = self.frame
        return Val(EMPTY, pts)

    # ---- calls -------------------------------------------------------------------------------------------------
    def callee_of(self, n):
        """(decl stub dict or None) of a CallExpr / CXXOperatorCallExpr callee expression"""
        c = self.kids(n)[0]
        while c.get('kind') in ('ImplicitCastExpr', 'ParenExpr'):
            c = self.kids(c)[0]
        if c.get('kind') == 'DeclRefExpr':
            return c.get('referencedDecl'), None
        if c.get('kind') == 'MemberExpr':
            return {'id': c.get('referencedMemberDecl'), 'name': c.get('name'), 'kind': 'CXXMethodDecl', 'type': {}}, c
        return None, c

    def ev_CXXMemberCallExpr(self, n):
        kids = self.kids(n)
        me = kids[0]
        while me.get('kind') in ('ParenExpr', 'ImplicitCastExpr'):
            me = self.kids(me)[0]
        if me.get('kind') != 'MemberExpr':
            raise Unsupported(f'member call through {me.get("kind")} at {src_at(n)}')
        bkids = self.kids(me)
        basev = self.ev(bkids[0])
        if me.get('isArrow'):
            obj = basev.pts
            objty = pointee(tystr(bkids[0]))
        else:
            obj = basev.sto
            objty = tystr(bkids[0])
            if not obj:
                t = self.temp_region(); self.store({t}, basev.pts); obj = frozenset({t})
        args = kids[1:]
        did = me.get('referencedMemberDecl')
        decl = self.ix.decl.get(did)
        if decl is not None and decl.get('kind') == 'CXXConversionDecl' or (decl is not None and decl.get('kind') in FUNC_KINDS):
            return self.call_own(decl, obj, args, n, obj_const=top_const(objty))
        if decl is not None:
            raise Unsupported(f'member call to {decl.get("kind")} at {src_at(n)}')
        return self.call_external(me.get('name', '?'), n, args, obj=obj, obj_const=top_const(objty), obj_type=objty)

    def ev_CXXOperatorCallExpr(self, n):
        rd, me = self.callee_of(n)
        kids = self.kids(n)
        if rd is None:
            raise Unsupported(f'operator call with unresolved callee at {src_at(n)}')
        if rd.get('kind') == 'CXXMethodDecl':
            decl = self.ix.decl.get(rd.get('id'))
            is_static = decl is not None and decl.get('storageClass') == 'static'
            objn = kids[1]
            ov = self.ev(objn)
            obj = ov.sto
            if not obj:
                t = self.temp_region(); self.store({t}, ov.pts); obj = frozenset({t})
            objty = tystr(objn)
            if decl is not None:
                return self.call_own(decl, None if is_static else obj, kids[2:], n, obj_const=top_const(objty))
            qt = (rd.get('type') or {}).get('qualType', '')
            return self.call_external(rd.get('name', '?'), n, kids[2:], obj=obj, obj_const=fn_tail_quals(qt) or top_const(objty),
                                      obj_type=objty)
        decl = self.ix.decl.get(rd.get('id'))
        if decl is not None:
            return self.call_own(decl, None, kids[1:], n)
        return self.call_external(rd.get('name', '?'), n, kids[1:])

    def ev_CallExpr(self, n):
        rd, me = self.callee_of(n)
        kids = self.kids(n)
        if rd is None:
            raise Unsupported(f'call through {me.get("kind")} (not a named function) at {src_at(n)} in {fn_name(self.frame.fn)}')
        if rd.get('kind') not in ('FunctionDecl', 'CXXMethodDecl'):
            raise Unsupported(f'call of {rd.get("kind")} {rd.get("name")} at {src_at(n)}')
        if me is not None:
            for c in self.kids(me):
                self.ev(c)
        decl = self.ix.decl.get(rd.get('id'))
        if decl is not None:
            return self.call_own(decl, None, kids[1:], n)
        return self.call_external(rd.get('name', '?'), n, kids[1:])

    def ev_CXXConstructExpr(self, n, target=None):
        kids = self.kids(n)
        ty = tystr(n)
        rec = self.record_of_type(ty)
        if rec is None and strip_ref(ty).replace('const ', '').startswith('amc::') and not self.is_trivial_ctor(n):
            raise Unsupported(f'constructor of amc class {ty} cannot be resolved at {src_at(n)}')
        ctor = self.find_ctor(rec, n) if rec is not None else None
        region = target or self.temp_region()
        if ctor is not None and (has_body(ctor) or any(c.get('kind') == 'CXXCtorInitializer' for c in ctor.get('inner', []))):
            body = self.ix.fn_body.get(ctor['id'], ctor)
            self.call_own(body, frozenset({region}), kids, n, is_ctor=True)
            return Val(EMPTY if target else EMPTY, self.load({region}))
        # implicit / defaulted / external constructor: member-wise; the new object may keep what the arguments reach
        pts = set()
        for a in kids:
            v = self.ev(a)
            self.check_ext_arg(a, v, ty + ' constructor', n, ctor_like=True)
            pts |= v.pts | self.load(v.sto)
        if self.ptr_free(ty, strict=True):
            pts = set()
        self.store({region}, frozenset(pts))
        if rec is None and not self.short_type(ty).startswith('amc::') and kids:
            self.trusted[f'{self.short_type(ty)} (constructor)'] = self.trusted.get(f'{self.short_type(ty)} (constructor)', 0) + 1
        return Val(EMPTY, frozenset(pts))

    ev_CXXTemporaryObjectExpr = ev_CXXConstructExpr

    def is_trivial_ctor(self, n):
        return not self.kids(n)

    @staticmethod
    def short_type(ty):
        t = strip_ref(ty).replace('const ', '')
        i = t.find('<')
        return t if i < 0 else t[:i]

    def record_of_type(self, ty):
        t = strip_ref(ty).strip()
        if t.startswith('const '):
            t = t[6:]
        return self.ix.type_to_record.get(t)

    def find_ctor(self, rec, n):
        want = (n.get('ctorType') or {}).get('qualType')
        cands = []
        def scan(node):
            for c in node.get('inner', []):
                if not isinstance(c, dict):
                    continue
                if c.get('kind') == 'CXXConstructorDecl':
                    cands.append(c)
                elif c.get('kind') == 'FunctionTemplateDecl':
                    scan(c)
        scan(rec)
        exact = [c for c in cands if (c.get('type') or {}).get('qualType') == want]
        withbody = [c for c in exact if has_body(c) or c['id'] in self.ix.fn_body]
        if withbody:
            return self.ix.fn_body.get(withbody[0]['id'], withbody[0])
        if exact:
            return exact[0]
        nargs = len(self.kids(n))
        if not cands and nargs == 0:
            return None
        # inherited / implicit constructors are not listed with a matching type; treat as memberwise unless the class
        # has a user-provided constructor with the same number of parameters and a body (then we cannot tell)
        amb = [c for c in cands if has_body(c) and len([p for p in c.get('inner', []) if p.get('kind') == 'ParmVarDecl']) == nargs
               and not c.get('isImplicit')]
        if amb:
            if len(amb) == 1:
                return amb[0]
            raise Unsupported(f'constructor {want} of {rec.get("name")} is ambiguous at {src_at(n)}')
        return None

    def call_own(self, decl, this, args, n, obj_const=None, is_ctor=False):
        body = self.ix.fn_body.get(decl['id'])
        if body is None:
            if decl.get('isImplicit') or decl.get('explicitlyDefaulted') or decl.get('implicit'):
                # implicit copy / move assignment etc.: member-wise
                pts = set()
                for a in args:
                    v = self.ev(a)
                    pts |= v.pts | self.load(v.sto)
                if this is not None and decl.get('name', '').startswith('operator='):
                    self.write(f"implicit {decl.get('name')}", this, n)
                    self.store(this, frozenset(pts))
                return Val(this or EMPTY, frozenset(pts) | (self.load(this) if this else EMPTY))
            if decl.get('kind') == 'CXXDestructorDecl':
                return NOVAL
            raise Unsupported(f"amc function {fn_name(decl)} is called at {src_at(n)} (from {fn_name(self.frame.fn)}) but has no "
                              f"instantiated body in the dump")
        if len(self.stack) > 40 or any(f.fn is body and f.this == this for f in self.stack):
            raise Unsupported(f'recursion through {fn_name(body)} at {src_at(n)}')
        params = [p for p in body.get('inner', []) if p.get('kind') == 'ParmVarDecl']
        argvals = [(a, self.ev(a)) for a in args]
        ctx = hashlib.sha1((self.frame.ctx + '/' + n.get('id', '') ).encode()).hexdigest()[:8]
        fr = Frame(body, this, ctx, None)
        saved = self.frame
        self.stack.append(saved)
        self.frame = fr
        try:
            for i, p in enumerate(params):
                pty = tystr(p)
                if i < len(argvals):
                    a, v = argvals[i]
                else:
                    v = NOVAL   # default argument
                if p.get('isParameterPack') or '...' in pty:
                    rest = argvals[i:]
                    v = Val(frozenset().union(*[x.sto for _, x in rest]) if rest else EMPTY,
                            frozenset().union(*[x.pts for _, x in rest]) if rest else EMPTY)
                if is_ref(pty):
                    k = self.declare_ref(p['id'], p.get('name', f'arg{i}'))
                    regs = v.sto
                    if not regs:
                        t = f'T@{ctx}'; self.store({t}, v.pts); regs = frozenset({t})
                    self.bind_ref(k, regs)
                else:
                    r = self.declare_obj(p['id'], p.get('name', f'arg{i}'))
                    self.store({r}, v.pts if not v.sto or v.pts else self.load(v.sto))
            self.run_body(body)
            sto, pts = fr.ret
        finally:
            self.frame = saved
            self.stack.pop()
        rty = self.ret_type(body)
        if is_ctor:
            return NOVAL
        if is_ref(rty):
            return Val(frozenset(sto), self.load(sto))
        return Val(EMPTY, frozenset(pts))

    @staticmethod
    def ret_type(fn):
        qt = tystr(fn)
        i = qt.find('(')
        # return type is the text before the parameter list at top level
        depth = 0
        for j, ch in enumerate(qt):
            if ch in '<[':
                depth += 1
            elif ch in '>]':
                depth -= 1
            elif ch == '(' and depth == 0:
                i = j; break
        r = qt[:i].strip()
        if r == 'auto' or r == 'decltype(auto)':
            k = qt.find(' -> ')
            if k >= 0:
                return qt[k + 4:].strip()
        return r

    def run_body(self, fn):
        for c in fn.get('inner', []):
            if not isinstance(c, dict):
                continue
            if c.get('kind') == 'CXXCtorInitializer':
                tgt = self.frame.this or EMPTY
                for e in self.kids(c):
                    if e.get('kind') in ('CXXConstructExpr', 'CXXTemporaryObjectExpr'):
                        # sub-object constructed in place
                        t = next(iter(tgt)) if len(tgt) == 1 else None
                        v = self.ev_CXXConstructExpr(e, target=t)
                    else:
                        v = self.ev(e)
                    self.store(tgt, v.pts)
            elif c.get('kind') in ('CompoundStmt', 'CXXTryStmt'):
                self.st(c)

    # ---- external calls ------------------------------------------------------------------------------------------
    def const_view(self, ty, depth=0):
        """True: objects of this type cannot be used to write to what they refer to; False: they can; None: unknown"""
        t = strip_ref(ty).strip()
        if depth > 8:
            return None
        if is_ptr(t):
            if top_const(pointee(t)):
                return True
            p = pointee(t)
            if p.replace('const ', '') in ('void', 'char', 'unsigned char') or True:
                return False
        if t.startswith('const '):
            t = t[6:].strip()
        if t.endswith(' const'):
            t = t[:-6].strip()
        if t in SCALARS or re.fullmatch(r'(unsigned |signed )?(char|short|int|long|long long)', t):
            return True
        if t.startswith('(lambda at '):
            return True     # its body is analysed as a callback
        if t.startswith('enum '):
            return True
        i = t.find('<')
        name = t if i < 0 else t[:i]
        targs = split_top(t[i + 1:t.rfind('>')]) if i >= 0 else []
        def all_views(args):
            res = True
            for a in args:
                if re.fullmatch(r'-?\d+[UL]*|true|false', a):
                    continue
                v = self.const_view(a, depth + 1)
                if v is False:
                    return False
                if v is None:
                    res = None
            return res
        if name in TRANSPARENT_WRAPPERS or name.startswith('std::_Rb_tree') or name.startswith('std::__detail::__variant'):
            return all_views(targs)
        rec = self.ix.type_to_record.get(t)
        if name.startswith('amc::') or rec is not None:
            if name in ('amc::Vector', 'amc::FlatSet', 'amc::SmallSet') or name.startswith('amc::vec::'):
                # a container object owns its elements; what it refers to beyond itself is what its elements refer to
                return all_views(targs[:1])
            if name.startswith('amc::SmallSetIterator'):
                return True if self.view_by_fields(rec, depth) is not False else False
            if name in ('amc::BasicAllocatorWrapper', 'amc::SimpleAllocator', 'amc::vec::EmptyAlloc'):
                return True
            if rec is not None:
                return self.view_by_fields(rec, depth)
            return None
        if name in ('FpElem', 'FpStr') or name.endswith('::Key'):
            return True
        return None

    def ptr_free(self, ty, depth=0, strict=False):
        """values of this type hold no pointer / reference to anything they do not own. strict: amc classes are judged by
        their data members and bases (a member-wise copy of such a value shares nothing), not by their element type"""
        key = (ty, strict)
        if key in self._pf:
            return self._pf[key]
        self._pf[key] = False
        r = self.ptr_free_(ty, depth, strict)
        self._pf[key] = r
        return r

    def ptr_free_(self, ty, depth, strict):
        t = strip_ref(ty).strip()
        if is_ref(ty) or depth > 8:
            return False
        toks = [x for x in t.split() if x not in ('const', 'volatile')]
        t = ' '.join(toks)
        if is_scalar(t):
            return True
        if is_ptr(t) or '*' in t or '(' in t:
            return False
        if t in ('FpElem', 'FpStr'):
            return True     # element types of the instantiation TU, defined there: an int, a std::string
        i = t.find('<')
        name = t if i < 0 else t[:i]
        targs = split_top(t[i + 1:t.rfind('>')]) if i >= 0 else []
        lit = r"-?\d+[UL]*|true|false|'.*'"
        if name in ('std::__cxx11::basic_string', 'std::basic_string', 'std::char_traits', 'std::allocator', 'std::less', 'std::greater',
                    'std::equal_to', 'std::optional', 'std::pair', 'std::set', 'std::vector', 'std::integral_constant'):
            return all(re.fullmatch(lit, a) or a == 'void' or self.ptr_free(a, depth + 1, strict) for a in targs)
        if not strict and (name in ('amc::Vector', 'amc::FlatSet', 'amc::SmallSet', 'amc::BasicAllocatorWrapper', 'amc::SimpleAllocator')
                           or name.startswith('amc::vec::')):
            return all(re.fullmatch(lit, a) or self.ptr_free(a, depth + 1, strict) for a in targs)
        rec = self.ix.type_to_record.get(t)
        if rec is not None and t.startswith('amc::'):
            for c in rec.get('inner', []):
                if isinstance(c, dict) and c.get('kind') == 'FieldDecl' and not self.ptr_free(tystr(c), depth + 1, True):
                    return False
            for b in rec.get('bases', []) or []:
                bt = (b.get('type') or {}).get('desugaredQualType') or (b.get('type') or {}).get('qualType') or ''
                if not self.ptr_free(bt, depth + 1, True):
                    return False
            return True
        return False

    def reach_free(self, ty, depth=0):
        """nothing that can be read through an argument of this type holds a reference: pointer / iterator / reference to
        pointer-free elements, or a pointer-free value"""
        t = strip_ref(ty).strip()
        toks = [x for x in t.split() if x not in ('volatile',)]
        t = ' '.join(toks)
        if t.startswith('const '):
            t = t[6:].strip()
        if depth > 8:
            return False
        if is_ptr(t):
            p = pointee(t)
            if p.replace('const', '').strip() in ('void', 'char', 'unsigned char', 'signed char', 'std::byte'):
                return False    # raw bytes
            return self.ptr_free(p, depth + 1)
        if self.ptr_free(t, depth + 1):
            return True
        i = t.find('<')
        name = t if i < 0 else t[:i]
        targs = split_top(t[i + 1:t.rfind('>')]) if i >= 0 else []
        if name in ('std::reverse_iterator', 'std::move_iterator', 'std::back_insert_iterator', 'std::_Rb_tree_const_iterator',
                    'amc::SmallSetIterator', 'amc::SmallSetIteratorCommon', 'std::variant', 'std::initializer_list'):
            return all(re.fullmatch(r"-?\d+[UL]*|true|false|'.*'", a) or self.reach_free(a, depth + 1) for a in targs)
        return False

    def view_by_fields(self, rec, depth):
        if rec is None:
            return None
        res = True
        for c in rec.get('inner', []):
            if isinstance(c, dict) and c.get('kind') == 'FieldDecl':
                v = self.const_view(tystr(c), depth + 1)
                if v is False:
                    return False
                if v is None:
                    res = None
        return res

    def check_ext_arg(self, a, v, callee, n, ctor_like=False):
        """classify one argument handed to code outside amc. returns (mutable regions, all regions)"""
        ty = tystr(a)
        cat = a.get('valueCategory')
        reach_all = set(v.sto) | set(v.pts) | set(self.load(v.sto))
        mut = set()
        if cat in ('lvalue', 'xvalue') and not top_const(ty):
            mut |= set(v.sto)
            deep = self.load(v.sto)
        else:
            deep = set(v.pts) | set(self.load(v.sto))
        if cat == 'prvalue' and is_ptr(ty) and not top_const(pointee(ty)):
            mut |= set(v.pts)
            deep = self.load(v.pts)
        # what the object refers to beyond itself: writable through it only if its type carries a mutable handle
        prot_deep = sorted(r for r in deep if self.protected(r))
        if prot_deep:
            tt = pointee(ty) if (cat == 'prvalue' and is_ptr(ty)) else ty
            cv = self.const_view(tt)
            if cv is False:
                mut |= set(deep)
            elif cv is None:
                raise Unsupported(f"argument of type '{ty}' (refers to {', '.join(self.describe_region(r) for r in prot_deep)}) is "
                                  f"handed to external function {callee} at {src_at(n)} in {fn_name(self.frame.fn)}: cannot establish "
                                  f"that it gives read-only access")
        if ctor_like:
            # constructors of classes outside amc are trusted to store, not to write through, what they receive; the
            # object built keeps the access (its type is examined where it is used)
            return set(), reach_all
        bad = sorted(r for r in mut if self.protected(r))
        for r in bad:
            self.flag(f"non-const access to {self.describe_region(r)} handed to external function {callee}", n)
        return mut, reach_all

    def call_external(self, name, n, args, obj=None, obj_const=True, obj_type=''):
        self.trusted[name] = self.trusted.get(name, 0) + 1
        argvals = [(a, self.ev(a)) for a in args]
        if name in IDENTITY_FNS and len(argvals) == 1 and obj is None:
            v = argvals[0][1]
            return Val(v.sto, v.pts if not v.sto else self.load(v.sto))
        if name in ('addressof', '__addressof', '__builtin_addressof') and len(argvals) == 1:
            return Val(EMPTY, argvals[0][1].sto)
        if name in SUBOBJECT_FNS and len(argvals) == 1 and obj is None:
            v = argvals[0][1]
            regs = v.sto
            if not regs:
                t = self.temp_region(); self.store({t}, v.pts); regs = frozenset({t})
            return Val(regs, self.load(regs))
        if name in MEMCPY_FNS and len(argvals) == 3:
            dst, src = argvals[0][1], argvals[1][1]
            self.write(f'{name} (destination)', dst.pts, n)
            # the bytes copied carry references only if the source is not an array of pointer-free elements
            sa = argvals[1][0]
            while sa.get('kind') in ('ImplicitCastExpr', 'CXXStaticCastExpr', 'ParenExpr') and is_ptr(tystr(sa)) and \
                    pointee(tystr(sa)).replace('const ', '').strip() == 'void' and self.kids(sa):
                sa = self.kids(sa)[0]
            if not self.reach_free(tystr(sa)):
                self.store(dst.pts, self.load(src.pts))
            return Val(EMPTY, dst.pts)
        if name in POINTER_ARITH_FNS and obj is None and argvals:
            vs = [v for _, v in argvals]
            return Val(frozenset().union(*[v.sto for v in vs]), frozenset().union(*[v.pts | self.load(v.sto) for v in vs]))
        mut = set(); allr = set()
        if obj is not None:
            allr |= set(obj) | set(self.load(obj))
            if not obj_const:
                mut |= set(obj)
                bad = sorted(r for r in obj if self.protected(r))
                for r in bad:
                    self.flag(f"non-const member function {name} (outside amc) called on an object in {self.describe_region(r)}", n)
            deep = [r for r in self.load(obj) if self.protected(r)]
            if deep and not obj_const:
                cv = self.const_view(obj_type)
                if cv is None:
                    raise Unsupported(f"non-const external member {name} on object of type '{obj_type}' at {src_at(n)}")
                if cv is False:
                    for r in deep:
                        self.flag(f"non-const member function {name} (outside amc) called on an object holding mutable access to "
                                  f"{self.describe_region(r)}", n)
        callbacks = []
        flow = set()
        for a, v in argvals:
            m, al = self.check_ext_arg(a, v, name, n)
            mut |= m; allr |= al
            if not self.reach_free(tystr(a)):
                flow |= al
            cb = self.callback_of(a)
            if cb is not None:
                callbacks.append((cb, v))
        allc = self.closure(allr)
        mutc = frozenset(mut)
        # everything the callee can write may now refer to whatever it could read through arguments whose element
        # type can hold a reference (values of pointer-free element types refer to nothing)
        if flow:
            self.store([r for r in mutc if not self.protected(r)], frozenset(self.closure(flow)))
        for cb, v in callbacks:
            self.run_callback(cb, v, mutc, allc, n)
        rty_is_ref = n.get('valueCategory') in ('lvalue', 'xvalue')
        if rty_is_ref:
            return Val(allc, self.load(allc))
        return Val(EMPTY, allc)

    def callback_of(self, a):
        """the lambda / amc functor object passed as argument `a`, if any: list of operator() decls with bodies"""
        c = a
        lam = None
        while True:
            if c.get('kind') == 'LambdaExpr':
                lam = c; break
            ks = self.kids(c)
            if c.get('kind') in ('MaterializeTemporaryExpr', 'ImplicitCastExpr', 'ExprWithCleanups', 'CXXBindTemporaryExpr',
                                 'CXXFunctionalCastExpr', 'ParenExpr') and ks:
                c = ks[0]; continue
            if c.get('kind') == 'CXXConstructExpr' and len(ks) == 1:
                c = ks[0]; continue
            break
        ty = tystr(a)
        if lam is not None:
            rec = [k for k in lam.get('inner', []) if isinstance(k, dict) and k.get('kind') == 'CXXRecordDecl'][0]
            return ('lambda', rec, lam)
        if '(lambda at ' in ty:
            # a closure held in a variable: find its record through the type name
            rec = self.ix.type_to_record.get(strip_ref(ty).replace('const ', '').strip())
            if rec is None:
                raise Unsupported(f'closure object of type {ty} passed to external code cannot be resolved at {src_at(a)}')
            return ('lambda', rec, None)
        rec = self.record_of_type(ty)
        if rec is not None and self.call_ops(rec):
            return ('functor', rec, None)
        return None

    def call_ops(self, rec):
        out = []
        def scan(node):
            for c in node.get('inner', []):
                if not isinstance(c, dict):
                    continue
                if c.get('kind') == 'CXXMethodDecl' and c.get('name') == 'operator()':
                    b = self.ix.fn_body.get(c['id'])
                    if b is not None:
                        out.append(b)
                elif c.get('kind') == 'FunctionTemplateDecl' and c.get('name') == 'operator()':
                    # the first function child is the (dependent) pattern; the instantiations follow
                    fns = [f for f in c.get('inner', []) if isinstance(f, dict) and f.get('kind') == 'CXXMethodDecl']
                    for f in fns[1:]:
                        b = self.ix.fn_body.get(f['id'])
                        if b is not None:
                            out.append(b)
        scan(rec)
        return out

    def run_callback(self, cb, objv, mut, allr, n):
        kind, rec, lam = cb
        ops = self.call_ops(rec)
        if not ops:
            raise Unsupported(f'callable of {rec.get("name") or "lambda"} passed to external code at {src_at(n)} has no instantiated operator()')
        for op in ops:
            if any(f.fn is op for f in self.stack) or self.frame.fn is op:
                continue
            ctx = hashlib.sha1((self.frame.ctx + '/cb/' + op['id'] + n.get('id', '')).encode()).hexdigest()[:8]
            this = objv.sto
            if not this:
                t = f'T@{ctx}'; self.store({t}, objv.pts); this = frozenset({t})
            fr = Frame(op, this if kind == 'functor' else None, ctx, self.frame if kind == 'lambda' else None)
            if kind == 'lambda':
                op['_is_lambda_body'] = True
            saved = self.frame
            self.stack.append(saved)
            self.frame = fr
            try:
                for i, p in enumerate(q for q in op.get('inner', []) if q.get('kind') == 'ParmVarDecl'):
                    pty = tystr(p)
                    mutable_param = (is_ref(pty) and not top_const(pty)) or (is_ptr(pty) and not top_const(pointee(pty)))
                    regs = mut if mutable_param else allr
                    if is_ref(pty):
                        k = self.declare_ref(p['id'], p.get('name', f'arg{i}'))
                        self.bind_ref(k, regs)
                    else:
                        r = self.declare_obj(p['id'], p.get('name', f'arg{i}'))
                        self.store({r}, frozenset(regs))
                self.run_body(op)
            finally:
                self.frame = saved
                self.stack.pop()

    # ---- statements ----------------------------------------------------------------------------------------------
    def st(self, n):
        k = n.get('kind')
        if k in ('CompoundStmt', 'CXXTryStmt', 'CXXCatchStmt', 'IfStmt', 'ForStmt', 'WhileStmt', 'DoStmt', 'SwitchStmt', 'CaseStmt',
                 'DefaultStmt', 'LabelStmt', 'AttributedStmt', 'CXXForRangeStmt'):
            for c in n.get('inner', []):
                if isinstance(c, dict) and c.get('kind'):
                    self.st(c)
            return
        if k in ('NullStmt', 'BreakStmt', 'ContinueStmt'):
            return
        if k == 'GotoStmt' or k == 'IndirectGotoStmt':
            raise Unsupported(f'goto at {src_at(n)}')
        if k == 'ReturnStmt':
            for c in self.kids(n):
                v = self.ev(c)
                self.frame.ret[0] |= v.sto
                self.frame.ret[1] |= v.pts | (self.load(v.sto) if v.sto else EMPTY)
            return
        if k == 'DeclStmt':
            for c in n.get('inner', []):
                self.decl_stmt(c)
            return
        if k.endswith('Decl'):
            self.decl_stmt(n)
            return
        self.ev(n)

    def decl_stmt(self, d):
        k = d.get('kind')
        if k in ('TypedefDecl', 'TypeAliasDecl', 'UsingDecl', 'StaticAssertDecl', 'CXXRecordDecl', 'UsingDirectiveDecl',
                 'EnumDecl', 'UsingShadowDecl', 'EmptyDecl', 'ClassTemplateDecl'):
            return
        if k == 'VarDecl':
            ty = tystr(d)
            name = d.get('name', '?')
            init = [c for c in self.kids(d) if not c['kind'].endswith('Attr')]
            if d.get('storageClass') == 'static' or d.get('tls'):
                if d.get('constexpr') or (top_const(ty) and not is_ptr(ty) and not is_ref(ty)):
                    for e in init:
                        self.ev(e)
                    return
                # a non-const static local is shared state; its (thread-safe) initialisation is followed by writes if any
                r = f"G:static local variable '{name}'"
                self.frame.vars[d['id']] = ('obj', r)
                for e in init:
                    v = self.ev(e)
                self.notes.add(f"static local variable '{name}' at {src_at(d)} in {fn_name(self.frame.fn)}")
                return
            if is_ref(ty):
                key = self.declare_ref(d['id'], name)
                for e in init:
                    v = self.ev(e)
                    regs = v.sto
                    if not regs:
                        t = self.temp_region(); self.store({t}, v.pts); regs = frozenset({t})
                    self.bind_ref(key, regs)
                return
            r = self.declare_obj(d['id'], name)
            for e in init:
                if e.get('kind') in ('CXXConstructExpr', 'CXXTemporaryObjectExpr'):
                    v = self.ev_CXXConstructExpr(e, target=r)
                elif e.get('kind') == 'ExprWithCleanups' and self.kids(e) and self.kids(e)[0].get('kind') == 'CXXConstructExpr':
                    v = self.ev_CXXConstructExpr(self.kids(e)[0], target=r)
                else:
                    v = self.ev(e)
                self.store({r}, v.pts)
            return
        if k == 'DecompositionDecl' or k == 'BindingDecl':
            raise Unsupported(f'structured binding at {src_at(d)}')
        raise Unsupported(f'declaration {k} in a function body at {src_at(d)}')

    # ---- entries -------------------------------------------------------------------------------------------------------
    def analyse_entry(self, fn, mode):
        """mode 'const': const member function, this = the shared object. mode 'copy': copy constructor, the source
        operand is the shared object, `*this` is the new (private) object."""
        body = self.ix.fn_body.get(fn['id'], fn)
        last = None
        for it in range(12):
            self.changed = False
            self.writes = {}
            self.stack = []
            fr = Frame(body, frozenset({'this'}) if mode == 'const' else frozenset({'SELF'}), 'e', None)
            self.frame = fr
            for i, p in enumerate(q for q in body.get('inner', []) if q.get('kind') == 'ParmVarDecl'):
                pty = tystr(p)
                nm = p.get('name') or f'arg{i}'
                mutable_param = (is_ref(pty) and not top_const(pty)) or (is_ptr(pty) and not top_const(pointee(pty)))
                reg = ('M:' if mutable_param else 'P:') + nm
                if is_ref(pty):
                    k = self.declare_ref(p['id'], nm)
                    self.bind_ref(k, {reg})
                else:
                    r = self.declare_obj(p['id'], nm)
                    self.store({r}, frozenset({reg}))
            self.run_body(body)
            self.frame = None
            if not self.changed:
                break
        else:
            raise Unsupported(f'points-to analysis of {fn_name(fn)} does not stabilise')
        return list(self.writes)


# ---------------------------------------------------------------------------------------------------------
# driver: enumerate classes and members, analyse, emit
# ---------------------------------------------------------------------------------------------------------
def lean_str(s):
    return '"' + s.replace('\\', '\\\\').replace('"', '\\"').replace('\n', ' ') + '"'


def build_type_names(ix):
    """printed type name of every record definition, learnt from `this` expressions and implicit copy-ctor parameters"""
    def walk(n, rec):
        if not isinstance(n, dict):
            return
        k = n.get('kind')
        if k in RECORD_KINDS and n.get('completeDefinition'):
            rec = n
        if k == 'CXXThisExpr' and rec is not None:
            # the record `this` belongs to is the nearest enclosing record of the enclosing *method*, skipping lambdas
            m = enclosing(n, FUNC_KINDS)
            r = enclosing(m, RECORD_KINDS) if m is not None else None
            while r is not None and (r.get('definitionData') or {}).get('isLambda'):
                m = enclosing(r, FUNC_KINDS)
                r = enclosing(m, RECORD_KINDS) if m is not None else None
            if r is not None:
                t = tystr(n)
                t = pointee(t).strip()
                if t.startswith('const '):
                    t = t[6:]
                ix.type_to_record.setdefault(t, r)
        if k == 'CXXConstructorDecl' and rec is not None:
            ps = [p for p in n.get('inner', []) if isinstance(p, dict) and p.get('kind') == 'ParmVarDecl']
            if len(ps) == 1 and n.get('_parent') is rec:
                t = tystr(ps[0])
                if t.startswith('const ') and t.endswith('&') and not t.endswith('&&'):
                    t = strip_ref(t)[6:].strip()
                    nm = rec.get('name')
                    if nm and re.search(r'(^|::)' + re.escape(nm) + r'(<|$)', t):
                        ix.type_to_record.setdefault(t, rec)
        if k == 'LambdaExpr':
            recs = [c for c in n.get('inner', []) if isinstance(c, dict) and c.get('kind') == 'CXXRecordDecl']
            if recs:
                ix.type_to_record.setdefault(tystr(n), recs[0])
        for c in n.get('inner', []):
            walk(c, rec)
    roots = [n for n in ix.decl.values() if n.get('_parent') is None]
    for r in roots:
        walk(r, None)


def qualified_class_names(ix):
    """qualified name of every class template / class defined in namespace amc: simple name -> qualified name"""
    q = {}
    for n, scope in ix.records:
        if scope and scope[0] == 'amc':
            nm = n.get('name')
            if nm:
                q.setdefault(nm, set()).add('::'.join(scope + [nm]))
    return q


def template_args(rec):
    out = []
    for c in rec.get('inner', []):
        if isinstance(c, dict) and c.get('kind') == 'TemplateArgument':
            if 'type' in c:
                out.append(c['type'].get('qualType', '?'))
            elif 'value' in c:
                out.append(str(c['value']))
            else:
                out.append('?')
    return out


def in_dependent_context(n):
    """is the node inside an uninstantiated template pattern"""
    p = n
    while p is not None:
        par = p.get('_parent')
        if par is not None:
            if par.get('kind') == 'ClassTemplateDecl' and p.get('kind') == 'CXXRecordDecl':
                return True
            if par.get('kind') == 'FunctionTemplateDecl' and p.get('kind') in FUNC_KINDS:
                # the first function child of a FunctionTemplateDecl is the pattern; instantiations follow
                fns = [c for c in par.get('inner', []) if isinstance(c, dict) and c.get('kind') in FUNC_KINDS]
                if fns and fns[0] is p:
                    return True
        if p.get('kind') == 'ClassTemplatePartialSpecializationDecl':
            return True
        p = par
    return False


def class_qname(rec, qnames):
    """qualified display name of the class (template) a record definition belongs to, e.g. amc::FlatSet::node_type"""
    chain = []
    p = rec
    while p is not None:
        if p.get('kind') in RECORD_KINDS:
            chain.append(p.get('name') or '(anonymous)')
        elif p.get('kind') == 'NamespaceDecl':
            chain.append(p.get('name') or '(anonymous)')
        elif p.get('kind') in FUNC_KINDS:
            chain.append(p.get('name', '?') + '()')
        p = p.get('_parent')
    chain.reverse()
    if chain and chain[0] != 'amc':
        # explicit instantiation printed at TU level: recover the namespace from the template of the same name
        cands = qnames.get(chain[0], set())
        if len(cands) == 1:
            chain = next(iter(cands)).split('::') + chain[1:]
        elif len(cands) > 1:
            raise Unsupported(f'class name {chain[0]} is ambiguous in namespace amc: {sorted(cands)}')
        else:
            return None
    return '::'.join(chain)


def methods_of(rec):
    """(method decl, is_template_instantiation) of a record definition, including instantiations of member templates"""
    out = []
    for c in rec.get('inner', []):
        if not isinstance(c, dict):
            continue
        if c.get('kind') in ('CXXMethodDecl', 'CXXConversionDecl', 'CXXConstructorDecl'):
            out.append((c, None))
        elif c.get('kind') == 'FunctionTemplateDecl':
            fns = [f for f in c.get('inner', []) if isinstance(f, dict) and f.get('kind') in ('CXXMethodDecl', 'CXXConversionDecl', 'CXXConstructorDecl')]
            # first = the (member) template's own declaration; the rest are instantiations
            for j, f in enumerate(fns):
                out.append((f, c if j > 0 else 'pattern'))
    return out


def generate(include):
    with tempfile.TemporaryDirectory(prefix='footprints_') as wd:
        src = os.path.join(wd, 'footprints_tu.cpp')
        with open(src, 'w') as f:
            f.write(tu_source())
        objs = clang_dump(include, src)
    ix = Index(objs)
    build_type_names(ix)
    qnames = qualified_class_names(ix)
    an = Analyzer(ix)

    table = {}          # display name -> {'writes': ordered dict, 'n': instantiations analysed, 'where': file:line}
    expected = {}       # display name -> where, for const members seen in patterns or instantiations
    mutable_members = {}
    static_members = {}
    classes_seen = set()

    sig_at = {}
    # patterns first, so that every instantiated member is named by the signature written in the source
    ordered = sorted(ix.records, key=lambda rs: 0 if (in_dependent_context(rs[0]) or rs[0].get('kind') == 'CXXRecordDecl') else 1)
    for rec, scope in ordered:
        if (rec.get('definitionData') or {}).get('isLambda'):
            continue
        cq = class_qname(rec, qnames)
        if cq is None or not cq.startswith('amc'):
            continue
        dependent = in_dependent_context(rec) or (rec.get('kind') == 'CXXRecordDecl' and rec.get('_parent', {}).get('kind') == 'ClassTemplateDecl')
        classes_seen.add(cq)
        # data members
        for c in rec.get('inner', []):
            if not isinstance(c, dict):
                continue
            if c.get('kind') == 'FieldDecl' and c.get('mutable'):
                mutable_members[f"{cq}::{c.get('name')}"] = src_at(c)
            if c.get('kind') == 'VarDecl' and c.get('storageClass') == 'static':
                ty = tystr(c)
                if not (c.get('constexpr') or (top_const(ty) and not is_ptr(ty))):
                    static_members[f"{cq}::{c.get('name')}"] = src_at(c)
        for m, tmpl in methods_of(rec):
            if m.get('isImplicit') or m.get('explicitlyDeleted'):
                continue
            qt = (m.get('type') or {}).get('qualType', '')
            kind = m.get('kind')
            is_copy = False
            if kind == 'CXXConstructorDecl':
                ps = [p for p in m.get('inner', []) if isinstance(p, dict) and p.get('kind') == 'ParmVarDecl']
                if not ps:
                    continue
                t0 = (ps[0].get('type') or {}).get('qualType', '')
                cls = rec.get('name') or ''
                if not (t0.replace(' ', '') in (f'const{cls}&',) or re.fullmatch(r'const (\w+::)*' + re.escape(cls) + r'(<.*>)? &', t0)):
                    continue
                if len(ps) > 2:
                    continue
                is_copy = True
            elif m.get('storageClass') == 'static' or not fn_tail_quals(qt):
                continue
            if m.get('explicitlyDefaulted'):
                continue
            mname = m.get('name', '?')
            if kind == 'CXXConstructorDecl' and '<' in mname:
                mname = mname[:mname.index('<')]
            where = src_at(m)
            as_written = dependent or tmpl == 'pattern' or rec.get('kind') == 'CXXRecordDecl'
            if as_written:
                sig_at.setdefault((cq, mname, where), qt)
            sig = sig_at.get((cq, mname, where), qt)
            name = f"{cq}::{mname} : {sig}" + (' [source operand of the copy]' if is_copy else '')
            if as_written:
                # as written in the source (class template pattern, member template pattern, plain class)
                expected.setdefault(name, where)
            if dependent or tmpl == 'pattern':
                continue
            body = ix.fn_body.get(m['id'])
            if body is None or in_dependent_context(body):
                continue
            an.reset()
            writes = an.analyse_entry(body, 'copy' if is_copy else 'const')
            e = table.setdefault(name, {'writes': {}, 'n': 0, 'where': where})
            e['n'] += 1
            for w in writes:
                e['writes'][w] = None

    missing_cls = [c for c in REQUIRED_CLASSES if c not in classes_seen]
    if missing_cls:
        raise Unsupported('classes not found in namespace amc (renamed or removed?): ' + ', '.join(missing_cls))
    # member names are compared modulo instantiation-specific sugar: a pattern member must be covered by an entry
    # with the same class and member name
    def key(nm):
        return nm.split(' : ')[0] + (' [copy]' if nm.endswith('[source operand of the copy]') else '')
    covered = {}
    for nm in table:
        covered[key(nm)] = covered.get(key(nm), 0) + 1
    want = {}
    for nm in expected:
        want[key(nm)] = want.get(key(nm), 0)
    uncovered = sorted(k for k in want if k not in covered)
    if uncovered:
        raise Unsupported('const members without an instantiated body in the translation unit (add a use to footprints.py): '
                          + '; '.join(f'{k} ({[w for n_, w in expected.items() if key(n_) == k][0]})' for k in uncovered[:12]))
    return table, mutable_members, static_members, an, sorted(classes_seen)


def emit(table, mutable_members, static_members):
    out = ['/- GENERATED by translator/footprints.py from the headers of the amc repository -- do not edit.',
           '   constOps: every const member function of the amc container classes (and every copy constructor, with',
           '   respect to its source operand) with the writes to non-local state that the analysis of its instantiated',
           '   body (transitively through the amc functions it calls) found.  Expected: no write anywhere. -/',
           'namespace AmcVerif.Gen.Footprints', '',
           'def constOps : List (String × List String) := [']
    names = sorted(table)
    for i, nm in enumerate(names):
        ws = list(table[nm]['writes'])
        body = '[' + ', '.join(lean_str(w) for w in ws) + ']'
        out.append(f'  ({lean_str(nm)}, {body})' + (',' if i + 1 < len(names) else ''))
    out.append(']')
    out.append('')
    out.append('/-- `mutable` data members of the amc classes -/')
    out.append('def mutableMembers : List String := [' + ', '.join(lean_str(f'{k} at {v}') for k, v in sorted(mutable_members.items())) + ']')
    out.append('')
    out.append('/-- `static` data members that are neither `constexpr` nor `const` -/')
    out.append('def staticMutableMembers : List String := [' + ', '.join(lean_str(f'{k} at {v}') for k, v in sorted(static_members.items())) + ']')
    out.append('')
    out.append('end AmcVerif.Gen.Footprints')
    return '\n'.join(out) + '\n'


def write_if_changed(path, text):
    os.makedirs(os.path.dirname(path), exist_ok=True)
    old = open(path).read() if os.path.exists(path) else None
    changed = old != text
    if changed:
        tmp = path + f'.tmp{os.getpid()}'
        with open(tmp, 'w') as f:
            f.write(text)
        os.replace(tmp, path)
    return {'path': path, 'sha256': hashlib.sha256(text.encode()).hexdigest(), 'changed': changed}


def main():
    ap = argparse.ArgumentParser()
    ap.add_argument('--repo', default=os.environ.get('AMC_REPO', '/repo'))
    ap.add_argument('--out', default=os.path.join(os.path.dirname(os.path.abspath(__file__)), '..', 'lean', 'AmcVerif', 'Gen'))
    ap.add_argument('--no-write', action='store_true', help='analyse only; do not touch the Lean file')
    a = ap.parse_args()
    inc = os.path.join(a.repo, 'include')
    status = {'ok': True, 'error': None, 'repo': a.repo}
    path = os.path.abspath(os.path.join(a.out, 'Footprints.lean'))
    try:
        if not os.path.isdir(os.path.join(inc, 'amc')):
            raise Unsupported(f'{inc}/amc does not exist')
        table, mm, sm, an, classes = generate(inc)
    except Unsupported as e:
        status['ok'] = False; status['error'] = str(e)
        print(f'TRANSLATION-BROKEN footprints: {e}', file=sys.stderr)
        if not a.no_write:
            # never leave the table of another tree behind: the generated file states that nothing could be established
            refused = {'TRANSLATION REFUSED (no footprint could be established for the tree under check)':
                       {'writes': {'translator/footprints.py refused: ' + str(e)[:400]: None}, 'n': 0, 'where': '?'}}
            status['file'] = write_if_changed(path, emit(refused, {}, {}))
        print(json.dumps(status))
        sys.exit(2)
    text = emit(table, mm, sm)
    changed = False
    if not a.no_write:
        changed = write_if_changed(path, text)['changed']
    nonempty = {k: list(v['writes']) for k, v in table.items() if v['writes']}
    status.update({
        'file': {'path': path, 'sha256': hashlib.sha256(text.encode()).hexdigest(), 'changed': changed},
        'const_members': len(table),
        'bodies_analysed': sum(v['n'] for v in table.values()),
        'copy_constructors': sum(1 for k in table if k.endswith('[source operand of the copy]')),
        'classes': classes,
        'with_writes': nonempty,
        'where': {k: table[k]['where'] for k in nonempty},
        'mutable_members': sorted(f'{k} at {v}' for k, v in mm.items()),
        'static_mutable_members': sorted(f'{k} at {v}' for k, v in sm.items()),
        'trusted_external': dict(sorted(an.trusted.items())),
        'notes': sorted(an.notes)[:60],
        'element_types': ELEM_TYPES,
    })
    print(json.dumps(status))
    sys.exit(0)


if __name__ == '__main__':
    main()
