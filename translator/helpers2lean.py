#!/usr/bin/env python3
"""helpers2lean -- generate the Lean model of the element helpers of amc (free functions of namespace `amc::vec`,
include/amc/vectorcommon.hpp:36-346) from the C++ source.

usage: helpers2lean.py --include <include dir> --out <VecHelpers.lean>

Method (same genre as glue2lean.py, from which the clang driving / AST loading code is taken): clang++-14 dumps the typed
JSON AST of a translation unit that calls every helper for three element types

    TC  = int                                                   (trivially copyable, hence trivially relocatable)
    TR  = struct with `using trivially_relocatable = std::true_type` and user-provided copy/move/destructor
    NTR = struct with user-provided copy/move/destructor        (neither)

(and, for the helpers templated on a forwarding reference `V&&` / `Args&&...`, for a `const T&` and a `T&&` argument).
Each helper is an overload set of function templates.  For every overload the bodies of all its instantiations are
translated statement by statement into monadic Lean over the vocabulary of Prim/Slot.lean and Prim/Helpers.lean, and
the texts obtained from the different element types must coincide.  Then

  * one overload, selected by all three element types      ->  def h ... := do <body>
  * two overloads, selected by {TC,TR} / {NTR}              ->  def h ... := do if <- isTR then <body1> else <body2>
  * two overloads, selected by {TC} / {TR,NTR}              ->  def h ... := do if <- isTC then <body1> else <body2>

and the `enable_if` condition written in the source must be `amc::is_trivially_relocatable<T>` resp.
`std::is_trivially_copyable<T>` (negated on the second overload).  Anything else stops the translator.

Conventions (the calling convention of the hand-written model):
  * a `T*` is an `Addr`; `p + k` = `p.add k`; `p - k` = `subA p k` = <p.r, p.i - k>; `l - f` = `ptrDiff l f` = l.i - f.i
  * an integer is a `Nat` (casts between integer types are dropped when value preserving, else the translator stops)
  * `const T& v` is a `Ref a`; a forwarding reference `V&& v` / `Args&&... args` is an `Arg a` (`.copy r` for the
    instantiation with `const T&`, `.move x` for the one with `T&&`)
  * the pair (ForwardIt first, SizeType count) of `assign_n` / `copy_after_shift` is one parameter `vals : List a`,
    `count` = `vals.length`; an iterator is the list of the values still to be read: `copy_n(first, k, d)` =
    `copyN d (first.take k)`, advancing by k = `first.drop k`
  * the hand-rolled copy loop  `*d++ = *first; for (i = 1; i < n; ++i) *d++ = *++first; (void)++first;`  is recognised as
    a whole (exactly this shape) and rendered  `copyN d (first.take (max n 1))`, d := d + max n 1, first advanced by
    max n 1  (the loop copies one element even when n = 0); any other loop stops the translator
  * try { A } catch (...) { H; throw; }   ->   tryCatch A fun s => do match s with | .exc _ => H | .fault _ => pure (); throw s
  * `ElemStorage<T> e; e.ptr()`            ->   `tmpAddr`

The translator knows a closed set of statements, operators and callees; on anything else it exits with status 2 and a
message naming file:line and the construct.  Nothing is skipped or defaulted, except `(void)` casts of call results.
The output only depends on the headers (byte-stable).
"""
import argparse, json, os, re, subprocess, sys, tempfile

CLANG = 'clang++-14'
CLANG_TIMEOUT = 300


class Unsupported(Exception):
    pass


TU = r'''#include <amc/vectorcommon.hpp>
#include <forward_list>
struct NTR { NTR(); NTR(const NTR&); NTR(NTR&&) noexcept; NTR& operator=(const NTR&); NTR& operator=(NTR&&) noexcept; ~NTR(); int v; };
struct TR { using trivially_relocatable = std::true_type;
            TR(); TR(const TR&); TR(TR&&) noexcept; TR& operator=(const TR&); TR& operator=(TR&&) noexcept; ~TR(); int v; };
using TC = int;
using S = uint32_t;
static_assert(std::is_trivially_copyable<TC>::value && amc::is_trivially_relocatable<TC>::value, "TC");
static_assert(!std::is_trivially_copyable<TR>::value && amc::is_trivially_relocatable<TR>::value, "TR");
static_assert(!std::is_trivially_copyable<NTR>::value && !amc::is_trivially_relocatable<NTR>::value, "NTR");
template <class T> void helpers2lean_use(T* p, T* q, S n, S k, const T& cr, T&& rv, typename std::forward_list<T>::const_iterator it) {
  amc::vec::shift_right(p, n);
  amc::vec::shift_right(p, n, k);
  amc::vec::fill_after_shift(p, n, k, cr);
  amc::vec::assign_n(it, n, p, k);
  amc::vec::copy_after_shift(it, n, k, p);
  amc::vec::destroy_after_shift(p);
  amc::vec::shift_left(p, n);
  amc::vec::uninitialized_shift_left(p, n);
  amc::vec::erase_n(p, n, k);
  amc::vec::erase_at(p, n);
  amc::vec::fill(p, n, k, cr);
  amc::vec::swap_deep(p, n, q, k);
  amc::vec::move_n(p, n, q, k);
  amc::vec::assign_after_shift(p, cr);
  amc::vec::assign_after_shift(p, std::move(rv));
  amc::vec::relocate_after_shift(p, q);
  (void)amc::vec::address_after_shift(cr, const_cast<const T*>(p), n, k);
  amc::vec::insert_n(p, n, cr);
  amc::vec::insert_n(p, n, std::move(rv));
  amc::vec::emplace_n(p, n, cr);
  amc::vec::emplace_n(p, n, std::move(rv));
}
template void helpers2lean_use<TC>(TC*, TC*, S, S, const TC&, TC&&, std::forward_list<TC>::const_iterator);
template void helpers2lean_use<TR>(TR*, TR*, S, S, const TR&, TR&&, std::forward_list<TR>::const_iterator);
template void helpers2lean_use<NTR>(NTR*, NTR*, S, S, const NTR&, NTR&&, std::forward_list<NTR>::const_iterator);
'''

ELEMS = ('int', 'TR', 'NTR')          # TC, TR, NTR
SIZE_TY = 'unsigned int'

# (C++ name, number of parameters) -> Lean name
HELPERS = {
    ('shift_right', 2): 'shiftRight1',
    ('shift_right', 3): 'shiftRightN',
    ('fill_after_shift', 4): 'fillAfterShift',
    ('assign_n', 4): 'assignN',
    ('copy_after_shift', 4): 'copyAfterShift',
    ('destroy_after_shift', 1): 'destroyAfterShift',
    ('shift_left', 2): 'shiftLeft',
    ('uninitialized_shift_left', 2): 'uninitShiftLeft',
    ('erase_n', 3): 'eraseN',
    ('erase_at', 2): 'eraseAt',
    ('fill', 4): 'fillHelper',
    ('swap_deep', 4): 'swapDeep',
    ('move_n', 4): 'moveN',
    ('assign_after_shift', 2): 'assignAfterShift',
    ('relocate_after_shift', 2): 'relocateAfterShift',
    ('address_after_shift', 4): 'addressAfterShift',
    ('insert_n', 3): 'insertN',
    ('emplace_n', 3): 'emplaceN',
}
# the (iterator, count) parameter pairs that are one `vals : List a` parameter of the model
RANGE_PARAMS = {'assign_n': ('first', 'count'), 'copy_after_shift': ('first', 'count')}

INT_BITS = {'unsigned char': (8, False), 'unsigned short': (16, False), 'unsigned int': (32, False),
            'unsigned long': (64, False), 'unsigned long long': (64, False), 'signed char': (8, True),
            'short': (16, True), 'int': (32, True), 'long': (64, True), 'long long': (64, True),
            'bool': (1, False), 'char': (8, True)}


# ----------------------------------------------------------------------------------------------------------------------
# clang driving / AST loading (from glue2lean.py)
# ----------------------------------------------------------------------------------------------------------------------

def parse_concat(src):
    dec = json.JSONDecoder(); i = 0; objs = []
    while i < len(src):
        while i < len(src) and src[i].isspace():
            i += 1
        if i >= len(src):
            break
        o, j = dec.raw_decode(src, i); objs.append(o); i = j
    return objs


def clang_dump(include, src_path, flt):
    cmd = ['timeout', str(CLANG_TIMEOUT), CLANG, '-std=gnu++17', '-I', include, '-fsyntax-only', '-Xclang', '-ast-dump=json',
           '-Xclang', f'-ast-dump-filter={flt}', src_path]
    p = subprocess.run(cmd, capture_output=True, text=True)
    if p.returncode != 0:
        raise Unsupported('clang failed on the instantiation TU (filter %s):\n%s' % (flt, p.stderr[-3000:]))
    return parse_concat(p.stdout)


class LocState:
    def __init__(self):
        self.file = None; self.line = None


def annotate(node, st):
    """clang's JSON omits file/line when unchanged since the previously printed location: replay them in print order"""
    def upd(d):
        if not isinstance(d, dict):
            return
        if 'spellingLoc' in d or 'expansionLoc' in d:
            upd(d.get('spellingLoc')); upd(d.get('expansionLoc')); return
        if 'file' in d:
            st.file = d['file']
        if 'line' in d:
            st.line = d['line']
    if not isinstance(node, dict):
        return
    for k, v in list(node.items()):
        if k == 'loc':
            upd(v)
        elif k == 'range':
            upd(v.get('begin')); node['_file'] = st.file; node['_line'] = st.line; upd(v.get('end'))
        elif k == 'inner':
            for c in v:
                annotate(c, st)


INCLUDE_ROOT = None


def where(n):
    f = n.get('_file') or '?'
    if INCLUDE_ROOT and f.startswith(INCLUDE_ROOT.rstrip('/') + '/'):
        f = 'include/' + f[len(INCLUDE_ROOT.rstrip('/')) + 1:]
    return '%s:%s' % (f, n.get('_line', '?'))


def qt(n):
    t = n.get('type', {})
    return t.get('desugaredQualType', t.get('qualType', ''))


def int_info(ty):
    ty = ty.replace('const ', '').replace('volatile ', '').replace(' &&', '').replace(' &', '').strip()
    return INT_BITS.get(ty)


def paren(s):
    s = s.strip()
    if re.fullmatch(r"[A-Za-z_][A-Za-z0-9_.']*|\d+", s):
        return s
    if s.startswith('(') and s.endswith(')'):
        d = 0
        for i, ch in enumerate(s):
            if ch == '(':
                d += 1
            elif ch == ')':
                d -= 1
                if d == 0 and i != len(s) - 1:
                    break
        else:
            return s
    return '(' + s + ')'


def arith(t, op, left):
    """parenthesise an operand of + / - / comparison when needed"""
    t = t.strip()
    if paren(t) == t:
        return t
    if re.fullmatch(r"[A-Za-z_][A-Za-z0-9_.']*", t):
        return t
    if op == '<':
        return t if not re.search(r'[<>≤≥=≠∧∨]', t) and not t.startswith(('min ', 'max ', 'ptrDiff ')) else '(' + t + ')'
    if (op == '+' or (op == '-' and left)) and left and not re.search(r'[<>≤≥=≠∧∨]', t) and not t.startswith(('min ', 'max ', 'ptrDiff ')):
        return t          # a + b + c and a - b - c associate to the left
    return '(' + t + ')'


# ----------------------------------------------------------------------------------------------------------------------
# translation of one instantiated overload
# ----------------------------------------------------------------------------------------------------------------------

class V:
    """a translated C++ value.
       kind 'nat'    : integer                                   term : Nat
            'prop'   : condition                                 term : Prop (decidable)
            'ptr'    : T* / const T*                             term : Addr
            'lval'   : *p, an element                            term : Addr (of the element)
            'xval'   : std::move(*p)                             term : Addr
            'ref'    : const T& parameter                        term : Ref a
            'rval'   : T&& parameter (after std::move / forward) term : a
            'refptr' : const T* designating a `const T&`         term : Ref a
            'it'     : forward iterator                          term : List a (the values still to be read)
            'tmp'    : the ElemStorage<T> local
            'action' : an effectful call (statement)             term : the Lean statement
            'void'   : result of a statement-level construct already emitted
    """
    def __init__(self, kind, term=None):
        self.kind, self.term = kind, term


class Body:
    """the translation of one instantiated overload"""
    def __init__(self, cname, lean_name, decl, targs, known):
        self.cname, self.lean_name, self.m, self.targs, self.known = cname, lean_name, decl, targs, known
        self.elem = targs.get('T')
        if self.elem not in ELEMS:
            raise Unsupported('%s: instantiation of %s for an unexpected element type %s' % (where(decl), cname, self.elem))
        self.it_ty = targs.get('ForwardIt')
        self.env = {}
        self.mut = set()
        self.pre = []
        self.params = []          # (lean name, lean type), in order
        self.argkind = None       # 'copy' | 'move' for the forwarding-reference parameter, if any
        self.argname = None
        self.ret_kind = None
        self.pure = False
        self.lines = []

    def fail(self, n, what):
        raise Unsupported('%s: in amc::vec::%s [T = %s]: %s' % (where(n), self.cname, self.elem, what))

    # ---- types -----------------------------------------------------------------------------------------------
    def is_elem_ptr(self, ty):
        return ty in (self.elem + ' *', 'const ' + self.elem + ' *')

    CAST_KINDS_TRANSPARENT = {None, 'NoOp', 'LValueToRValue', 'FunctionToPointerDecay', 'ConstructorConversion'}
    WRAPPERS = {'ImplicitCastExpr', 'ParenExpr', 'ExprWithCleanups', 'MaterializeTemporaryExpr', 'CXXStaticCastExpr',
                'CXXConstCastExpr', 'CStyleCastExpr', 'CXXFunctionalCastExpr', 'CXXBindTemporaryExpr'}

    def strip(self, n):
        while n.get('kind') in self.WRAPPERS and n.get('castKind') in self.CAST_KINDS_TRANSPARENT:
            n = n['inner'][0]
        return n

    def check_int_cast(self, n, v, from_ty, to_ty):
        fi, ti = int_info(from_ty), int_info(to_ty)
        if fi is None or ti is None or 'bool' in (from_ty.strip(), to_ty.strip()):
            self.fail(n, 'conversion %s -> %s' % (from_ty, to_ty))
        (fb, fs), (tb, ts) = fi, ti
        changing = tb < fb or (fs and not ts) or (not fs and ts and tb <= fb)
        if not changing:
            return
        if re.fullmatch(r'\d+', v.term) and int(v.term) < 2 ** (tb - (1 if ts else 0)):
            return        # a literal that fits
        self.fail(n, "integer conversion %s -> %s of '%s' can change the value" % (from_ty.strip(), to_ty.strip(), v.term))

    # ---- expressions ------------------------------------------------------------------------------------------
    def ex(self, n):
        k = n.get('kind')
        if k in self.WRAPPERS:
            ck = n.get('castKind'); inner = n['inner'][0]
            if ck == 'IntegralCast':
                v = self.ex(inner)
                if v.kind != 'nat':
                    self.fail(n, 'integer cast of a value of kind ' + v.kind)
                self.check_int_cast(n, v, qt(inner), qt(n))
                return v
            if ck in self.CAST_KINDS_TRANSPARENT:
                if k in ('CXXStaticCastExpr', 'CStyleCastExpr', 'CXXFunctionalCastExpr'):
                    # an explicit cast that clang reports as NoOp: same type, or a qualification conversion
                    if qt(n).replace('const ', '').strip() != qt(inner).replace('const ', '').strip():
                        self.fail(n, 'explicit cast %s -> %s' % (qt(inner), qt(n)))
                return self.ex(inner)
            self.fail(n, '%s with cast kind %s' % (k, ck))
        if k == 'IntegerLiteral':
            return V('nat', str(int(n['value'])))
        if k == 'DeclRefExpr':
            rd = n.get('referencedDecl', {})
            if rd.get('kind') not in ('ParmVarDecl', 'VarDecl'):
                self.fail(n, 'reference to a %s (%s)' % (rd.get('kind'), rd.get('name')))
            name = rd.get('name')
            if name not in self.env:
                self.fail(n, "reference to '%s', which is not a parameter or local variable of the helper (static member / global / type trait constant)" % name)
            return self.env[name]
        if k == 'BinaryOperator':
            return self.binop(n)
        if k == 'UnaryOperator':
            return self.unop(n)
        if k == 'ConditionalOperator':
            c, t, f = n['inner']
            cv = self.cond(c); tv = self.ex(t); fv = self.ex(f)
            if tv.kind == fv.kind and tv.kind in ('refptr', 'ptr', 'nat'):
                return V(tv.kind, 'if %s then %s else %s' % (cv, tv.term, fv.term))
            self.fail(n, 'conditional operator on values of kind %s, %s' % (tv.kind, fv.kind))
        if k == 'CallExpr':
            return self.call(n)
        if k == 'CXXMemberCallExpr':
            f = self.strip(n['inner'][0])
            if f.get('kind') == 'MemberExpr' and f.get('name') == 'ptr' and len(n['inner']) == 1:
                b = self.ex(f['inner'][0])
                if b.kind == 'tmp':
                    return V('ptr', 'tmpAddr')
            self.fail(n, 'member call (only ElemStorage<T>::ptr() is known)')
        if k == 'CXXOperatorCallExpr':
            return self.opcall(n)
        if k == 'CXXConstructExpr':
            inner = n.get('inner', [])
            if self.it_ty is not None and qt(n).replace('const ', '') == self.it_ty and len(inner) == 1:
                v = self.ex(inner[0])
                if v.kind == 'it':
                    return v        # copy of an iterator
            self.fail(n, 'construction of ' + qt(n))
        self.fail(n, 'expression of kind ' + str(k))

    def nat(self, n):
        v = self.ex(n)
        if v.kind != 'nat':
            self.fail(n, 'an integer is needed, found a value of kind ' + v.kind)
        return v.term

    def ptr(self, n):
        v = self.ex(n)
        if v.kind != 'ptr':
            self.fail(n, 'a pointer is needed, found a value of kind ' + v.kind)
        return v.term

    def cond(self, n):
        v = self.ex(n)
        if v.kind != 'prop':
            self.fail(n, 'condition of kind ' + v.kind)
        return v.term

    def binop(self, n):
        op = n['opcode']; l, r = n['inner']
        if op in ('&&', '||'):
            a, b = self.ex(l), self.ex(r)
            if a.kind != 'prop' or b.kind != 'prop':
                self.fail(n, 'logical operator on non-conditions')
            return V('prop', '%s %s %s' % (paren(a.term), '∧' if op == '&&' else '∨', paren(b.term)))
        if op == '=':
            return self.assign_elem(n, l, r)
        a, b = self.ex(l), self.ex(r)
        if a.kind == 'refptr' and b.kind == 'ptr':
            fn = {'>=': 'refGe', '>': 'refGt', '<': 'refLt', '<=': 'refLe'}.get(op)
            if fn:
                return V('prop', '%s %s %s = true' % (fn, paren(a.term), paren(b.term)))
            self.fail(n, "operator '%s' between the address of a const T& and a pointer" % op)
        if a.kind == 'refptr' and b.kind == 'nat' and op == '+':
            return V('refptr', 'refAdd %s %s' % (paren(a.term), paren(b.term)))
        if op in ('+', '-'):
            if a.kind == 'nat' and b.kind == 'nat':
                return V('nat', '%s %s %s' % (arith(a.term, op, True), op, arith(b.term, op, False)))
            if a.kind == 'ptr' and b.kind == 'nat':
                if op == '+':
                    return V('ptr', '%s.add %s' % (paren(a.term), paren(b.term)))
                return V('ptr', 'subA %s %s' % (paren(a.term), paren(b.term)))
            if a.kind == 'ptr' and b.kind == 'ptr' and op == '-':
                return V('nat', 'ptrDiff %s %s' % (paren(a.term), paren(b.term)))
            self.fail(n, "operator '%s' on values of kind %s, %s" % (op, a.kind, b.kind))
        if op in ('<', '>', '<=', '>=', '==', '!='):
            if a.kind == 'nat' and b.kind == 'nat':
                lop = {'<': '<', '>': '>', '<=': '≤', '>=': '≥', '==': '=', '!=': '≠'}[op]
                return V('prop', '%s %s %s' % (arith(a.term, '<', True), lop, arith(b.term, '<', False)))
            self.fail(n, "comparison '%s' on values of kind %s, %s" % (op, a.kind, b.kind))
        self.fail(n, "binary operator '%s'" % op)

    def unop(self, n):
        op = n['opcode']; x = n['inner'][0]
        if op == '*':
            v = self.ex(x)
            if v.kind == 'ptr':
                return V('lval', v.term)
            self.fail(n, 'dereference of a value of kind ' + v.kind)
        if op == '!':
            v = self.ex(x)
            if v.kind != 'prop':
                self.fail(n, "'!' on a value of kind " + v.kind)
            return V('prop', '¬ ' + paren(v.term))
        if op in ('++', '--'):
            self.fail(n, "'%s' outside of the known copy loop" % op)
        self.fail(n, "unary operator '%s'" % op)

    # `*p = x` --------------------------------------------------------------------------------------------------
    def assign_elem(self, n, l, r):
        a = self.ex(l)
        if a.kind != 'lval':
            self.fail(n, 'assignment to a value of kind ' + a.kind)
        b = self.ex(r)
        if b.kind == 'xval':
            return V('action', 'assignMove %s %s' % (paren(a.term), paren(b.term)))
        if b.kind == 'ref':
            return V('action', 'assignCopyRef %s %s' % (paren(a.term), paren(b.term)))
        if b.kind == 'rval':
            return V('action', 'assignFromRvalue %s %s' % (paren(a.term), paren(b.term)))
        self.fail(n, 'assignment of a value of kind %s to an element' % b.kind)

    def opcall(self, n):
        f = self.strip(n['inner'][0])
        name = f.get('referencedDecl', {}).get('name')
        args = n['inner'][1:]
        if name == 'operator=' and len(args) == 2 and qt(args[0]).replace('const ', '') == self.elem:
            return self.assign_elem(n, args[0], args[1])
        self.fail(n, "call of overloaded operator '%s' outside of the known copy loop" % name)

    # ---- calls ------------------------------------------------------------------------------------------------
    def call(self, n):
        f = self.strip(n['inner'][0])
        if f.get('kind') != 'DeclRefExpr':
            self.fail(n, 'callee expression of kind ' + str(f.get('kind')))
        name = f.get('referencedDecl', {}).get('name')
        args = n['inner'][1:]
        if any(a.get('kind') == 'CXXDefaultArgExpr' for a in args):
            dn = [a for a in args if a.get('kind') == 'CXXDefaultArgExpr']
            # amc::destroy_at(p, enable_if<...>* = nullptr)
            if not (name == 'destroy_at' and len(dn) == 1 and args[-1] is dn[0]):
                self.fail(n, "call of '%s' with a default argument" % name)
            args = args[:-1]
        h = getattr(self, 'f_%s_%d' % (name, len(args)), None)
        if h is None:
            self.fail(n, "call of unknown function '%s' with %d argument(s)" % (name, len(args)))
        return h(n, args)

    def f_move_1(self, n, args):
        v = self.ex(args[0])
        if v.kind == 'lval':
            return V('xval', v.term)
        if v.kind == 'rval':
            return v
        self.fail(n, 'std::move of a value of kind ' + v.kind)

    def f_forward_1(self, n, args):
        v = self.ex(args[0])
        if v.kind in ('ref', 'rval') and self.argname is not None and v.term == self.argname:
            return v
        self.fail(n, 'std::forward of a value of kind ' + v.kind)

    def f_addressof_1(self, n, args):
        v = self.ex(args[0])
        if v.kind != 'ref':
            self.fail(n, 'std::addressof of a value of kind ' + v.kind)
        return V('refptr', v.term)

    def f_min_2(self, n, args):
        return V('nat', 'min %s %s' % (paren(self.nat(args[0])), paren(self.nat(args[1]))))

    def f_construct_at_2(self, n, args):
        p = paren(self.ptr(args[0])); v = self.ex(args[1])
        if v.kind == 'xval':
            return V('action', 'constructMove %s %s' % (p, paren(v.term)))
        if v.kind == 'ref':
            return V('action', 'constructCopyRef %s %s' % (p, paren(v.term)))
        if v.kind == 'rval':
            return V('action', 'constructFromRvalue %s %s' % (p, paren(v.term)))
        self.fail(n, 'construct_at from a value of kind ' + v.kind)

    def f_destroy_at_1(self, n, args):
        return V('action', 'destroyAt %s' % paren(self.ptr(args[0])))

    def f_destroy_n_2(self, n, args):
        return V('action', 'destroyN %s %s' % (paren(self.ptr(args[0])), paren(self.nat(args[1]))))

    def f_move_backward_3(self, n, args):
        f, l, dl = self.ptr(args[0]), self.ptr(args[1]), self.ptr(args[2])
        cnt = 'ptrDiff %s %s' % (paren(l), paren(f))
        return V('action', 'moveBwd %s (%s) (subA %s (%s))' % (paren(f), cnt, paren(dl), cnt))

    def f_move_3(self, n, args):
        # std::move(first, last, d_first) returns d_first + (last - first)
        f, l, d = self.ptr(args[0]), self.ptr(args[1]), self.ptr(args[2])
        cnt = 'ptrDiff %s %s' % (paren(l), paren(f))
        self.pre.append('moveFwd %s (%s) %s' % (paren(f), cnt, paren(d)))
        return V('ptr', '%s.add (%s)' % (paren(d), cnt))

    def three(self, lean, n, args):
        return V('action', '%s %s %s %s' % (lean, paren(self.ptr(args[0])), paren(self.nat(args[1])), paren(self.ptr(args[2]))))

    def f_uninitialized_move_n_3(self, n, args):
        return self.three('uninitMoveN', n, args)

    def f_uninitialized_relocate_n_3(self, n, args):
        return self.three('uninitRelocN', n, args)

    def f_swap_ranges_3(self, n, args):
        # std::swap_ranges(first1, last1, first2)
        f, l, d = self.ptr(args[0]), self.ptr(args[1]), self.ptr(args[2])
        return V('action', 'swapRanges %s (ptrDiff %s %s) %s' % (paren(f), paren(l), paren(f), paren(d)))

    def f_relocate_at_2(self, n, args):
        return V('action', 'relocateAt %s %s' % (paren(self.ptr(args[0])), paren(self.ptr(args[1]))))

    def ref_of(self, a, n):
        v = self.ex(a)
        if v.kind != 'ref':
            self.fail(n, 'a const T& is needed, found a value of kind ' + v.kind)
        return paren(v.term)

    def f_uninitialized_fill_n_3(self, n, args):
        return V('action', 'uninitFillRef %s %s %s' % (paren(self.ptr(args[0])), paren(self.nat(args[1])), self.ref_of(args[2], n)))

    def f_fill_n_3(self, n, args):
        return V('action', 'fillRef %s %s %s' % (paren(self.ptr(args[0])), paren(self.nat(args[1])), self.ref_of(args[2], n)))

    def it_of(self, a, n):
        v = self.ex(a)
        if v.kind != 'it':
            self.fail(n, 'an iterator of the input range is needed, found a value of kind ' + v.kind)
        return v.term

    def take(self, it, k):
        return '%s.take %s' % (paren(it), paren(k))

    def f_uninitialized_copy_n_3(self, n, args):
        it = self.it_of(args[0], n); k = self.nat(args[1])
        return V('action', 'uninitCopyN %s (%s)' % (paren(self.ptr(args[2])), self.take(it, k)))

    def f_copy_n_3(self, n, args):
        it = self.it_of(args[0], n); k = self.nat(args[1])
        return V('action', 'copyN %s (%s)' % (paren(self.ptr(args[2])), self.take(it, k)))

    # the other helpers (already generated: the callee is the generated definition)
    def helper(self, n, cname, nargs):
        lean = HELPERS[(cname, nargs)]
        if lean not in self.known:
            self.fail(n, "call of the helper '%s' which is not generated (yet)" % cname)
        return lean

    def argterm(self, a, n):
        v = self.ex(a)
        if v.kind == 'ref':
            return '(.copy %s)' % v.term
        if v.kind == 'rval':
            return '(.move %s)' % v.term
        self.fail(n, 'an element argument (const T& / T&&) is needed, found a value of kind ' + v.kind)

    def f_shift_right_2(self, n, args):
        return V('action', '%s %s %s' % (self.helper(n, 'shift_right', 2), paren(self.ptr(args[0])), paren(self.nat(args[1]))))

    def f_shift_left_2(self, n, args):
        return V('action', '%s %s %s' % (self.helper(n, 'shift_left', 2), paren(self.ptr(args[0])), paren(self.nat(args[1]))))

    def f_uninitialized_shift_left_2(self, n, args):
        return V('action', '%s %s %s' % (self.helper(n, 'uninitialized_shift_left', 2), paren(self.ptr(args[0])), paren(self.nat(args[1]))))

    def f_assign_after_shift_2(self, n, args):
        return V('action', '%s %s %s' % (self.helper(n, 'assign_after_shift', 2), paren(self.ptr(args[0])), self.argterm(args[1], n)))

    def f_relocate_after_shift_2(self, n, args):
        return V('action', '%s %s %s' % (self.helper(n, 'relocate_after_shift', 2), paren(self.ptr(args[0])), paren(self.ptr(args[1]))))

    # ---- statements -------------------------------------------------------------------------------------------
    def flush(self, out, ind):
        for l in self.pre:
            out.append(ind + l)
        self.pre = []

    def stmts_of(self, n):
        if n.get('kind') == 'CompoundStmt':
            return n.get('inner', [])
        return [n]

    def block(self, stmts, ind):
        out = []
        i = 0
        while i < len(stmts):
            s = stmts[i]
            lp = self.copy_loop_head(s)
            if lp is not None:
                if i + 2 >= len(stmts):
                    self.fail(s, 'start of the copy loop pattern without its `for` and `(void)++first`')
                self.copy_loop(lp, stmts[i + 1], stmts[i + 2], out, ind)
                i += 3
                continue
            self.stmt(s, out, ind)
            i += 1
        return out

    # the hand-rolled copy loop ------------------------------------------------------------------------------------
    def deref_postinc_ptr(self, n):
        """`*D++` with D a mutable pointer variable: returns D's name"""
        n = self.strip(n)
        if n.get('kind') == 'UnaryOperator' and n.get('opcode') == '*':
            x = self.strip(n['inner'][0])
            if x.get('kind') == 'UnaryOperator' and x.get('opcode') == '++' and x.get('isPostfix'):
                d = self.strip(x['inner'][0])
                if d.get('kind') == 'DeclRefExpr' and self.env.get(d['referencedDecl'].get('name'), V('x')).kind == 'ptr':
                    return d['referencedDecl']['name']
        return None

    def op_call(self, n, opname, nargs):
        n = self.strip(n)
        if n.get('kind') != 'CXXOperatorCallExpr':
            return None
        f = self.strip(n['inner'][0])
        if f.get('referencedDecl', {}).get('name') != opname or len(n['inner']) - 1 != nargs:
            return None
        return n['inner'][1:]

    def it_var(self, n):
        n = self.strip(n)
        if n.get('kind') == 'DeclRefExpr' and self.env.get(n['referencedDecl'].get('name'), V('x')).kind == 'it':
            return n['referencedDecl']['name']
        return None

    def copy_assign_parts(self, s):
        """`*D++ = <rhs>` by copy assignment of an element: (D, rhs) or None"""
        a = self.op_call(s, 'operator=', 2)
        if a is None:
            return None
        f = self.strip(self.strip(s)['inner'][0])
        if not re.match(r'%s &\(const %s &\)' % (re.escape(self.elem), re.escape(self.elem)), f.get('type', {}).get('qualType', '')):
            return None
        d = self.deref_postinc_ptr(a[0])
        if d is None:
            return None
        return d, a[1]

    def copy_loop_head(self, s):
        """`*D++ = *F;`"""
        p = self.copy_assign_parts(s)
        if p is None:
            return None
        d, rhs = p
        st = self.op_call(rhs, 'operator*', 1)
        if st is None:
            return None
        f = self.it_var(st[0])
        if f is None:
            return None
        return d, f

    def copy_loop(self, head, s2, s3, out, ind):
        d, f = head
        # for (SizeType i = 1; i < N; ++i) { *D++ = *++F; }
        if s2.get('kind') != 'ForStmt' or len(s2.get('inner', [])) != 5:
            self.fail(s2, 'the statement after `*%s++ = *%s` is not the `for` of the known copy loop' % (d, f))
        init, condvar, cnd, inc, body = s2['inner']
        ok = init.get('kind') == 'DeclStmt' and len(init['inner']) == 1 and init['inner'][0].get('kind') == 'VarDecl' and not condvar
        iv = init['inner'][0] if ok else None
        ok = ok and qt(iv) == SIZE_TY and len(iv.get('inner', [])) == 1
        if ok:
            i0 = self.strip_int(iv['inner'][0])
            ok = i0.get('kind') == 'IntegerLiteral' and int(i0['value']) == 1
        iname = iv['name'] if ok else None
        N = None
        if ok:
            ok = cnd.get('kind') == 'BinaryOperator' and cnd.get('opcode') == '<'
        if ok:
            cl = self.strip(cnd['inner'][0])
            ok = cl.get('kind') == 'DeclRefExpr' and cl['referencedDecl'].get('name') == iname and cl['referencedDecl'].get('kind') == 'VarDecl'
        if ok:
            ok = inc.get('kind') == 'UnaryOperator' and inc.get('opcode') == '++' and \
                self.strip(inc['inner'][0]).get('referencedDecl', {}).get('name') == iname
        if ok:
            bs = self.stmts_of(body)
            ok = len(bs) == 1
        if ok:
            p = self.copy_assign_parts(bs[0])
            ok = p is not None and p[0] == d
        if ok:
            st = self.op_call(p[1], 'operator*', 1)
            ok = st is not None
        if ok:
            pi = self.op_call(st[0], 'operator++', 1)      # prefix ++ (the postfix form has a dummy int argument)
            ok = pi is not None and self.it_var(pi[0]) == f
        if not ok:
            self.fail(s2, 'loop that is not exactly `for (SizeType i = 1; i < n; ++i) { *%s++ = *++%s; }`' % (d, f))
        if iname in self.env:
            self.fail(s2, "loop variable '%s' shadows a variable" % iname)
        N = self.nat(cnd['inner'][1])
        if re.search(r'\b%s\b' % re.escape(iname), N):
            self.fail(s2, 'loop bound depends on the loop variable')
        # (void)++F;
        ok3 = s3.get('kind') == 'CStyleCastExpr' and s3.get('castKind') == 'ToVoid'
        if ok3:
            pi = self.op_call(s3['inner'][0], 'operator++', 1)
            ok3 = pi is not None and self.it_var(pi[0]) == f
        if not ok3:
            self.fail(s3, 'the statement after the copy loop is not `(void)++%s`' % f)
        if d not in self.mut or f not in self.mut:
            self.fail(s2, 'internal: %s / %s not declared mutable' % (d, f))
        k = 'max %s 1' % paren(N)
        dv, fv = self.env[d].term, self.env[f].term
        out.append(ind + 'copyN %s (%s.take (%s))' % (dv, fv, k))
        out.append(ind + '%s := %s.add (%s)' % (dv, dv, k))
        out.append(ind + '%s := %s.drop (%s)' % (fv, fv, k))

    def strip_int(self, n):
        while n.get('kind') in self.WRAPPERS and n.get('castKind') in (self.CAST_KINDS_TRANSPARENT | {'IntegralCast'}):
            n = n['inner'][0]
        return n

    # ----------------------------------------------------------------------------------------------------------------
    def stmt(self, n, out, ind):
        k = n.get('kind')
        if k == 'NullStmt':
            return
        if k == 'CompoundStmt':
            out.extend(self.block(n.get('inner', []), ind))
            return
        if k == 'DeclStmt':
            for d in n['inner']:
                self.decl(d, out, ind)
            return
        if k == 'IfStmt':
            return self.ifstmt(n, out, ind)
        if k == 'CXXTryStmt':
            return self.trystmt(n, out, ind)
        if k == 'ReturnStmt':
            return self.ret(n, out, ind)
        if k in ('ForStmt', 'WhileStmt', 'DoStmt', 'CXXForRangeStmt', 'SwitchStmt', 'BreakStmt', 'ContinueStmt', 'GotoStmt'):
            self.fail(n, 'statement of kind %s (only the known copy loop is translated)' % k)
        # expression statement; `(void)expr` discards the value of a call
        s = n
        while s.get('kind') in ('ExprWithCleanups', 'ParenExpr') or (s.get('kind') == 'CStyleCastExpr' and s.get('castKind') == 'ToVoid'):
            s = s['inner'][0]
        if s.get('kind') not in ('CallExpr', 'CXXOperatorCallExpr', 'BinaryOperator'):
            self.fail(n, 'statement of kind ' + str(s.get('kind')))
        if s.get('kind') == 'BinaryOperator' and s.get('opcode') != '=':
            self.fail(n, 'expression statement without effect')
        v = self.ex(s)
        emitted = bool(self.pre)
        self.flush(out, ind)
        if v.kind == 'action':
            out.append(ind + v.term)
            return
        if v.kind == 'ptr' and emitted and s.get('kind') == 'CallExpr':
            return        # an algorithm whose returned iterator is not used (`std::move(f, l, d);`): the call itself was emitted
        self.fail(n, 'expression statement yields a value of kind ' + v.kind)

    def decl(self, d, out, ind):
        if d.get('kind') in ('TypeAliasDecl', 'TypedefDecl'):
            return        # a local type name: clang resolves it in the types of the expressions
        if d.get('kind') != 'VarDecl':
            self.fail(d, 'declaration of kind ' + str(d.get('kind')))
        name = d['name']; ty = qt(d)
        if name in self.env:
            self.fail(d, "local '%s' shadows another variable" % name)
        inits = [c for c in d.get('inner', []) if c.get('kind') not in ('FullComment',)]
        if re.fullmatch(r'(amc::vec::)?ElemStorage<%s>' % re.escape(self.elem), ty):
            if len(inits) != 1 or inits[0].get('kind') != 'CXXConstructExpr' or inits[0].get('inner'):
                self.fail(d, 'ElemStorage local with an initialiser')
            self.env[name] = V('tmp')
            return
        if len(inits) != 1:
            self.fail(d, "local '%s' of type %s without initialiser" % (name, ty))
        v = self.ex(inits[0]); self.flush(out, ind)
        if self.is_elem_ptr(ty):
            if v.kind == 'refptr':
                if not re.fullmatch(r'\w+', v.term):
                    self.fail(d, 'pointer to a const T& bound to a compound expression')
                self.env[name] = V('refptr', v.term)      # `const T *pv = std::addressof(v)`: an alias of the reference
                return
            if v.kind != 'ptr':
                self.fail(d, 'pointer local bound to a value of kind ' + v.kind)
            if self.pure:
                self.fail(d, 'pointer local in a function without effect')
            out.append(ind + 'let %s := %s' % (name, v.term))
            self.env[name] = V('ptr', name)
            return
        self.fail(d, "local '%s' of unsupported type %s" % (name, ty))

    def ifstmt(self, n, out, ind):
        parts = n['inner']
        if n.get('hasInit') or n.get('hasVar') or n.get('isConstexpr'):
            self.fail(n, 'if with initialiser / constexpr if')
        c = self.cond(parts[0]); self.flush(out, ind)
        env0 = dict(self.env)
        tl = self.block(self.stmts_of(parts[1]), ind + '  ')
        self.env = dict(env0)
        el = self.block(self.stmts_of(parts[2]), ind + '  ') if len(parts) > 2 else None
        self.env = dict(env0)
        out.append(ind + 'if %s then' % c)
        out.extend(tl if tl else [ind + '  pure ()'])
        if el is not None:
            out.append(ind + 'else')
            out.extend(el if el else [ind + '  pure ()'])

    def trystmt(self, n, out, ind):
        body = n['inner'][0]; handlers = n['inner'][1:]
        if len(handlers) != 1 or handlers[0].get('kind') != 'CXXCatchStmt':
            self.fail(n, 'try with %d handlers' % len(handlers))
        hin = [c for c in handlers[0].get('inner', []) if c]
        if any(c.get('kind') == 'VarDecl' for c in hin):
            self.fail(n, 'catch with an exception declaration')
        hb = [c for c in hin if c.get('kind') == 'CompoundStmt']
        if len(hb) != 1:
            self.fail(n, 'catch handler shape')
        hs = hb[0].get('inner', [])
        if not hs or self.strip(hs[-1]).get('kind') != 'CXXThrowExpr' or self.strip(hs[-1]).get('inner'):
            self.fail(n, 'catch handler that does not end with `throw;`')
        env0 = dict(self.env)
        bl = self.block(self.stmts_of(body), ind + '    ')
        self.env = dict(env0)
        hl = self.block(hs[:-1], ind + '      ')
        self.env = dict(env0)
        if any(re.match(r'\s*\w+ := ', l) for l in bl + hl):
            self.fail(n, 'mutation of a variable inside try / catch')
        out.append(ind + 'tryCatch (do')
        out.extend(bl if bl else [ind + '    pure ()'])
        out.append(ind + '  ) fun s => do')
        out.append(ind + '    match s with')
        out.append(ind + '    | .exc _ => do')
        out.extend(hl if hl else [ind + '      pure ()'])
        out.append(ind + '    | .fault _ => pure ()')
        out.append(ind + '    throw s')

    def ret(self, n, out, ind):
        inner = n.get('inner', [])
        if self.ret_kind == 'unit':
            self.fail(n, 'return statement in a void helper')
        if not self.pure or ind != '  ' or len(inner) != 1:
            self.fail(n, 'return statement')
        v = self.ex(inner[0]); self.flush(out, ind)
        if v.kind != 'refptr':
            self.fail(n, 'returned value of kind ' + v.kind)
        out.append(ind + v.term)
        self.returned = True

    # ---- the whole function -----------------------------------------------------------------------------------
    def mutated_vars(self, body):
        """names of the variables modified by ++ / -- / assignment (whole body)"""
        res = []
        def walk(n):
            if not isinstance(n, dict):
                return
            k = n.get('kind')
            tgt = None
            if k == 'UnaryOperator' and n.get('opcode') in ('++', '--'):
                tgt = n['inner'][0]
            elif k == 'BinaryOperator' and (n.get('opcode') == '=' or re.fullmatch(r'[-+*/%&|^]=|<<=|>>=', n.get('opcode', ''))):
                tgt = n['inner'][0]
            elif k == 'CompoundAssignOperator':
                tgt = n['inner'][0]
            elif k == 'CXXOperatorCallExpr':
                f = self.strip(n['inner'][0])
                if f.get('referencedDecl', {}).get('name') in ('operator++', 'operator--', 'operator+=', 'operator-='):
                    tgt = n['inner'][1]
                elif f.get('referencedDecl', {}).get('name') == 'operator=':
                    tgt = n['inner'][1]
            if tgt is not None:
                t = self.strip(tgt)
                if t.get('kind') == 'DeclRefExpr' and t['referencedDecl'].get('name') not in res:
                    res.append(t['referencedDecl']['name'])
            for c in n.get('inner', []):
                walk(c)
        walk(body)
        return res

    def run(self):
        m = self.m
        body = None; params = []
        for c in m.get('inner', []):
            if c.get('kind') == 'ParmVarDecl':
                params.append(c)
            elif c.get('kind') == 'CompoundStmt':
                body = c
        if body is None:
            self.fail(m, 'helper without body')
        rng = RANGE_PARAMS.get(self.cname)
        rt = m.get('type', {}).get('qualType', '').split('(')[0].strip()
        if rt == 'void':
            self.ret_kind = 'unit'
        elif rt == 'const %s *' % self.elem and params and qt(params[0]) == 'const %s &' % self.elem:
            self.ret_kind = 'refptr'; self.pure = True
        else:
            self.fail(m, 'return type ' + rt)
        muts = self.mutated_vars(body)
        mut_lines = []
        for i, p in enumerate(params):
            name = p.get('name'); ty = qt(p)
            if self.it_ty is not None and ty == self.it_ty:
                if not rng or name != rng[0]:
                    self.fail(p, 'iterator parameter that is not the declared start of a range')
                self.params.append(('vals', 'List α', i))
                if name in muts:
                    self.env[name] = V('it', name); self.mut.add(name)
                    mut_lines.append('  let mut %s := vals' % name)
                else:
                    self.env[name] = V('it', 'vals')
                continue
            if rng and name == rng[1]:
                if ty != SIZE_TY or name in muts:
                    self.fail(p, 'the count of the input range')
                self.env[name] = V('nat', 'vals.length')
                continue       # not a parameter of the model: the length of `vals`
            if ty == 'const %s &' % self.elem or ty == self.elem + ' &&':
                kind = 'ref' if ty.startswith('const') else 'rval'
                raw = p.get('type', {}).get('qualType', '')
                fwd = self.targs.get('V', self.targs.get('Args'))
                if fwd is not None:
                    # the forwarding reference parameter
                    if self.argname is not None:
                        self.fail(p, 'two forwarding reference parameters')
                    self.argname = name; self.argkind = 'copy' if kind == 'ref' else 'move'
                    self.params.append((name, 'Arg α', i))
                elif kind == 'ref':
                    self.params.append((name, 'Ref α', i))
                else:
                    self.fail(p, 'T&& parameter that is not a forwarding reference')
                if name is None or name in muts:
                    self.fail(p, 'unnamed / modified element parameter')
                self.env[name] = V(kind, name)
                continue
            if self.is_elem_ptr(ty):
                self.params.append((name, 'Addr', i))
                if name is not None:
                    if name in muts:
                        self.mut.add(name)
                        mut_lines.append('  let mut %s := %s' % (name, name))
                    self.env[name] = V('ptr', name)
                continue
            if ty == SIZE_TY:
                self.params.append((name, 'Nat', i))
                if name is not None:
                    if name in muts:
                        self.fail(p, 'modified integer parameter')
                    self.env[name] = V('nat', name)
                continue
            self.fail(p, 'parameter %s of unsupported type %s' % (name, ty))
        for x in muts:
            if x not in self.mut and x in self.env:
                self.fail(m, "variable '%s' is modified" % x)
        self.returned = False
        lines = self.block(body.get('inner', []), '  ')
        if self.pure:
            if not self.returned or mut_lines or len(lines) != 1:
                self.fail(m, 'a helper returning a pointer must consist of aliases and one return statement')
        self.lines = mut_lines + lines
        if not self.lines:
            self.lines = ['  pure ()']
        return self


# ----------------------------------------------------------------------------------------------------------------------
# overload sets
# ----------------------------------------------------------------------------------------------------------------------

def template_params(ftd):
    res = []
    for c in ftd.get('inner', []):
        if c.get('kind') in ('TemplateTypeParmDecl', 'NonTypeTemplateParmDecl', 'TemplateTemplateParmDecl'):
            res.append(c)
    return res


def targ_text(a):
    if 'type' in a:
        return a['type'].get('qualType')
    if 'value' in a:
        return str(a['value'])
    inner = [x for x in a.get('inner', []) if x.get('kind') == 'TemplateArgument']
    return tuple(targ_text(x) for x in inner)      # a pack


def specializations(ftd):
    """[(template-argument dict, FunctionDecl)] of the instantiated specializations with a body"""
    tps = template_params(ftd)
    res = []
    for c in ftd.get('inner', []):
        if c.get('kind') != 'FunctionDecl':
            continue
        tas = [a for a in c.get('inner', []) if a.get('kind') == 'TemplateArgument']
        if not tas:
            continue      # the pattern
        if len(tas) != len(tps):
            raise Unsupported('%s: %s: %d template arguments for %d parameters' % (where(c), c.get('name'), len(tas), len(tps)))
        d = {}
        for tp, a in zip(tps, tas):
            d[tp.get('name') or '<enable_if>'] = targ_text(a)
        if not any(x.get('kind') == 'CompoundStmt' for x in c.get('inner', [])):
            raise Unsupported('%s: specialization of %s without body' % (where(c), c.get('name')))
        res.append((d, c))
    return res


def enable_if_of(ftd):
    """the `enable_if` condition of an overload as written: ('TR' | 'TC', negated?) or None"""
    for tp in template_params(ftd):
        if tp.get('kind') == 'NonTypeTemplateParmDecl':
            t = tp.get('type', {}).get('qualType', '')
            m = re.fullmatch(r'typename std::enable_if<(!?)(amc::is_trivially_relocatable|std::is_trivially_copyable)<T>::value, bool>::type', t)
            if not m:
                raise Unsupported('%s: non-type template parameter of type %s (not a known enable_if condition)' % (where(ftd), t))
            return ('TR' if 'relocatable' in m.group(2) else 'TC', m.group(1) == '!')
    return None


def nparams(ftd):
    for c in ftd.get('inner', []):
        if c.get('kind') == 'FunctionDecl':
            return len([p for p in c.get('inner', []) if p.get('kind') == 'ParmVarDecl'])
    raise Unsupported('%s: function template %s without pattern' % (where(ftd), ftd.get('name')))


class Overload:
    def __init__(self, ftd):
        self.ftd = ftd
        self.line = ftd.get('_line')
        self.cond = enable_if_of(ftd)
        self.specs = specializations(ftd)
        self.elems = sorted({d.get('T') for d, _ in self.specs}, key=lambda e: ELEMS.index(e) if e in ELEMS else 99)
        self.texts = {}        # argkind (None | 'copy' | 'move') -> Body


def render_body(b):
    return '\n'.join(b.lines)


def translate_overload(cname, lean, ov, known):
    """all instantiations of one overload must give the same text (per argument kind)"""
    per_kind = {}
    for d, decl in ov.specs:
        b = Body(cname, lean, decl, d, known).run()
        per_kind.setdefault(b.argkind, []).append(b)
    for kind, bs in per_kind.items():
        first = bs[0]
        for b in bs[1:]:
            if render_body(b) != render_body(first) or [p[:2] for p in b.params] != [p[:2] for p in first.params]:
                raise Unsupported('%s: amc::vec::%s: the instantiations for T = %s and T = %s translate differently:\n%s\n--- vs ---\n%s'
                                  % (where(ov.ftd), cname, first.elem, b.elem, render_body(first), render_body(b)))
        got = [b.elem for b in bs]
        if got != ov.elems:
            raise Unsupported('%s: amc::vec::%s: argument kind %s instantiated for %s, expected %s' % (where(ov.ftd), cname, kind, got, ov.elems))
    kinds = set(per_kind)
    if kinds not in ({None}, {'copy', 'move'}):
        raise Unsupported('%s: amc::vec::%s: argument kinds %s (expected both a const T& and a T&& instantiation)' % (where(ov.ftd), cname, sorted(map(str, kinds))))
    ov.texts = {k: bs[0] for k, bs in per_kind.items()}


def indent(lines, by):
    return [by + l for l in lines]


def overload_lines(ov, base):
    """the body of one overload at indentation `base` + 2 (its lines are produced at indentation 2)"""
    if set(ov.texts) == {None}:
        return indent(ov.texts[None].lines, base)
    an = ov.texts['copy'].argname
    out = [base + '  match %s with' % an]
    for kind in ('copy', 'move'):
        out.append(base + '  | .%s %s =>' % (kind, an))
        out.extend(indent(ov.texts[kind].lines, base + '  '))
    return out


def merge_params(cname, ovs):
    """parameter list of the definition: names from whichever overload names them"""
    lists = []
    for ov in ovs:
        for b in ov.texts.values():
            lists.append(b.params)
    n = len(lists[0])
    res = []
    for i in range(n):
        names = sorted({l[i][0] for l in lists if len(l) == n and l[i][0] is not None})
        types = sorted({l[i][1] for l in lists if len(l) == n})
        if any(len(l) != n for l in lists) or len(names) != 1 or len(types) != 1:
            raise Unsupported('amc::vec::%s: the overloads do not agree on parameter %d (names %s, types %s)' % (cname, i, names, types))
        res.append((names[0], types[0]))
    return res


def build_def(cname, lean, ovs):
    params = merge_params(cname, ovs)
    ps = ''.join(' (%s : %s)' % p for p in params)
    pure = any(b.pure for ov in ovs for b in ov.texts.values())
    if len(ovs) == 1:
        ov = ovs[0]
        if ov.cond is not None or ov.elems != list(ELEMS):
            raise Unsupported('%s: amc::vec::%s: a single overload must be unconditional and selected by every element type (selected by %s)'
                              % (where(ov.ftd), cname, ov.elems))
        if pure:
            b = ov.texts[None]
            return 'def %s%s : Ref α :=\n%s\n' % (lean, ps, '\n'.join(b.lines))
        return 'def %s%s : M α Unit := do\n%s\n' % (lean, ps, '\n'.join(overload_lines(ov, '')))
    if len(ovs) != 2 or pure:
        raise Unsupported('amc::vec::%s: %d overloads (expected one, or a pair of enable_if overloads)' % (cname, len(ovs)))
    conds = {ov.cond for ov in ovs}
    trait = None
    for t, sel_pos, sel_neg, test in (('TR', ['int', 'TR'], ['NTR'], 'isTR'), ('TC', ['int'], ['TR', 'NTR'], 'isTC')):
        if conds == {(t, False), (t, True)}:
            trait = (t, sel_pos, sel_neg, test)
    if trait is None:
        raise Unsupported('amc::vec::%s: the overload pair is not selected by is_trivially_relocatable<T> / !is_trivially_relocatable<T> '
                          'or is_trivially_copyable<T> / !is_trivially_copyable<T> (conditions %s)' % (cname, sorted(map(str, conds))))
    t, sel_pos, sel_neg, test = trait
    pos = [ov for ov in ovs if ov.cond == (t, False)][0]
    neg = [ov for ov in ovs if ov.cond == (t, True)][0]
    if pos.elems != sel_pos or neg.elems != sel_neg:
        raise Unsupported('amc::vec::%s: overload selection %s / %s does not match the trait %s (expected %s / %s)'
                          % (cname, pos.elems, neg.elems, t, sel_pos, sel_neg))
    out = ['def %s%s : M α Unit := do' % (lean, ps), '  if ← %s then' % test]
    out.extend(overload_lines(pos, '  '))
    out.append('  else')
    out.extend(overload_lines(neg, '  '))
    return '\n'.join(out) + '\n'


PRELUDE = '''import AmcVerif.Model.Vec
/-! GENERATED by translator/helpers2lean.py from include/amc/vectorcommon.hpp -- do not edit.

Monadic definitions of the element helpers (free functions of namespace `amc::vec`), one per overload set: every
`enable_if` overload is translated statement by statement from its instantiations for a trivially copyable, a trivially
relocatable and a general element type; the overload pair is joined by `if ← isTR` / `if ← isTC`, exactly as the
element types select the overloads. `Bridge/VecHelpersBridge.lean` proves them equal to the hand-written definitions of
Prim/Helpers.lean and Model/Vec.lean. -/
namespace AmcVerif.Gen.Helpers
open AmcVerif
variable {α : Type}

/-- `p - k` on a pointer -/
def subA (p : Addr) (k : Nat) : Addr := ⟨p.r, p.i - k⟩

/-- `l - f` on two pointers into the same buffer -/
def ptrDiff (l f : Addr) : Nat := l.i - f.i

/-- `std::addressof(v) >= p` for a buffer pointer `p` (an object outside the buffers is unrelated to every buffer pointer) -/
def refGe (r : Ref α) (p : Addr) : Bool :=
  match r with
  | .at a => a.r == p.r && decide (p.i ≤ a.i)
  | .lit _ => false

/-- `std::addressof(v) > p` -/
def refGt (r : Ref α) (p : Addr) : Bool :=
  match r with
  | .at a => a.r == p.r && decide (p.i < a.i)
  | .lit _ => false

/-- `std::addressof(v) < p` -/
def refLt (r : Ref α) (p : Addr) : Bool :=
  match r with
  | .at a => a.r == p.r && decide (a.i < p.i)
  | .lit _ => false

/-- `std::addressof(v) <= p` -/
def refLe (r : Ref α) (p : Addr) : Bool :=
  match r with
  | .at a => a.r == p.r && decide (a.i ≤ p.i)
  | .lit _ => false

/-- `std::addressof(v) + k` -/
def refAdd (r : Ref α) (k : Nat) : Ref α :=
  match r with
  | .at a => .at (a.add k)
  | .lit v => .lit v

'''


def generate(include, workdir):
    global INCLUDE_ROOT
    INCLUDE_ROOT = include
    src = os.path.join(workdir, 'helpers2lean_tu.cpp')
    with open(src, 'w') as f:
        f.write(TU)
    objs = clang_dump(include, src, 'amc::vec::')
    st = LocState()
    groups = {}
    hdr = os.path.join(include, 'amc', 'vectorcommon.hpp')
    for o in objs:
        annotate(o, st)
        if o.get('kind') != 'FunctionTemplateDecl':
            continue
        if o.get('_file') != hdr:
            continue
        name = o.get('name')
        if not any(name == k[0] for k in HELPERS):
            continue
        key = (name, nparams(o))
        if key not in HELPERS:
            raise Unsupported('%s: overload of amc::vec::%s with %d parameters is not a known helper' % (where(o), name, key[1]))
        groups.setdefault(key, []).append(Overload(o))
    missing = [k for k in HELPERS if k not in groups]
    if missing:
        raise Unsupported('helpers not found in namespace amc::vec of %s: %s' % (hdr, missing))
    order = sorted(groups, key=lambda k: min(ov.line for ov in groups[k]))
    known = set()
    defs = []
    for key in order:
        cname, _ = key; lean = HELPERS[key]
        ovs = sorted(groups[key], key=lambda ov: ov.line)
        for ov in ovs:
            if not ov.specs:
                raise Unsupported('%s: overload of amc::vec::%s is selected by no element type' % (where(ov.ftd), cname))
            translate_overload(cname, lean, ov, known)
        text = build_def(cname, lean, ovs)
        sig = '%s(%s)' % (cname, ', '.join(p.get('name') or '_' for p in pattern_params(ovs[0].ftd)))
        locs = ', '.join('%s%s' % (where(ov.ftd), '' if ov.cond is None else ' [%s%s]' % ('!' if ov.cond[1] else '', {'TR': 'is_trivially_relocatable', 'TC': 'is_trivially_copyable'}[ov.cond[0]])) for ov in ovs)
        defs.append((sig, locs, text))
        known.add(lean)
    return defs


def pattern_params(ftd):
    for c in ftd.get('inner', []):
        if c.get('kind') == 'FunctionDecl':
            return [p for p in c.get('inner', []) if p.get('kind') == 'ParmVarDecl']
    return []


def main():
    ap = argparse.ArgumentParser()
    ap.add_argument('--include', required=True)
    ap.add_argument('--out', required=True)
    a = ap.parse_args()
    try:
        with tempfile.TemporaryDirectory() as wd:
            defs = generate(os.path.abspath(a.include), wd)
    except Unsupported as e:
        sys.stderr.write('helpers2lean: UNSUPPORTED: %s\n' % e)
        sys.exit(2)
    out = [PRELUDE]
    for sig, locs, text in defs:
        out.append('/-- `amc::vec::%s`  (%s) -/\n' % (sig, locs))
        out.append(text)
        out.append('\n')
    out.append('end AmcVerif.Gen.Helpers\n')
    with open(a.out, 'w') as f:
        f.write(''.join(out))
    sys.stderr.write('helpers2lean: %d definitions written to %s\n' % (len(defs), a.out))


if __name__ == '__main__':
    main()
