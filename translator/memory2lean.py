#!/usr/bin/env python3
"""memory2lean -- generate the Lean model of the dispatch structure and of the implementation arms of
include/amc/memory.hpp from the C++ source, per language standard.

usage: memory2lean.py --include <include dir> --out <MemAlgoGen.lean>  [--define NAME ...] [--single-config] [--keep DIR]

Method (same genre as helpers2lean.py / glue2lean.py, whose clang driving and AST loading code is reused): clang++-14
dumps, once per `-std=c++11/14/17/20` (config.hpp derives AMC_CXX14/17/20 from __cplusplus), the typed JSON AST of a
translation unit that calls every public algorithm of memory.hpp for a grid of iterator kinds and element types

    element types  int  (trivially copyable, trivially default constructible)
                   TR   (declared trivially relocatable, nothing else)
                   NTR  (nothing)
                   TD   (trivially default constructible, not trivially copyable)
                   CD   (trivially copyable, not trivially default constructible)
    iterators      T*, const T*, std::forward_list<T>::iterator (forward), std::vector<T>::iterator (random access, not a
                   pointer; also as OUTPUT iterator), std::move_iterator<T*> (copy / move only: relocating from a
                   move_iterator is ill-formed), long* -> int* (different value types)

The whole translation is done twice, for the assert-enabled configuration and with -DNDEBUG, and both must give the same
text (so that `#ifndef NDEBUG` code inside memory.hpp is seen); --single-config translates only the configuration given
by --define.

Priority 1, the DISPATCH.  Three things are read from every AST:

  1. per public name: `using std::X;` (alias -> the specification `Spec.*` of the hand-written model, table ALGS) or own
     function template(s);
  2. SYMBOLICALLY, from the template patterns: the `std::conditional` tree of `memory_details::ImplModeFactory` (clang
     prints dependent types as text: `TypeExprParser` parses that text), the `typedef ... ImplMode;  return F_impl(params...,
     ImplMode());` of every public algorithm, the `enable_if` conditions of overload pairs, the `TypeTraits` tree of the
     `construct_at` functor.  Every trait occurring in such a condition must be one of a closed list
     (is_pointer<InputIt|OutputIt>, is_same<value types>, is_lvalue_reference<reference>, is_trivially_copyable,
     amc::is_trivially_relocatable, is_trivially_default_constructible, is_trivial, is_array [= false]) -- anything else
     stops the translator;
  3. CONCRETELY, from the instantiations: which overload clang selected for every point of the grid.  The symbolic
     decision tree is evaluated on the facts of the grid point (the values of the traits as computed by clang, read
     from a `Facts<...>` alias) and must predict exactly the selected overload / the `ImplModeFactory<...>::type` clang
     computed; every leaf of every tree must be reached by some grid point and every trait must be seen true and false.

Priority 2, the ARMS (class ArmT).  Every `*_impl` overload, the pre-C++17 emulations and the call operators of the
`construct_at` functor are translated from their INSTANTIATED bodies by abstract interpretation over
(range, offset) iterators, recognising a closed set of shapes:

    for (; count > 0 | first != last; ++it..., --count) { <element operation> }         loop1 / loop2 <step> 0 n ...
    OutputIt current = dest; try { <loop> [return current;] } catch (...) { amc::destroy(dest, current); throw; }
                                                                                        guarded1 / guarded2
    if (count > 0) { std::memcpy | std::memmove(dest, first, count * sizeof(V)); }      if n > 0 then unguarded2 (memcpyN | memmoveRelocN ...) ...
    one element operation as the whole body                                             unguarded (loop 0 1) / memcpyN 1
    return <sibling arm>(first, count | last, dest, Tag());   pair(first + count, <sibling arm>(...))
    x = amc::<two-range algorithm>(whole ranges); amc::<one-range algorithm>(source range); return x;   (the Default relocations)
    std::uninitialized_copy / std::fill / std::fill_n on the whole range                 hand-written models std*
    std::advance(first, n); return first; / empty body  in the is_trivially_default_constructible overloads: vacuous initialisation
  element operations: amc::construct_at(addressof(*d), *s | std::move(*s)), amc::construct_at(addressof(*d)), placement new
    (default- / value- / copy- / move-initialising), std::memcpy / std::memmove of sizeof(V), p->~T(), destroy_at(addressof(*p)),
    relocate_at_impl(addressof(*s), addressof(*d), MemMove()) (the last two by translating the callee)
  return value -> `.done a b`: how far the returned iterator(s) advanced (loop count `p`, `n`, 0).

All instantiations of one overload (and the four standards) must translate to the same text; where the text says
`ctorStep rvalue`, the value category of `*first` in every instantiation must be the `is_rvalue_reference` fact.

The translator exits with status 2 and a message naming file:line and the construct on anything it does not know.
Nothing is skipped or defaulted.  The output depends only on the headers (byte-stable).
"""
import argparse, json, os, re, subprocess, sys, tempfile

CLANG = 'clang++-14'
CLANG_TIMEOUT = 300

STDS = [('cxx11', 'c++11'), ('cxx14', 'c++14'), ('cxx17', 'c++17'), ('cxx20', 'c++20')]


class Unsupported(Exception):
    pass


# ----------------------------------------------------------------------------------------------------------------------
# the translation unit
# ----------------------------------------------------------------------------------------------------------------------

ELEMS = ['int', 'TR', 'NTR', 'TD', 'CD']
ELEMS2 = ['int', 'TR', 'NTR']            # element types of the two-range grid

TU_HEAD = r'''#include <amc/memory.hpp>
#include <forward_list>
#include <iterator>
#include <vector>
namespace m2l_amc {
struct NTR { NTR(); NTR(const NTR&); NTR(NTR&&) noexcept; NTR& operator=(const NTR&); NTR& operator=(NTR&&) noexcept; ~NTR(); int v; };
struct TR { using trivially_relocatable = std::true_type;
            TR(); TR(const TR&); TR(TR&&) noexcept; TR& operator=(const TR&); TR& operator=(TR&&) noexcept; ~TR(); int v; };
struct TD { TD() = default; TD(const TD&); int v; };
struct CD { CD() : v(7) {} int v; };
template <bool...> struct Facts {};
// element facts: trivCopy trivReloc trivDflt trivial isArray
template <class T> struct ProbeT {
  using facts = Facts<std::is_trivially_copyable<T>::value, amc::is_trivially_relocatable<T>::value,
                      std::is_trivially_default_constructible<T>::value, std::is_trivial<T>::value, std::is_array<T>::value>;
  static void use_construct_copy(T* p, const T& cr) { amc::construct_at(p, cr); }
  static void use_construct_copy_nc(T* p, T& lr) { amc::construct_at(p, lr); }
  static void use_construct_move(T* p, T& lr) { amc::construct_at(p, std::move(lr)); }
  static void use_construct_value(T* p) { amc::construct_at(p); }
  static void use(T* p, T* q) {
    amc::destroy_at(p);
    amc::relocate_at(p, q);
  }
};
// one-range facts: isPointer
template <class It> struct Probe1 {
  using V = typename std::iterator_traits<It>::value_type;
  using facts = Facts<std::is_pointer<It>::value>;
  using elem = typename ProbeT<V>::facts;
  static void use(It f, It l, unsigned n) {
    amc::destroy(f, l);
    amc::destroy_n(f, n);
    amc::uninitialized_default_construct(f, l);
    amc::uninitialized_default_construct_n(f, n);
    amc::uninitialized_value_construct(f, l);
    amc::uninitialized_value_construct_n(f, n);
  }
};
// two-range facts: isPointerIn isPointerOut sameType lvalueRef rvalueRef
template <class In, class Out> struct Probe2 {
  using VI = typename std::iterator_traits<In>::value_type;
  using VO = typename std::iterator_traits<Out>::value_type;
  using RI = typename std::iterator_traits<In>::reference;
  using facts = Facts<std::is_pointer<In>::value, std::is_pointer<Out>::value, std::is_same<VI, VO>::value,
                      std::is_lvalue_reference<RI>::value, std::is_rvalue_reference<RI>::value>;
  using elem = typename ProbeT<VI>::facts;
  static void use_copy(In f, In l, Out d, unsigned n) {
    amc::uninitialized_copy(f, l, d);
    amc::uninitialized_copy_n(f, n, d);
    amc::uninitialized_move(f, l, d);
    amc::uninitialized_move_n(f, n, d);
  }
  static void use_relocate(In f, In l, Out d, unsigned n) {
    amc::uninitialized_relocate(f, l, d);
    amc::uninitialized_relocate_n(f, n, d);
  }
};
'''


def make_tu():
    out = [TU_HEAD]
    for t in ELEMS:
        out.append('template struct ProbeT<%s>;\n' % t)
    for t in ELEMS:
        out.append('template struct Probe1<%s*>;\n' % t)
    for t in ('int', 'NTR'):
        out.append('template struct Probe1<std::forward_list<%s>::iterator>;\n' % t)
    for t in ELEMS2:
        for i, o, reloc in (('%s*', '%s*', True), ('const %s*', '%s*', False), ('std::forward_list<%s>::iterator', '%s*', True),
                            ('std::vector<%s>::iterator', '%s*', True), ('%s*', 'std::vector<%s>::iterator', True),
                            ('std::move_iterator<%s*>', '%s*', False)):
            i, o = i % t, o % t
            out.append('template void Probe2<%s, %s>::use_copy(%s, %s, %s, unsigned);\n' % (i, o, i, i, o))
            if reloc:
                out.append('template void Probe2<%s, %s>::use_relocate(%s, %s, %s, unsigned);\n' % (i, o, i, i, o))
    out.append('template void Probe2<long*, int*>::use_copy(long*, long*, int*, unsigned);\n')
    out.append('template void Probe2<long*, int*>::use_relocate(long*, long*, int*, unsigned);\n')
    out.append('}\n')
    return ''.join(out)


# ----------------------------------------------------------------------------------------------------------------------
# clang driving / AST loading (from glue2lean.py / helpers2lean.py)
# ----------------------------------------------------------------------------------------------------------------------

def parse_concat(src):
    dec = json.JSONDecoder(); i = 0; objs = []
    while i < len(src):
        while i < len(src) and src[i].isspace():
            i += 1
        if i >= len(src):
            break
        o, j = dec.raw_decode(src, i); objs.append(o); i = j
    return objs


def clang_dump(include, src_path, std, defines):
    cmd = ['timeout', str(CLANG_TIMEOUT), CLANG, '-std=' + std, '-I', include, '-fsyntax-only']
    cmd += ['-D' + d for d in defines]
    cmd += ['-Xclang', '-ast-dump=json', '-Xclang', '-ast-dump-filter=amc::', src_path]
    p = subprocess.run(cmd, capture_output=True, text=True)
    if p.returncode != 0:
        raise Unsupported('clang failed on the instantiation TU (-std=%s):\n%s' % (std, p.stderr[-3000:]))
    return parse_concat(p.stdout)


class LocState:
    def __init__(self):
        self.file = None; self.line = None


def annotate(node, st):
    """clang's JSON omits file/line when unchanged since the previously printed location: replay them in print order"""
    def upd(d):
        if not isinstance(d, dict):
            return
        if 'spellingLoc' in d or 'expansionLoc' in d:
            upd(d.get('spellingLoc')); upd(d.get('expansionLoc')); return
        if 'file' in d:
            st.file = d['file']
        if 'line' in d:
            st.line = d['line']
    if not isinstance(node, dict):
        return
    for k, v in list(node.items()):
        if k == 'loc':
            upd(v); node['_locfile'] = st.file; node['_locline'] = st.line
        elif k == 'range':
            upd(v.get('begin')); node['_file'] = st.file; node['_line'] = st.line; upd(v.get('end'))
        elif k == 'inner':
            for c in v:
                annotate(c, st)


INCLUDE_ROOT = None


def relfile(f):
    f = f or '?'
    if INCLUDE_ROOT and f.startswith(INCLUDE_ROOT.rstrip('/') + '/'):
        f = 'include/' + f[len(INCLUDE_ROOT.rstrip('/')) + 1:]
    return f


def where(n):
    return '%s:%s' % (relfile(n.get('_file')), n.get('_line', '?'))


def qt(n):
    t = n.get('type', {})
    return t.get('desugaredQualType', t.get('qualType', ''))


def sugar(n):
    return n.get('type', {}).get('qualType', '')


def kids(n, kind=None):
    return [c for c in n.get('inner', []) if kind is None or c.get('kind') == kind]


# ----------------------------------------------------------------------------------------------------------------------
# parser of the type / condition expressions that clang prints for dependent types
#   typename std::conditional<std::is_pointer<InputIt>::value && std::is_pointer<OutputIt>::value, MemMove, MemMoveInALoop>::type
# ----------------------------------------------------------------------------------------------------------------------

TOKEN = re.compile(r'\s*(::|&&|\|\||\.\.\.|[<>,()!*&]|[A-Za-z_][A-Za-z0-9_]*|\d+)')


class Q:
    """qualified name: segments [(identifier, template arguments or None)], plus pointer / reference suffixes"""
    def __init__(self, segs, suffix=''):
        self.segs, self.suffix = segs, suffix

    def base(self):
        return '::'.join(s for s, _ in self.segs)

    def __repr__(self):
        return 'Q(%s%s)' % ('::'.join(s + ('' if a is None else '<%s>' % ', '.join(map(repr, a))) for s, a in self.segs), self.suffix)


class TypeExprParser:
    def __init__(self, text, loc):
        self.text, self.loc = text, loc
        self.toks = []
        i = 0
        while i < len(text):
            m = TOKEN.match(text, i)
            if not m:
                if text[i:].strip() == '':
                    break
                raise Unsupported('%s: cannot tokenise the type expression `%s` at `%s`' % (loc, text, text[i:i + 20]))
            self.toks.append(m.group(1)); i = m.end()
        self.i = 0

    def peek(self, k=0):
        return self.toks[self.i + k] if self.i + k < len(self.toks) else None

    def take(self, t=None):
        x = self.peek()
        if x is None or (t is not None and x != t):
            raise Unsupported('%s: type expression `%s`: expected %s, found %s' % (self.loc, self.text, t or 'a token', x))
        self.i += 1
        return x

    def parse(self):
        e = self.p_or()
        if self.peek() is not None:
            raise Unsupported('%s: type expression `%s`: trailing `%s`' % (self.loc, self.text, self.peek()))
        return e

    def p_or(self):
        e = self.p_and()
        while self.peek() == '||':
            self.take(); e = ('or', e, self.p_and())
        return e

    def starts_primary(self, t):
        return t is not None and (t in ('!', '(') or re.match(r'[A-Za-z_\d]', t) is not None)

    def p_and(self):
        e = self.p_unary()
        while self.peek() == '&&' and self.starts_primary(self.peek(1)):
            self.take(); e = ('and', e, self.p_unary())
        return e

    def p_unary(self):
        if self.peek() == '!':
            self.take(); return ('not', self.p_unary())
        if self.peek() == '(':
            self.take(); e = self.p_or(); self.take(')'); return e
        return self.p_qname()

    def p_qname(self):
        while self.peek() in ('typename', 'const', 'struct', 'class'):
            self.take()
        t = self.take()
        if t in ('true', 'false'):
            return ('const', t == 'true')
        if not re.match(r'[A-Za-z_]', t):
            raise Unsupported('%s: type expression `%s`: unexpected `%s`' % (self.loc, self.text, t))
        segs = []
        while True:
            args = None
            if self.peek() == '<':
                self.take(); args = []
                if self.peek() != '>':
                    args.append(self.p_or())
                    while self.peek() == ',':
                        self.take(); args.append(self.p_or())
                self.take('>')
            segs.append((t, args))
            if self.peek() == '::':
                self.take(); t = self.take()
                if not re.match(r'[A-Za-z_]', t):
                    raise Unsupported('%s: type expression `%s`: unexpected `%s` after ::' % (self.loc, self.text, t))
                continue
            break
        suffix = ''
        while self.peek() in ('*', '&', '...') or (self.peek() == '&&' and not self.starts_primary(self.peek(1))):
            suffix += self.take()
        return Q(segs, suffix)


def parse_type_expr(text, loc):
    return TypeExprParser(text, loc).parse()


# ----------------------------------------------------------------------------------------------------------------------
# conditions: Boolean expressions over the closed list of traits
# ----------------------------------------------------------------------------------------------------------------------

# atom -> (Lean text inside a public algorithm, Lean parameter name inside `implMode`)
ATOMS = {
    'isPointerIn': 'it.isPointerIn', 'isPointerOut': 'it.isPointerOut', 'sameType': 'it.sameType', 'lvalueRef': 'lvalueRef it',
    'trivCopy': 'ty.trivCopy', 'trivReloc': 'ty.trivReloc', 'trivDflt': 'ty.trivDflt', 'trivial': 'ty.trivial',
    'isArray': 'false', 'memMovePossible': 'memMovePossible',
}
ELEM_TRAITS = {'std::is_trivially_copyable': 'trivCopy', 'amc::is_trivially_relocatable': 'trivReloc', 'is_trivially_relocatable': 'trivReloc',
               'std::is_trivially_default_constructible': 'trivDflt', 'std::is_trivial': 'trivial', 'std::is_array': 'isArray'}


class Ctx:
    """names of a template: which parameter is the input / output / single iterator, the element type, local aliases"""
    def __init__(self, loc, inp=None, out=None, single=None, elem=None, aliases=None, nttp=()):
        self.loc, self.inp, self.out, self.single, self.elem = loc, inp, out, single, elem
        self.aliases = aliases or {}
        self.nttp = set(nttp)


def norm_type(e, ctx):
    """canonical form of a type argument: 'In' | 'Out' | 'It' | 'T' | ('vt', X) | ('ref', X)"""
    if not isinstance(e, Q) or e.suffix:
        raise Unsupported('%s: unsupported type argument %r in a condition' % (ctx.loc, e))
    if len(e.segs) == 1 and e.segs[0][1] is None:
        n = e.segs[0][0]
        if n in ctx.aliases:
            return norm_type(ctx.aliases[n], ctx)
        if n == ctx.inp:
            return 'In'
        if n == ctx.out:
            return 'Out'
        if n == ctx.single:
            return 'It'
        if n == ctx.elem:
            return 'T'
        raise Unsupported('%s: unknown type name `%s` in a condition' % (ctx.loc, n))
    if e.base() in ('std::iterator_traits::value_type', 'std::iterator_traits::reference') and e.segs[1][1] is not None \
            and len(e.segs[1][1]) == 1 and e.segs[2][1] is None:
        return ('vt' if e.segs[2][0] == 'value_type' else 'ref', norm_type(e.segs[1][1][0], ctx))
    raise Unsupported('%s: unsupported type argument %r in a condition' % (ctx.loc, e))


def cond_of(e, ctx):
    """condition expression -> ('atom', name) | ('and'|'or', a, b) | ('not', a) | ('const', b)"""
    if isinstance(e, tuple):
        if e[0] in ('and', 'or'):
            return (e[0], cond_of(e[1], ctx), cond_of(e[2], ctx))
        if e[0] == 'not':
            return ('not', cond_of(e[1], ctx))
        if e[0] == 'const':
            return e
    if isinstance(e, Q) and not e.suffix:
        if len(e.segs) == 1 and e.segs[0][1] is None and e.segs[0][0] in ctx.nttp:
            if e.segs[0][0] == 'IsMemMovePossible':
                return ('atom', 'memMovePossible')
        if e.segs[-1] == ('value', None) and e.segs[-2][1] is not None:
            trait = '::'.join(s for s, _ in e.segs[:-1])
            if any(a is not None for _, a in e.segs[:-2]):
                raise Unsupported('%s: unsupported trait %r' % (ctx.loc, e))
            args = [norm_type(a, ctx) for a in e.segs[-2][1]]
            if trait == 'std::is_pointer' and args == ['In']:
                return ('atom', 'isPointerIn')
            if trait == 'std::is_pointer' and args == ['Out']:
                return ('atom', 'isPointerOut')
            if trait == 'std::is_same' and args == [('vt', 'In'), ('vt', 'Out')]:
                return ('atom', 'sameType')
            if trait == 'std::is_lvalue_reference' and args == [('ref', 'In')]:
                return ('atom', 'lvalueRef')
            if trait in ELEM_TRAITS and args in ([('vt', 'In')], [('vt', 'It')], ['T']):
                return ('atom', ELEM_TRAITS[trait])
            raise Unsupported('%s: the trait `%s` applied to %s is not in the list of traits the model knows '
                              '(is_pointer<InputIt|OutputIt>, is_same<value types>, is_lvalue_reference<reference>, is_trivially_copyable, '
                              'is_trivially_relocatable, is_trivially_default_constructible, is_trivial, is_array)' % (ctx.loc, trait, args))
    raise Unsupported('%s: unsupported condition %r' % (ctx.loc, e))


def cond_eval(c, env):
    if c[0] == 'atom':
        if c[1] not in env:
            raise Unsupported('internal: no fact for %s' % c[1])
        return env[c[1]]
    if c[0] == 'const':
        return c[1]
    if c[0] == 'not':
        return not cond_eval(c[1], env)
    if c[0] == 'and':
        return cond_eval(c[1], env) and cond_eval(c[2], env)
    return cond_eval(c[1], env) or cond_eval(c[2], env)


def cond_atoms(c):
    if c[0] == 'atom':
        return {c[1]}
    if c[0] == 'const':
        return set()
    return set().union(*[cond_atoms(x) for x in c[1:]])


def cond_lean(c, names, top=True):
    """Lean Bool expression; `names` maps an atom to its text"""
    if c[0] == 'atom':
        return names[c[1]]
    if c[0] == 'const':
        return 'true' if c[1] else 'false'
    if c[0] == 'not':
        return '!' + cond_lean(c[1], names, False)
    op = ' && ' if c[0] == 'and' else ' || '
    parts = []
    for x in c[1:]:
        t = cond_lean(x, names, False)
        # && is left associative in C++ and in Lean: a && b && c parses the same way; parenthesise a right operand
        if x[0] in ('and', 'or') and (x is c[2] or x[0] != c[0]):
            t = '(' + t + ')'
        parts.append(t)
    return op.join(parts)


def cond_simplify(c, consts):
    """replace the atoms of `consts` by their value and simplify"""
    if c[0] == 'atom':
        return ('const', consts[c[1]]) if c[1] in consts else c
    if c[0] == 'const':
        return c
    if c[0] == 'not':
        x = cond_simplify(c[1], consts)
        return ('const', not x[1]) if x[0] == 'const' else ('not', x)
    a, b = cond_simplify(c[1], consts), cond_simplify(c[2], consts)
    unit = c[0] == 'and'
    for x, y in ((a, b), (b, a)):
        if x[0] == 'const':
            return y if x[1] == unit else ('const', not unit)
    return (c[0], a, b)


def tree_of(e, ctx, typedefs, leaf):
    """type expression -> decision tree ('if', cond, t, e) | ('leaf', x) | ('mode', cond) ; `typedefs`: local typedef name ->
    type expression; `leaf(name)` maps a tag type name to a leaf payload or None"""
    if isinstance(e, Q) and not e.suffix:
        b = e.base()
        if b == 'std::conditional::type' and e.segs[1][1] is not None and len(e.segs[1][1]) == 3 and e.segs[2][1] is None:
            c, a1, a2 = e.segs[1][1]
            return ('if', cond_of(c, ctx), tree_of(a1, ctx, typedefs, leaf), tree_of(a2, ctx, typedefs, leaf))
        if b in ('memory_details::ImplModeFactory::type', 'ImplModeFactory::type', 'amc::memory_details::ImplModeFactory::type'):
            args = e.segs[-2][1]
            if args is None or len(args) != 3 or [norm_type(a, ctx) for a in args[:2]] != ['In', 'Out']:
                raise Unsupported('%s: ImplModeFactory is not applied to <InputIt, OutputIt, condition>: %r' % (ctx.loc, e))
            return ('mode', cond_of(args[2], ctx))
        if all(a is None for _, a in e.segs):
            n = e.segs[-1][0]
            if len(e.segs) == 1 and n in typedefs:
                return tree_of(typedefs[n], ctx, typedefs, leaf)
            x = leaf(n)
            if x is not None:
                return ('leaf', x)
    raise Unsupported('%s: unsupported type expression %r (expected std::conditional<...>::type, ImplModeFactory<...>::type or a tag type)' % (ctx.loc, e))


def tree_simplify(t, consts):
    if t[0] == 'if':
        c = cond_simplify(t[1], consts)
        if c[0] == 'const':
            return tree_simplify(t[2] if c[1] else t[3], consts)
        return ('if', c, tree_simplify(t[2], consts), tree_simplify(t[3], consts))
    if t[0] == 'match':
        return ('match', cond_simplify(t[1], consts), {k: tree_simplify(v, consts) for k, v in t[2].items()})
    return t


def tree_leaves(t):
    if t[0] == 'if':
        return tree_leaves(t[2]) + tree_leaves(t[3])
    if t[0] == 'match':
        return [x for k in MODES for x in tree_leaves(t[2][k])]
    return [t[1]]


def tree_conds(t):
    if t[0] == 'if':
        return [t[1]] + tree_conds(t[2]) + tree_conds(t[3])
    if t[0] == 'match':
        return [t[1]] + [x for k in MODES for x in tree_conds(t[2][k])]
    return []


MODES = ['Default', 'MemMoveInALoop', 'MemMove']
MODE_LEAN = {'Default': '.dflt', 'MemMoveInALoop': '.memMoveInALoop', 'MemMove': '.memMove'}


# ----------------------------------------------------------------------------------------------------------------------
# one clang run
# ----------------------------------------------------------------------------------------------------------------------

FACT_NAMES = {'ProbeT': ['trivCopy', 'trivReloc', 'trivDflt', 'trivial', 'isArray'],
              'Probe1': ['isPointer'],
              'Probe2': ['isPointerIn', 'isPointerOut', 'sameType', 'lvalueRef', 'rvalueRef']}


def facts_of_alias(node, names, loc):
    m = re.fullmatch(r'm2l_amc::Facts<(.*)>', qt(node))
    if not m:
        raise Unsupported('%s: internal: facts alias has type %s' % (loc, qt(node)))
    vals = [x.strip() for x in m.group(1).split(',')]
    if len(vals) != len(names) or any(v not in ('true', 'false') for v in vals):
        raise Unsupported('%s: internal: facts alias has type %s, expected %d Booleans' % (loc, qt(node), len(names)))
    return {n: v == 'true' for n, v in zip(names, vals)}


def is_spec(fd):
    return any(a.get('kind') == 'TemplateArgument' for a in fd.get('inner', []))


def body_of(fd):
    b = kids(fd, 'CompoundStmt')
    return b[0] if b else None


def strip_expr(e):
    """drop implicit casts, parentheses, cleanups, materialisations, (void) casts and `void()` operands of commas stay"""
    while e.get('kind') in ('ImplicitCastExpr', 'ParenExpr', 'ExprWithCleanups', 'MaterializeTemporaryExpr', 'CXXBindTemporaryExpr',
                            'ConstantExpr'):
        e = e['inner'][0]
    return e


class Call:
    """a call of a public algorithm in a probe: the facts of the grid point and the called declaration"""
    def __init__(self, cname, callee_id, env, shape, desc, node):
        self.cname, self.callee_id, self.env, self.shape, self.desc, self.node = cname, callee_id, env, shape, desc, node


class Unit:
    def __init__(self, lean_std, std, objs, hdr):
        self.lean_std, self.std, self.hdr = lean_std, std, hdr
        st = LocState()
        for o in objs:
            annotate(o, st)
        self.by_id = {}
        self.tmpl_of = {}        # id of an instantiated FunctionDecl / CXXMethodDecl -> the enclosing template declaration node
        self.top = []            # declarations of namespace amc written in memory.hpp, in source order
        self.details = []        # declarations of namespace amc::memory_details written in memory.hpp
        self.probes = []         # ClassTemplateSpecializationDecl of ProbeT / Probe1 / Probe2
        seen = set()
        for o in objs:
            self.index(o, None)
        for o in objs:
            k = o.get('kind')
            if k == 'NamespaceDecl' and o.get('name') == 'memory_details' and o.get('_file') == hdr:
                self.details.extend(kids(o))
            elif k == 'NamespaceDecl':
                continue
            elif k in ('ClassTemplateDecl',) and o.get('name') in FACT_NAMES:
                for c in kids(o, 'ClassTemplateSpecializationDecl'):
                    if c['id'] not in seen and any(x.get('kind') == 'TypeAliasDecl' for x in kids(c)):
                        seen.add(c['id']); self.probes.append(c)
            elif o.get('_file') == hdr and o.get('_locfile', hdr) == hdr:
                self.top.append(o)
        for o in objs:
            if o.get('kind') == 'ClassTemplateSpecializationDecl' and o.get('name') in FACT_NAMES and o['id'] not in seen \
                    and any(x.get('kind') == 'TypeAliasDecl' for x in kids(o)):
                seen.add(o['id']); self.probes.append(o)
        self.calls = []
        self.facts2 = {}         # (input iterator type, output iterator type) -> facts
        for p in self.probes:
            self.read_probe(p)

    def index(self, n, tmpl):
        if not isinstance(n, dict):
            return
        if 'id' in n and 'kind' in n:
            self.by_id.setdefault(n['id'], n)
        k = n.get('kind')
        if k in ('FunctionTemplateDecl', 'ClassTemplateDecl', 'ClassTemplatePartialSpecializationDecl'):
            tmpl = n
        if k in ('FunctionDecl', 'CXXMethodDecl') and tmpl is not None:
            self.tmpl_of[n['id']] = tmpl
        for c in n.get('inner', []):
            self.index(c, tmpl)

    def read_probe(self, p):
        kind = p['name']
        targs = [a['type']['qualType'] for a in kids(p, 'TemplateArgument')]
        env = {}
        for c in kids(p, 'TypeAliasDecl'):
            if c['name'] == 'facts':
                env.update(facts_of_alias(c, FACT_NAMES[kind], where(c)))
            elif c['name'] == 'elem':
                env.update(facts_of_alias(c, FACT_NAMES['ProbeT'], where(c)))
        if 'trivial' in env and env['trivial'] != (env['trivCopy'] and env['trivDflt']):
            raise Unsupported('internal: %s: std::is_trivial is %s but is_trivially_copyable && is_trivially_default_constructible is %s '
                              '(the model defines Ty.trivial as that conjunction)' % (targs, env['trivial'], env['trivCopy'] and env['trivDflt']))
        if env.get('isArray'):
            raise Unsupported('internal: %s: array element type in the grid (the model has no array element types)' % targs)
        if kind == 'Probe2':
            if env['lvalueRef'] == env['rvalueRef']:
                raise Unsupported('internal: %s: iterator_traits<InputIt>::reference is neither an lvalue nor an rvalue reference '
                                  '(the model\'s `It` cannot describe such an iterator)' % targs)
            self.facts2[(targs[0], targs[1])] = env
        desc = '%s<%s>' % (kind, ', '.join(targs))
        for mth in kids(p, 'CXXMethodDecl'):
            b = body_of(mth)
            if b is None or not mth.get('name', '').startswith('use'):
                continue
            shape = {'use_construct_copy': 'copy', 'use_construct_copy_nc': 'copy', 'use_construct_move': 'move',
                     'use_construct_value': 'value'}.get(mth['name'])
            for s in kids(b):
                e = strip_expr(s)
                if e.get('kind') != 'CallExpr':
                    raise Unsupported('internal: probe statement %s' % e.get('kind'))
                f = strip_expr(e['inner'][0])
                rd = f.get('referencedDecl', {})
                self.calls.append(Call(rd.get('name'), rd.get('id'), dict(env), shape, desc + '::' + mth['name'], e))

    # -- declarations of memory.hpp ----------------------------------------------------------------------------------

    def public(self, cname):
        """('alias', UsingDecl) | ('own', [FunctionTemplateDecl])"""
        own = [o for o in self.top if o.get('kind') == 'FunctionTemplateDecl' and o.get('name') == cname]
        using = [o for o in self.top if o.get('kind') == 'UsingDecl' and o.get('name') == 'std::' + cname]
        other = [o for o in self.top if o.get('kind') == 'UsingDecl' and o.get('name', '').split('::')[-1] == cname and o not in using]
        if other:
            raise Unsupported('%s: `using %s;` is not an alias of the std:: algorithm of the same name' % (where(other[0]), other[0].get('name')))
        if using and not own and len(using) == 1:
            return ('alias', using[0])
        if own and not using:
            return ('own', own)
        raise Unsupported('include/amc/memory.hpp (-std=%s): amc::%s is declared %d times as function template and %d times as using-declaration'
                          % (self.std, cname, len(own), len(using)))

    def detail_templates(self, name):
        return [o for o in self.details if o.get('kind') == 'FunctionTemplateDecl' and o.get('name') == name]


def pattern_of(ftd):
    for c in kids(ftd, 'FunctionDecl'):
        if not is_spec(c):
            return c
    raise Unsupported('%s: function template %s without pattern' % (where(ftd), ftd.get('name')))


def specs_of(ftd):
    return [c for c in kids(ftd, 'FunctionDecl') if is_spec(c) and body_of(c) is not None]


def tparams(ftd):
    return [c for c in kids(ftd) if c.get('kind') in ('TemplateTypeParmDecl', 'NonTypeTemplateParmDecl', 'TemplateTemplateParmDecl')]


TAGS = ('Default', 'MemMoveInALoop', 'MemMove', 'TriviallyCopyable', 'NonTriviallyCopyable', 'NonTriviallyCopyableArray')


def ctx_of_template(ftd):
    names = [p.get('name') for p in tparams(ftd)]
    known = {'InputIt', 'OutputIt', 'ForwardIt', 'T', 'Size', 'Args', 'B', None}
    for n in names:
        if n not in known:
            raise Unsupported('%s: template parameter `%s` of %s: the translator identifies the roles of the template parameters by their names '
                              '(InputIt, OutputIt, ForwardIt, T, Size, Args)' % (where(ftd), n, ftd.get('name')))
    return Ctx(where(ftd), inp='InputIt' if 'InputIt' in names else None, out='OutputIt' if 'OutputIt' in names else None,
               single='ForwardIt' if 'ForwardIt' in names else None, elem='T' if 'T' in names else None)


class Overload:
    """a function template of memory.hpp: its tag parameter, its enable_if condition"""
    def __init__(self, ftd):
        self.ftd = ftd
        self.name = ftd.get('name')
        self.line = ftd.get('_line')
        self.pattern = pattern_of(ftd)
        self.ctx = ctx_of_template(ftd)
        self.params = kids(self.pattern, 'ParmVarDecl')
        self.tag = None
        self.cond = None
        self.value_params = []
        for p in self.params:
            t = sugar(p)
            if p.get('name') is None:
                if re.fullmatch(r'((amc::)?memory_details::)?(%s)' % '|'.join(TAGS), t):
                    if self.tag is not None:
                        raise Unsupported('%s: %s has two tag parameters' % (where(ftd), self.name))
                    self.tag = t.split('::')[-1]
                    continue
                e = parse_type_expr(t, where(p))
                if isinstance(e, Q) and e.suffix == '*' and e.base() == 'std::enable_if::type' and e.segs[1][1] is not None and len(e.segs[1][1]) == 1:
                    if self.cond is not None:
                        raise Unsupported('%s: %s has two enable_if parameters' % (where(ftd), self.name))
                    self.cond = cond_of(e.segs[1][1][0], self.ctx)
                    continue
                if t not in (self.ctx.inp, self.ctx.out, self.ctx.single):
                    raise Unsupported('%s: unnamed parameter of type `%s` of %s is neither a tag, an enable_if nor an iterator' % (where(p), t, self.name))
            self.value_params.append(p)

    def disc(self):
        if self.tag is not None:
            return self.tag
        if self.cond is not None:
            c = self.cond
            neg = False
            if c[0] == 'not':
                neg, c = True, c[1]
            if c[0] != 'atom':
                raise Unsupported('%s: the enable_if condition of %s is not a (negated) trait' % (where(self.ftd), self.name))
            return ('-' if neg else '+') + c[1]
        return None


# ----------------------------------------------------------------------------------------------------------------------
# priority 1: the dispatch
# ----------------------------------------------------------------------------------------------------------------------

class Factory:
    """memory_details::ImplModeFactory<InputIt, OutputIt, IsMemMovePossible>::type as a decision tree over the tags"""
    PARAMS = ['isPointerIn', 'isPointerOut', 'memMovePossible', 'sameType', 'lvalueRef']

    def __init__(self, unit):
        decls = [o for o in unit.details if o.get('name') == 'ImplModeFactory']
        if len(decls) != 1 or decls[0].get('kind') != 'ClassTemplateDecl':
            raise Unsupported('include/amc/memory.hpp (-std=%s): expected exactly one class template memory_details::ImplModeFactory '
                              '(no partial or explicit specialisation), found %s' % (unit.std, [(d.get('kind'), where(d)) for d in decls]))
        self.decl = d = decls[0]
        names = [p.get('name') for p in tparams(d)]
        if names != ['InputIt', 'OutputIt', 'IsMemMovePossible']:
            raise Unsupported('%s: template parameters of ImplModeFactory are %s, expected InputIt, OutputIt, IsMemMovePossible' % (where(d), names))
        rec = [c for c in kids(d, 'CXXRecordDecl')]
        if len(rec) != 1:
            raise Unsupported('%s: ImplModeFactory: no pattern' % where(d))
        typedefs = {}
        for c in kids(rec[0]):
            k = c.get('kind')
            if k in ('TypeAliasDecl', 'TypedefDecl'):
                typedefs[c['name']] = parse_type_expr(sugar(c), where(c))
            elif k == 'CXXRecordDecl' and c.get('isImplicit'):
                continue
            else:
                raise Unsupported('%s: member %s %s of ImplModeFactory (only typedefs are expected)' % (where(c), k, c.get('name')))
        if 'type' not in typedefs:
            raise Unsupported('%s: ImplModeFactory has no member typedef `type`' % where(d))
        self.line = d.get('_locline')
        ctx = Ctx(where(d), inp='InputIt', out='OutputIt', aliases={k: v for k, v in typedefs.items() if k != 'type'},
                  nttp=['IsMemMovePossible'])
        self.tree = tree_of(typedefs['type'], ctx, typedefs, lambda n: n if n in MODES else None)
        for c in tree_conds(self.tree):
            bad = cond_atoms(c) - set(self.PARAMS)
            if bad:
                raise Unsupported('%s: ImplModeFactory tests %s (only iterator traits and IsMemMovePossible are expected)' % (where(d), sorted(bad)))
        # the instantiations
        self.specs = []
        for c in kids(d, 'ClassTemplateSpecializationDecl'):
            ta = kids(c, 'TemplateArgument')
            ty = [x for x in kids(c, 'TypedefDecl') + kids(c, 'TypeAliasDecl') if x.get('name') == 'type']
            if len(ta) != 3 or not ty:
                continue
            self.specs.append((ta[0]['type']['qualType'], ta[1]['type']['qualType'], bool(ta[2].get('value')), qt(ty[0]).split('::')[-1], c))

    def eval(self, env):
        t = self.tree
        while t[0] == 'if':
            t = t[2] if cond_eval(t[1], env) else t[3]
        return t[1]

    def check(self, unit, cover):
        for i, o, b, tag, node in self.specs:
            if (i, o) not in unit.facts2:
                raise Unsupported('internal: ImplModeFactory<%s, %s, %s> instantiated outside the grid' % (i, o, b))
            env = dict(unit.facts2[(i, o)], memMovePossible=b)
            got = self.eval(env)
            if got != tag:
                raise Unsupported('%s: -std=%s: clang computes ImplModeFactory<%s, %s, %s>::type = %s but the translated condition tree gives %s'
                                  % (where(self.decl), unit.std, i, o, str(b).lower(), tag, got))
            cover.setdefault(('ImplModeFactory', tag), True)
            for a in self.PARAMS:
                cover[('ImplModeFactory', a, env[a])] = True

    def lean(self):
        names = {a: a for a in self.PARAMS}

        def go(t, ind):
            if t[0] == 'leaf':
                return [ind + MODE_LEAN[t[1]]]
            out = [ind + 'if %s then' % cond_lean(t[1], names)]
            out += go(t[2], ind + '  ')
            e = go(t[3], ind + '  ')
            if len(e) == 1:
                out.append(ind + 'else ' + e[0].strip())
            else:
                out.append(ind + 'else')
                out += e
            return out
        return '\n'.join(go(self.tree, '  '))


class Leaf:
    """a leaf of a dispatch tree: an overload (function template or functor call operator) of memory.hpp"""
    def __init__(self, name, disc, decl, ov=None):
        self.name, self.disc, self.decl, self.ov = name, disc, decl, ov
        self.key = (name, disc)

    def __repr__(self):
        return 'Leaf(%s, %s @%s)' % (self.name, self.disc, self.decl.get('_locline'))


def complementary(a, b):
    return a == ('not', b) or b == ('not', a)


def is_typedef_stmt(s):
    if s.get('kind') != 'DeclStmt' or len(kids(s)) != 1:
        return None
    d = kids(s)[0]
    return d if d.get('kind') in ('TypedefDecl', 'TypeAliasDecl') else None


def tag_dispatch_of(unit, ov):
    """the pattern  `typedef <type expr> ImplMode; return F(params..., ImplMode());`  -> dispatch tree, or None"""
    body = body_of(ov.pattern)
    stmts = kids(body)
    if len(stmts) != 2 or is_typedef_stmt(stmts[0]) is None or stmts[1].get('kind') != 'ReturnStmt':
        return None
    td = is_typedef_stmt(stmts[0])
    call = strip_expr(kids(stmts[1])[0])
    if call.get('kind') != 'CallExpr':
        return None
    callee, args = call['inner'][0], call['inner'][1:]
    if callee.get('kind') != 'UnresolvedLookupExpr' or not args or args[-1].get('kind') != 'CXXUnresolvedConstructExpr' \
            or sugar(args[-1]) != td['name']:
        return None
    pnames = [p.get('name') for p in ov.value_params]
    anames = []
    for a in args[:-1]:
        a = strip_expr(a)
        if a.get('kind') != 'DeclRefExpr' or a['referencedDecl'].get('kind') != 'ParmVarDecl':
            raise Unsupported('%s: %s: argument of the tag call is not a parameter' % (where(a), ov.name))
        anames.append(a['referencedDecl'].get('name'))
    if anames != pnames:
        raise Unsupported('%s: %s passes %s to %s (expected its parameters %s in order)' % (where(call), ov.name, anames, callee.get('name'), pnames))
    cands = {}
    for l in callee.get('lookups', []):
        f = unit.by_id.get(l.get('id'))
        if f is None or f not in unit.details:
            raise Unsupported('%s: %s: candidate %s of the tag call is not a function template of memory_details' % (where(call), ov.name, l.get('name')))
        o = Overload(f)
        if o.tag is None or o.tag in cands or o.cond is not None:
            raise Unsupported('%s: overload of %s without (or with a repeated) tag parameter' % (where(f), o.name))
        if [sugar(p) for p in o.value_params] != [sugar(p) for p in ov.value_params]:
            raise Unsupported('%s: %s does not take the parameters of %s' % (where(f), o.name, ov.name))
        cands[o.tag] = o
    t = tree_of(parse_type_expr(sugar(td), where(td)), ov.ctx, {}, lambda n: n if n in MODES else None)

    def conv(t):
        if t[0] == 'if':
            return ('if', t[1], conv(t[2]), conv(t[3]))
        if t[0] == 'mode':
            if set(cands) != set(MODES):
                raise Unsupported('%s: %s has overloads for the tags %s, expected %s' % (where(call), callee.get('name'), sorted(cands), MODES))
            return ('match', t[1], {m: ('leaf', Leaf(cands[m].name, m, cands[m].ftd, cands[m])) for m in MODES})
        if t[1] not in cands:
            raise Unsupported('%s: %s has no overload for the tag %s' % (where(call), callee.get('name'), t[1]))
        return ('leaf', Leaf(cands[t[1]].name, t[1], cands[t[1]].ftd, cands[t[1]]))
    return conv(t)


class Public:
    """what `amc::<cname>` is under one standard"""
    def __init__(self, unit, cname):
        self.unit, self.cname = unit, cname
        kind, x = unit.public(cname)
        self.kind = kind
        self.functor = False
        if kind == 'alias':
            self.using = x
            self.tree = None
            return
        ovs = [Overload(f) for f in x]
        self.ovs = ovs
        if len(ovs) == 2:
            a, b = ovs
            if a.cond is None or b.cond is None or not complementary(a.cond, b.cond) or a.tag or b.tag:
                raise Unsupported('%s: the two overloads of amc::%s are not selected by complementary enable_if conditions' % (where(x[0]), cname))
            pos, neg = (b, a) if a.cond[0] == 'not' else (a, b)
            self.tree = ('if', pos.cond, ('leaf', Leaf(cname, pos.disc(), pos.ftd, pos)), ('leaf', Leaf(cname, neg.disc(), neg.ftd, neg)))
        elif len(ovs) == 1:
            ov = ovs[0]
            if ov.cond is not None or ov.tag is not None:
                raise Unsupported('%s: amc::%s is a single overload with an enable_if / tag parameter' % (where(x[0]), cname))
            t = tag_dispatch_of(unit, ov)
            if t is not None:
                self.tree = t
            elif cname == 'construct_at':
                self.functor = True
                self.tree = None
            else:
                self.tree = ('leaf', Leaf(cname, None, ov.ftd, ov))
        else:
            raise Unsupported('%s: amc::%s has %d overloads' % (where(x[0]), cname, len(ovs)))
        if self.tree is not None:
            self.tree = tree_simplify(self.tree, {'isArray': False})

    def predict(self, env, factory):
        t = self.tree
        while t[0] != 'leaf':
            if t[0] == 'if':
                t = t[2] if cond_eval(t[1], env) else t[3]
            else:
                t = t[2][factory.eval(dict(env, memMovePossible=cond_eval(t[1], env)))]
        return t[1]

    def check(self, factory, cover):
        """every call of the grid selects the overload the tree predicts"""
        unit = self.unit
        n = 0
        for c in unit.calls:
            if c.cname != self.cname:
                continue
            n += 1
            if self.kind == 'alias':
                if c.callee_id in unit.by_id:
                    raise Unsupported('internal: %s calls a declaration of memory.hpp although amc::%s is an alias under -std=%s' % (c.desc, self.cname, unit.std))
                continue
            spec = unit.by_id.get(c.callee_id)
            if spec is None or unit.tmpl_of.get(c.callee_id) is None:
                raise Unsupported('internal: %s: callee of amc::%s not found in the AST (-std=%s)' % (c.desc, self.cname, unit.std))
            if self.functor:
                continue
            leaf = self.predict(c.env, factory)
            if len(self.ovs) == 2 or self.tree[0] == 'leaf':
                actual = unit.tmpl_of[c.callee_id]
            else:
                actual = self.selected_impl(spec, c)
            if actual is not leaf.decl:
                raise Unsupported('%s: -std=%s: for %s clang selects the overload at line %s but the translated dispatch predicts %s at line %s (facts %s)'
                                  % (where(spec), unit.std, c.desc, actual.get('_locline'), leaf.name, leaf.decl.get('_locline'),
                                     {k: v for k, v in sorted(c.env.items())}))
            cover[(self.cname, leaf.key)] = True
            for cond in tree_conds(self.tree):
                for a in cond_atoms(cond):
                    cover[(self.cname, a, c.env[a])] = True
        if n == 0:
            raise Unsupported('internal: amc::%s is not called by the grid' % self.cname)

    def selected_impl(self, spec, c):
        stmts = kids(body_of(spec))
        if len(stmts) != 2 or stmts[1].get('kind') != 'ReturnStmt':
            raise Unsupported('%s: instantiated body of amc::%s has an unexpected shape' % (where(spec), self.cname))
        call = strip_expr(kids(stmts[1])[0])
        if call.get('kind') == 'CXXConstructExpr' and len(kids(call)) == 1:      # copy of the returned pair
            call = strip_expr(kids(call)[0])
        if call.get('kind') != 'CallExpr':
            raise Unsupported('%s: instantiated body of amc::%s does not return a call' % (where(spec), self.cname))
        f = strip_expr(call['inner'][0])
        t = self.unit.tmpl_of.get(f.get('referencedDecl', {}).get('id'))
        if t is None:
            raise Unsupported('%s: callee of the tag call of amc::%s not found' % (where(call), self.cname))
        return t

    def coverage_needs(self):
        """(leaf keys, atoms) the grid must exercise"""
        if self.kind == 'alias' or self.tree is None:
            return [], []
        atoms = set()
        for c in tree_conds(self.tree):
            atoms |= cond_atoms(c)
        return [l.key for l in tree_leaves(self.tree)], sorted(atoms)


PUBLIC = ['destroy_at', 'destroy', 'destroy_n', 'construct_at',
          'uninitialized_default_construct', 'uninitialized_default_construct_n',
          'uninitialized_value_construct', 'uninitialized_value_construct_n',
          'uninitialized_copy', 'uninitialized_copy_n', 'uninitialized_move', 'uninitialized_move_n',
          'uninitialized_relocate', 'uninitialized_relocate_n', 'relocate_at']


# ----------------------------------------------------------------------------------------------------------------------
# the tables that tie the source to the vocabulary of the hand-written model (Model/MemAlgo.lean)
# ----------------------------------------------------------------------------------------------------------------------

PTYPE = {'std': 'Std', 'it': 'It', 'ty': 'Ty', 'rvalue': 'Bool', 'allowed': 'Bool', 'k': 'Option Nat', 'n': 'Nat',
         'src': 'List (Slot α)', 'dst': 'List (Slot α)', 'b': 'List (Slot α)', 'dflt': 'α', 'indet': 'α', 'zero': 'α'}

R2 = ['n', 'src', 'dst']
# leaf key -> (Lean name, parameters, ranges, legality trait passed for `allowed`, composite?)
ARMS = {
    ('destroy_n', None): ('destroyN', ['n', 'b'], 1, None, False),
    ('destroy', None): ('destroy', ['n', 'b'], 1, None, False),
    ('destroy_at', '-isArray'): ('destroyAt', ['b'], 1, None, False),
    ('construct_at', 'copy'): ('constructAtCopy', ['k', 'src', 'dst'], 2, None, False),
    ('construct_at', 'move'): ('constructAtMove', ['ty', 'k', 'src', 'dst'], 2, None, False),
    ('construct_at', 'value'): ('constructAtValue', ['zero', 'k', 'b'], 1, None, False),
    ('uninitialized_default_construct_n', '-trivDflt'): ('defaultNLoop', ['dflt', 'k', 'n', 'b'], 1, None, False),
    ('uninitialized_default_construct_n', '+trivDflt'): ('defaultNTrivial', ['indet', 'n', 'b'], 1, None, False),
    ('uninitialized_default_construct', '-trivDflt'): ('defaultLoop', ['dflt', 'k', 'n', 'b'], 1, None, False),
    ('uninitialized_default_construct', '+trivDflt'): ('defaultTrivial', ['indet', 'n', 'b'], 1, None, False),
    ('uninitialized_value_construct_n', '-trivial'): ('valueNLoop', ['zero', 'k', 'n', 'b'], 1, None, False),
    ('uninitialized_value_construct_n', '+trivial'): ('valueNTrivial', ['zero', 'n', 'b'], 1, None, False),
    ('uninitialized_value_construct', '-trivial'): ('valueLoop', ['zero', 'k', 'n', 'b'], 1, None, False),
    ('uninitialized_value_construct', '+trivial'): ('valueTrivial', ['zero', 'n', 'b'], 1, None, False),
    ('uninitialized_copy_n_impl', 'Default'): ('copyNDflt', ['rvalue', 'ty', 'k'] + R2, 2, None, False),
    ('uninitialized_copy_n_impl', 'MemMoveInALoop'): ('copyNInALoop', ['allowed'] + R2, 2, 'trivCopy', False),
    ('uninitialized_copy_n_impl', 'MemMove'): ('copyNMemMove', ['allowed'] + R2, 2, 'trivCopy', False),
    ('uninitialized_copy_impl', 'Default'): ('copyDflt', ['rvalue', 'ty', 'k'] + R2, 2, None, False),
    ('uninitialized_copy_impl', 'MemMoveInALoop'): ('copyInALoop', ['allowed'] + R2, 2, 'trivCopy', False),
    ('uninitialized_copy_impl', 'MemMove'): ('copyMemMove', ['allowed'] + R2, 2, 'trivCopy', False),
    ('uninitialized_move_n_impl', 'Default'): ('moveNDflt', ['ty', 'k'] + R2, 2, None, False),
    ('uninitialized_move_n_impl', 'MemMoveInALoop'): ('moveNInALoop', ['allowed'] + R2, 2, 'trivCopy', False),
    ('uninitialized_move_n_impl', 'MemMove'): ('moveNMemMove', ['allowed'] + R2, 2, 'trivCopy', False),
    ('uninitialized_move_impl', 'Default'): ('moveDflt', ['ty', 'k'] + R2, 2, None, False),
    ('uninitialized_move_impl', 'MemMoveInALoop'): ('moveInALoop', ['allowed'] + R2, 2, 'trivCopy', False),
    ('uninitialized_move_impl', 'MemMove'): ('moveMemMove', ['allowed'] + R2, 2, 'trivCopy', False),
    ('uninitialized_relocate_n_impl', 'Default'): ('relocNDflt', ['std', 'it', 'ty', 'k'] + R2, 2, None, True),
    ('uninitialized_relocate_n_impl', 'MemMoveInALoop'): ('relocNInALoop', ['allowed'] + R2, 2, 'trivReloc', False),
    ('uninitialized_relocate_n_impl', 'MemMove'): ('relocNMemMove', ['allowed'] + R2, 2, 'trivReloc', False),
    ('uninitialized_relocate_impl', 'Default'): ('relocDflt', ['std', 'it', 'ty', 'k'] + R2, 2, None, True),
    ('uninitialized_relocate_impl', 'MemMoveInALoop'): ('relocInALoop', ['allowed'] + R2, 2, 'trivReloc', False),
    ('uninitialized_relocate_impl', 'MemMove'): ('relocMemMove', ['allowed'] + R2, 2, 'trivReloc', False),
    ('relocate_at_impl', 'Default'): ('relocateAtDflt', ['std', 'ty', 'k', 'src', 'dst'], 2, None, True),
    ('relocate_at_impl', 'MemMove'): ('relocateAtMemMove', ['allowed', 'src', 'dst'], 2, 'trivReloc', False),
}

# public algorithm (and call shape of construct_at) -> (Lean name, parameters, the specification that models std::<name>)
ALGS = [
    ('destroy_at', None, 'destroyAt', ['std', 'b'], 'Spec.destroyAt b'),
    ('destroy', None, 'destroy', ['std', 'n', 'b'], 'Spec.destroy n b'),
    ('destroy_n', None, 'destroyN', ['std', 'n', 'b'], 'Spec.destroyN n b'),
    ('construct_at', 'copy', 'constructAtCopy', ['std', 'k', 'src', 'dst'], 'Spec.constructAtCopy k src dst'),
    ('construct_at', 'move', 'constructAtMove', ['std', 'ty', 'k', 'src', 'dst'], 'Spec.constructAtMove ty k src dst'),
    ('construct_at', 'value', 'constructAtValue', ['std', 'zero', 'k', 'b'], 'Spec.constructAtValue zero k b'),
    ('uninitialized_default_construct', None, 'uninitDefault', ['std', 'ty', 'dflt', 'indet', 'k', 'n', 'b'], 'Spec.uninitDefault ty dflt indet k n b'),
    ('uninitialized_default_construct_n', None, 'uninitDefaultN', ['std', 'ty', 'dflt', 'indet', 'k', 'n', 'b'], 'Spec.uninitDefaultN ty dflt indet k n b'),
    ('uninitialized_value_construct', None, 'uninitValue', ['std', 'ty', 'zero', 'k', 'n', 'b'], 'Spec.uninitValue zero k n b'),
    ('uninitialized_value_construct_n', None, 'uninitValueN', ['std', 'ty', 'zero', 'k', 'n', 'b'], 'Spec.uninitValueN zero k n b'),
    ('uninitialized_copy', None, 'uninitCopy', ['std', 'it', 'ty', 'k'] + R2, 'Spec.uninitCopy it.rvalueRef ty k n src dst'),
    ('uninitialized_copy_n', None, 'uninitCopyN', ['std', 'it', 'ty', 'k'] + R2, 'Spec.uninitCopyN it.rvalueRef ty k n src dst'),
    ('uninitialized_move', None, 'uninitMove', ['std', 'it', 'ty', 'k'] + R2, 'Spec.uninitMove ty k n src dst'),
    ('uninitialized_move_n', None, 'uninitMoveN', ['std', 'it', 'ty', 'k'] + R2, 'Spec.uninitMoveN ty k n src dst'),
    ('uninitialized_relocate', None, 'uninitReloc', ['std', 'it', 'ty', 'k'] + R2, None),
    ('uninitialized_relocate_n', None, 'uninitRelocN', ['std', 'it', 'ty', 'k'] + R2, None),
    ('relocate_at', None, 'relocateAt', ['std', 'ty', 'k', 'src', 'dst'], None),
]
ALG_BY_NAME = {}
for _a in ALGS:
    ALG_BY_NAME.setdefault(_a[0], []).append(_a)


def arm_call(key, prefix='Arm.'):
    """the call of an arm inside a public algorithm (whose parameters are std it ty ... )"""
    if key not in ARMS:
        raise Unsupported('internal: no Lean name for the arm %s' % (key,))
    name, params, _, legal, composite = ARMS[key]
    args = []
    for p in params:
        if p == 'rvalue':
            args.append('it.rvalueRef')
        elif p == 'allowed':
            args.append(ATOMS[legal])
        else:
            args.append(p)
    return ('' if composite else prefix) + name + ' ' + ' '.join(args)


def sig(params):
    """(a b : T) (c : U) ... grouping consecutive parameters of the same type"""
    out = []
    i = 0
    while i < len(params):
        j = i
        while j + 1 < len(params) and PTYPE[params[j + 1]] == PTYPE[params[i]]:
            j += 1
        out.append('(%s : %s)' % (' '.join(params[i:j + 1]), PTYPE[params[i]]))
        i = j + 1
    return ' '.join(out)


# ----------------------------------------------------------------------------------------------------------------------
# priority 2: the arms -- translation of one instantiated body by recognising a closed set of statement shapes
# ----------------------------------------------------------------------------------------------------------------------

class Sym:
    """abstract value of a C++ expression
         it    rng off [moved]   iterator / pointer to the element `off` of the range `rng` ('src' | 'dst' | 'b')
         elem  rng off cat via   `*it` (cat: lvalue | xvalue; via: 'iter' when obtained by dereferencing an iterator whose
                                 type is a template parameter, 'ref' for a reference parameter, 'move' after std::move)
         nat   term              a count ('n', a literal)
         bytes count             `count * sizeof(V)` / `sizeof(V)` (count = '1')
         pair  a b
         res   var what          the iterator(s) returned by a call whose result is bound to the Lean variable `var`
         tag   name | zero | void"""
    def __init__(self, kind, **kw):
        self.kind = kind
        self.__dict__.update(kw)

    def __repr__(self):
        return 'Sym(%s)' % ', '.join('%s=%r' % kv for kv in sorted(self.__dict__.items()))


def off_add(a, b, loc):
    if a == '0':
        return b
    if b == '0':
        return a
    raise Unsupported('%s: iterator arithmetic %s + %s is not supported' % (loc, a, b))


STD_NAMES = ('addressof', 'move', 'forward', 'advance', 'fill', 'fill_n', 'uninitialized_copy', 'make_move_iterator', 'memcpy', 'memmove')


class ArmT:
    def __init__(self, gen, unit, key, decl, depth=0, bind_cat=None):
        self.gen, self.unit, self.key, self.decl, self.depth = gen, unit, key, decl, depth
        self.inlined = None
        if depth > 4:
            raise Unsupported('%s: calls nested too deeply' % where(decl))
        self.lean, self.params, self.ranges, self.legal, self.composite = ARMS[key]
        self.env = {}
        self.effects = []
        self.ret = None
        self.returned = False
        self.observed_cat = None       # value category of `*first` where the text says `ctorStep rvalue`
        self.prims = set()             # 'copy' (memcpy) / 'reloc' (memmove): which byte-wise primitive the body uses
        self.uses = set()
        rng1 = 'b' if self.ranges == 1 else None
        for p in kids(decl, 'ParmVarDecl'):
            n = p.get('name')
            if n is None:
                continue
            t = qt(p)
            if self.ranges == 2:
                roles = {'first': Sym('it', rng='src', off='0'), 'last': Sym('it', rng='src', off='n'), 'count': Sym('nat', term='n'),
                         'dest': Sym('it', rng='dst', off='0'), 'elem': Sym('it', rng='src', off='0'), 'pos': Sym('it', rng='dst', off='0'),
                         'v': Sym('elem', rng='src', off='0', cat='lvalue', via='ref'), 'args': Sym('elem', rng='src', off='0', cat='lvalue', via='ref')}
            else:
                roles = {'first': Sym('it', rng='b', off='0'), 'last': Sym('it', rng='b', off='n'), 'n': Sym('nat', term='n'),
                         'p': Sym('it', rng='b', off='0'), 'pos': Sym('it', rng='b', off='0')}
            if n not in roles:
                raise Unsupported('%s: parameter `%s` of %s: the translator identifies the roles of the parameters by their names (%s)'
                                  % (where(p), n, decl.get('name'), ', '.join(sorted(roles))))
            if n in ('v', 'args') and not t.endswith('&'):
                raise Unsupported('%s: parameter `%s` of %s is not a reference' % (where(p), n, decl.get('name')))
            self.env[p['id']] = roles[n]
        self.param_ids = set(self.env)

    # -- helpers -----------------------------------------------------------------------------------------------------

    def fail(self, n, msg):
        raise Unsupported('%s: %s (-std=%s, in %s, translated as %s)' % (where(n), msg, self.unit.std, self.decl.get('name'), self.lean))

    def need(self, p, n):
        if p not in self.params:
            self.fail(n, 'the body needs the model parameter `%s`, which the arm %s does not have (parameters %s)' % (p, self.lean, self.params))
        self.uses.add(p)
        return p

    def allowed(self, prim, n):
        """the Boolean that makes a byte-wise copy (memcpy) / relocation (memmove) of a T legal"""
        self.prims.add(prim)
        if 'allowed' in self.params:
            self.uses.add('allowed')
            return 'allowed'
        self.need('ty', n)
        return 'ty.trivCopy' if prim == 'copy' else 'ty.trivReloc'

    def callee(self, call):
        f = strip_expr(call['inner'][0])
        if f.get('kind') == 'DeclRefExpr':
            return f.get('referencedDecl', {})
        return {}

    # -- expressions ---------------------------------------------------------------------------------------------------

    def ev(self, e):
        e0 = e
        while e.get('kind') in ('ImplicitCastExpr', 'ParenExpr', 'ExprWithCleanups', 'MaterializeTemporaryExpr', 'CXXBindTemporaryExpr',
                                'ConstantExpr', 'CXXStaticCastExpr', 'CXXConstCastExpr', 'CXXFunctionalCastExpr'):
            if e.get('kind') in ('CXXStaticCastExpr', 'CXXConstCastExpr'):
                if 'void' not in qt(e) and e.get('castKind') not in ('NoOp',):
                    self.fail(e, 'cast to %s' % qt(e))
            if e.get('kind') == 'ImplicitCastExpr' and e.get('castKind') not in ('LValueToRValue', 'NoOp', 'BitCast', 'IntegralCast', 'FunctionToPointerDecay',
                                                                               'ConstructorConversion', 'UserDefinedConversion', 'DerivedToBase'):
                self.fail(e, 'implicit cast %s' % e.get('castKind'))
            e = e['inner'][0]
        k = e.get('kind')
        if k == 'DeclRefExpr':
            rid = e['referencedDecl'].get('id')
            if rid not in self.env:
                self.fail(e, 'reference to `%s`, which is not a parameter or a known local' % e['referencedDecl'].get('name'))
            return self.env[rid]
        if k == 'CXXDefaultArgExpr':
            return Sym('tag', name='<default argument>')      # the `enable_if<...>::type * = nullptr` parameters
        if k == 'IntegerLiteral':
            return Sym('nat', term=str(e.get('value')))
        if k == 'UnaryExprOrTypeTraitExpr' and e.get('name') == 'sizeof':
            at = e.get('argType', {})
            return Sym('bytes', count='1', of=at.get('desugaredQualType', at.get('qualType')))
        if k in ('CXXScalarValueInitExpr',) or (k == 'CXXTemporaryObjectExpr' and not kids(e)) or \
                (k == 'CXXConstructExpr' and not kids(e)):
            t = qt(e).split('::')[-1]
            if t in TAGS:
                return Sym('tag', name=t)
            return Sym('zero')
        if k in ('CXXConstructExpr', 'CXXTemporaryObjectExpr'):
            args = kids(e)
            if qt(e).startswith('std::pair<') and len(args) == 2:
                return Sym('pair', a=self.ev(args[0]), b=self.ev(args[1]))
            if len(args) == 1:
                return self.ev(args[0])          # copy / move of an iterator or a pair
            self.fail(e, 'construction of a %s from %d arguments' % (qt(e), len(args)))
        if k == 'UnaryOperator' and e.get('opcode') == '*':
            return self.deref(self.ev(e['inner'][0]), e)
        if k == 'UnaryOperator' and e.get('opcode') == '&':
            x = self.ev(e['inner'][0])
            if x.kind == 'elem':
                return Sym('it', rng=x.rng, off=x.off)
            self.fail(e, 'address of a non-element')
        if k == 'BinaryOperator' and e.get('opcode') in ('+', '-', '*'):
            a, b = self.ev(e['inner'][0]), self.ev(e['inner'][1])
            op = e['opcode']
            if op == '+' and a.kind == 'it' and b.kind == 'nat':
                return Sym('it', rng=a.rng, off=off_add(a.off, b.term, where(e)))
            if op == '-' and a.kind == 'it' and b.kind == 'it' and a.rng == b.rng and b.off == '0':
                return Sym('nat', term=a.off)
            if op == '*' and a.kind == 'nat' and b.kind == 'bytes' and b.count == '1':
                return Sym('bytes', count=a.term, of=b.of)
            self.fail(e, 'arithmetic %s %s %s' % (a, op, b))
        if k == 'CXXOperatorCallExpr':
            rd = self.callee(e)
            args = e['inner'][1:]
            if rd.get('name') == 'operator*' and len(args) == 1:
                return self.deref(self.ev(args[0]), e)
            self.fail(e, 'overloaded operator %s in an expression' % rd.get('name'))
        if k == 'CallExpr':
            rd = self.callee(e)
            name = rd.get('name')
            args = e['inner'][1:]
            if rd.get('id') not in self.unit.by_id and name in ('addressof', '__addressof') and len(args) == 1:
                x = self.ev(args[0])
                if x.kind != 'elem':
                    self.fail(e, 'std::addressof of a non-element')
                return Sym('it', rng=x.rng, off=x.off)
            if rd.get('id') not in self.unit.by_id and name in ('move', 'forward') and len(args) == 1:
                x = self.ev(args[0])
                if x.kind != 'elem':
                    self.fail(e, 'std::%s of a non-element' % name)
                cat = e.get('valueCategory')
                if cat not in ('lvalue', 'xvalue'):
                    self.fail(e, 'std::%s yields a %s' % (name, cat))
                return Sym('elem', rng=x.rng, off=x.off, cat=cat, via='move' if cat == 'xvalue' else x.via)
            if rd.get('id') not in self.unit.by_id and name == 'make_move_iterator' and len(args) == 1:
                x = self.ev(args[0])
                if x.kind != 'it':
                    self.fail(e, 'std::make_move_iterator of a non-iterator')
                return Sym('it', rng=x.rng, off=x.off, moved=True)
            return self.call_value(e)
        self.fail(e0, 'expression %s' % k)

    def deref(self, x, e):
        if x.kind != 'it':
            self.fail(e, 'dereference of a non-iterator')
        cat = e.get('valueCategory')
        if cat not in ('lvalue', 'xvalue'):
            self.fail(e, 'dereferencing the iterator yields a %s (the model knows iterators whose `reference` is an lvalue or rvalue reference)' % cat)
        return Sym('elem', rng=x.rng, off=x.off, cat=cat, via='iter')

    def call_value(self, e):
        """a call whose VALUE is used: a sibling arm / a public algorithm"""
        eff = self.call_effect(e)
        if eff is None:
            self.fail(e, 'call of `%s` in an expression' % self.callee(e).get('name'))
        self.effects.append(eff)
        return eff['result']

    # -- calls with an effect on the ranges --------------------------------------------------------------------------------

    def whole_ranges(self, args, two, e, what):
        """the arguments designate the whole source (and destination) range(s), from their first element"""
        vals = [self.ev(a) for a in args]
        vals = [v for v in vals if v.kind != 'tag']
        def first_of(v, rng):
            return v.kind == 'it' and v.rng == rng and v.off == '0'
        def len_of(v, rng):
            return (v.kind == 'nat' and v.term == 'n') or (v.kind == 'it' and v.rng == rng and v.off == 'n')
        src = 'src' if self.ranges == 2 else 'b'
        ok = False
        if two and len(vals) == 3:
            ok = first_of(vals[0], src) and len_of(vals[1], src) and first_of(vals[2], 'dst')
        elif not two and len(vals) == 2:
            ok = first_of(vals[0], src) and len_of(vals[1], src)
        if not ok:
            self.fail(e, '%s is not called on the whole range(s) of the enclosing function (arguments %s)' % (what, vals))
        return vals

    def call_effect(self, e):
        rd = self.callee(e)
        name, cid = rd.get('name'), rd.get('id')
        args = e['inner'][1:]
        unit = self.unit
        tm = unit.tmpl_of.get(cid)
        # construct_at_impl(pos, v, tag) from the call operator of the construct_at functor: the callee's body is inlined
        if tm is not None and tm in unit.details and tm.get('kind') == 'FunctionTemplateDecl' and name == 'construct_at_impl' \
                and self.key[0] == 'construct_at':
            vals = [self.ev(a) for a in args]
            ok = len(vals) == 3 and vals[0].kind == 'it' and (vals[0].rng, vals[0].off) == ('dst', '0') and vals[1].kind == 'elem' \
                and (vals[1].rng, vals[1].off) == ('src', '0') and vals[2].kind == 'tag'
            if not ok or self.effects:
                self.fail(e, 'construct_at_impl is not called as (pos, v, tag)')
            sub = self.gen.translate_spec(unit, self.key, unit.by_id[cid], self.depth + 1, bind_cat=vals[1].cat)
            if sub.ret is not None and sub.ret.kind != 'void':
                self.fail(e, 'construct_at_impl returns a value')
            self.uses |= sub.uses
            self.inlined = (Overload(tm), vals[2].name)
            for x in sub.effects[:-1]:
                self.effects.append(x)
            if not sub.effects:
                self.fail(e, 'construct_at_impl has no effect')
            last = dict(sub.effects[-1]); last['result'] = Sym('void')
            return last
        # sibling arm of memory_details
        if tm is not None and tm in unit.details and tm.get('kind') == 'FunctionTemplateDecl':
            ov = Overload(tm)
            key = (ov.name, ov.disc())
            if key not in ARMS:
                self.fail(e, 'call of memory_details::%s [%s], which has no counterpart in the model' % key)
            lean, params, ranges, legal, composite = ARMS[key]
            if composite or ranges != self.ranges or not set(params) <= set(self.params) or legal != self.legal:
                self.fail(e, 'call of %s from %s: incompatible parameters' % (lean, self.lean))
            if ranges == 2 and len([p for p in params if p in ('n',)]) == 1:
                self.whole_ranges(args, True, e, 'memory_details::' + ov.name)
            else:
                self.fail(e, 'call of %s: unsupported arm shape' % lean)
            for p in params:
                self.uses.add(p)
            self.gen.want_arm(unit, key, tm)
            var = 'r'
            returns_pair = qt(e).startswith('std::pair<')
            res = Sym('pair', a=Sym('it', rng='src', off='s'), b=Sym('it', rng='dst', off='d')) if returns_pair else Sym('it', rng='dst', off='d')
            return {'kind': 'arm', 'term': '%s %s' % (lean, ' '.join(params)), 'result': res, 'node': e}
        # public algorithm of namespace amc (own implementation or alias of std::)
        is_amc = (tm is not None and tm in unit.top) or (cid not in unit.by_id and name in PUBLIC and unit.public(name)[0] == 'alias'
                                                          and rd_is_via_amc(strip_expr(e['inner'][0])))
        if is_amc and name in PUBLIC:
            return self.public_call(e, name, args)
        # std:: algorithms with a hand-written model
        if cid not in unit.by_id and name == 'uninitialized_copy' and self.ranges == 2:
            vals = self.whole_ranges(args, True, e, 'std::uninitialized_copy')
            moved = [bool(getattr(v, 'moved', False)) for v in vals[:2]]
            if moved[0] != moved[1] or getattr(vals[2], 'moved', False):
                self.fail(e, 'std::uninitialized_copy: only one of first / last is a move_iterator')
            rv = 'true' if moved[0] else self.need('rvalue', e)
            if not moved[0]:
                self.observed_cat = 'iter'
            self.need('ty', e); self.need('k', e)
            return {'kind': 'std', 'term': 'stdUninitializedCopy %s ty k n src dst' % rv, 'result': Sym('it', rng='dst', off='d'), 'node': e}
        if cid not in unit.by_id and name in ('fill_n', 'fill') and self.ranges == 1:
            vals = [self.ev(a) for a in args]
            if len(vals) != 3 or vals[2].kind != 'zero':
                self.fail(e, 'std::%s: the value is not a value-initialised temporary' % name)
            self.whole_ranges(args[:2], False, e, 'std::' + name)
            self.need('zero', e)
            return {'kind': 'std', 'term': 'std%s zero n b' % {'fill_n': 'FillN', 'fill': 'Fill'}[name],
                    'result': Sym('it', rng='b', off='d') if name == 'fill_n' else Sym('void'), 'node': e}
        return None

    def public_call(self, e, name, args):
        """amc::<public algorithm>(...) inside a composite arm"""
        if not self.composite:
            self.fail(e, 'call of the public algorithm amc::%s from an arm that is not a composite of the model' % name)
        vals = [v for v in (self.ev(a) for a in args) if v.kind != 'tag']
        prev = [x for x in self.effects if x['kind'] == 'alg']
        if len(prev) >= 2:
            self.fail(e, 'more than two calls of public algorithms')
        srcbuf = 'r.src' if prev else 'src'
        algs = ALG_BY_NAME[name]
        if name == 'construct_at':
            if len(vals) == 2 and vals[0].kind == 'it' and (vals[0].rng, vals[0].off) == ('dst', '0') and vals[1].kind == 'elem' \
                    and (vals[1].rng, vals[1].off, vals[1].cat, vals[1].via) == ('src', '0', 'xvalue', 'move') and not prev:
                alg = [a for a in algs if a[1] == 'move'][0]
                res = Sym('it', rng='dst', off='0')
                term = '%s std ty k src dst' % alg[2]
            else:
                self.fail(e, 'amc::construct_at with arguments %s' % vals)
        else:
            alg = algs[0]
            two = 'src' in alg[3]
            if two:
                if prev:
                    self.fail(e, 'a two-range algorithm after another call')
                self.whole_ranges(args, True, e, 'amc::' + name)
                term = '%s %s' % (alg[2], ' '.join(alg[3]))
                rp = qt(e).startswith('std::pair<')
                res = Sym('pair', a=Sym('it', rng='src', off='s'), b=Sym('it', rng='dst', off='d')) if rp else Sym('it', rng='dst', off='d')
            else:
                # a one-range algorithm applied to the source range
                ok = (len(vals) == 2 and vals[0].kind == 'it' and (vals[0].rng, vals[0].off) == ('src', '0')
                      and ((vals[1].kind == 'nat' and vals[1].term == 'n') or (vals[1].kind == 'it' and (vals[1].rng, vals[1].off) == ('src', 'n')))) \
                    or (len(vals) == 1 and vals[0].kind == 'it' and (vals[0].rng, vals[0].off) == ('src', '0') and 'n' not in alg[3])
                if not ok or not prev:
                    self.fail(e, 'amc::%s is not applied to the whole source range after the construction (arguments %s)' % (name, vals))
                extra = [p for p in alg[3] if p not in ('std', 'n', 'b')]
                if extra:
                    self.fail(e, 'amc::%s needs the model parameters %s' % (name, extra))
                term = '%s %s' % (alg[2], ' '.join(srcbuf if p == 'b' else p for p in alg[3]))
                res = Sym('void')
        for p in alg[3]:
            if p in self.params:
                self.uses.add(p)
        self.gen.want_alg(name)
        return {'kind': 'alg', 'term': term, 'result': res, 'node': e, 'two': 'src' in alg[3]}

    # -- element operations (loop bodies, one-element functions) ---------------------------------------------------------

    def elem_op(self, s):
        """(arity, step text) of a statement acting on one element (of each range), or None"""
        e = strip_expr(s)
        k = e.get('kind')
        unit = self.unit
        if k == 'CStyleCastExpr' and e.get('castKind') == 'ToVoid':
            return self.elem_op(e['inner'][0])
        if k == 'CXXNewExpr':
            if not e.get('isPlacement'):
                self.fail(e, 'non-placement new')
            sub = kids(e)
            place = [self.ev_place(x) for x in sub if self.is_place(x)]
            inits = [x for x in sub if not self.is_place(x)]
            if len(place) != 1 or len(inits) > 1:
                self.fail(e, 'placement new with %d placement arguments' % len(place))
            d = place[0]
            args = self.ctor_args(inits[0]) if inits else []
            if e.get('initStyle') is None:
                if args:
                    self.fail(e, 'default-initialising new with arguments')
                self.need('dflt', e); self.need('k', e)
                return (1, 'initStep dflt k', d, None)
            if e.get('initStyle') != 'call':
                self.fail(e, 'new with initialisation style %s' % e.get('initStyle'))
            if not args:
                self.need('zero', e); self.need('k', e)
                return (1, 'initStep zero k', d, None)
            if len(args) == 1 and args[0].kind == 'elem':
                return (2,) + self.ctor_step(args[0], e) + (d, args[0])
            self.fail(e, 'placement new with arguments %s' % args)
        if k in ('CXXMemberCallExpr', 'CallExpr') and kids(e) and strip_expr(e['inner'][0]).get('kind') in ('MemberExpr', 'CXXPseudoDestructorExpr'):
            f = strip_expr(e['inner'][0])
            if f.get('kind') == 'CXXPseudoDestructorExpr' or (f.get('name') or '').startswith('~'):
                x = self.ev(f['inner'][0])
                if x.kind != 'it':
                    self.fail(e, 'destructor call on a non-pointer')
                return (1, 'destroyStep', x, None)
            self.fail(e, 'member call %s' % f.get('name'))
        if k == 'CallExpr':
            rd = self.callee(e)
            name, cid = rd.get('name'), rd.get('id')
            args = e['inner'][1:]
            tm = unit.tmpl_of.get(cid)
            if cid not in unit.by_id and name in ('memcpy', 'memmove'):
                d, s_, sz = [self.ev(a) for a in args]
                if d.kind != 'it' or s_.kind != 'it' or sz.kind != 'bytes' or d.rng != 'dst' or s_.rng != 'src':
                    self.fail(e, 'std::%s(%s, %s, %s): not a copy from the source range to the destination range' % (name, d, s_, sz))
                pointee = self.pointee(args[0])
                if sz.of is None or pointee is None or sz.of.replace('const ', '') != pointee.replace('const ', ''):
                    self.fail(e, 'std::%s: the size is a multiple of sizeof(%s) but the destination elements are %s' % (name, sz.of, pointee))
                prim = 'copy' if name == 'memcpy' else 'reloc'
                al = self.allowed(prim, e)
                return ('bulk', prim, al, d, s_, sz.count)
            if tm is not None and tm in unit.top and name == 'construct_at':
                vals = [self.ev(a) for a in args]
                if len(vals) == 1 and vals[0].kind == 'it':
                    self.need('zero', e); self.need('k', e)
                    return (1, 'initStep zero k', vals[0], None)
                if len(vals) == 2 and vals[0].kind == 'it' and vals[1].kind == 'elem':
                    return (2,) + self.ctor_step(vals[1], e) + (vals[0], vals[1])
                self.fail(e, 'amc::construct_at with arguments %s' % vals)
            if tm is not None and (tm in unit.top or tm in unit.details) and name in ('destroy_at', 'relocate_at_impl'):
                ov = Overload(tm)
                key = (ov.name, ov.disc())
                if key not in ARMS:
                    self.fail(e, 'call of %s [%s], which has no counterpart in the model' % key)
                sub = self.gen.translate_spec(unit, key, unit.by_id[cid], self.depth + 1)
                vals = [v for v in (self.ev(a) for a in args) if v.kind != 'tag']
                if key == ('destroy_at', '-isArray') and sub.shape() == ('single', 1, 'destroyStep') and len(vals) == 1 and vals[0].kind == 'it':
                    return (1, 'destroyStep', vals[0], None)
                if key == ('relocate_at_impl', 'MemMove') and sub.shape() == ('bulk', 'reloc', '1', False) and len(vals) == 2 \
                        and vals[0].kind == 'it' and vals[1].kind == 'it' and vals[0].rng == 'src' and vals[1].rng == 'dst':
                    return (2, 'bitRelocStep %s' % self.allowed('reloc', e), vals[1], vals[0])
                self.fail(e, 'call of %s whose body is not the single-element operation the model knows (%s)' % (ov.name, sub.shape()))
        return None

    def pointee(self, x):
        """the element type of a pointer argument that is converted to void*"""
        while True:
            t = qt(x)
            if t.endswith('*') and 'void' not in t:
                return t[:-1].strip()
            if x.get('kind') in ('ImplicitCastExpr', 'CXXStaticCastExpr', 'CXXConstCastExpr', 'ParenExpr') and kids(x):
                x = kids(x)[0]
                continue
            return None

    def is_place(self, x):
        return x.get('kind') in ('CXXStaticCastExpr', 'CXXConstCastExpr', 'ImplicitCastExpr') and 'void' in qt(x)

    def ev_place(self, x):
        v = self.ev(x)
        if v.kind != 'it':
            self.fail(x, 'placement argument is not a pointer to an element')
        return v

    def ctor_args(self, init):
        e = init
        if e.get('kind') == 'ParenListExpr':
            return [self.ev(a) for a in kids(e)]
        if e.get('kind') in ('CXXConstructExpr',):
            return [self.ev(a) for a in kids(e)]
        if e.get('kind') in ('ImplicitValueInitExpr', 'CXXScalarValueInitExpr'):
            return []
        return [self.ev(e)]

    def ctor_step(self, x, e):
        """the construction of an object from the element x"""
        self.need('k', e)
        if x.via == 'iter':
            self.need('rvalue', e); self.need('ty', e)
            self.observed_cat = x.cat
            return ('ctorStep rvalue ty k',)
        if x.cat == 'xvalue':
            self.need('ty', e)
            return ('moveStep ty k',)
        return ('copyStep k',)

    # -- statements ------------------------------------------------------------------------------------------------------

    def run(self):
        body = body_of(self.decl)
        if body is None:
            self.fail(self.decl, 'no body')
        self.block(kids(body), top=True)
        return self

    def block(self, stmts, top=False, in_try=False):
        for s in stmts:
            if self.returned:
                self.fail(s, 'statement after return')
            k = s.get('kind')
            if is_typedef_stmt(s) is not None:
                continue                                   # type aliases carry no behaviour; the types are resolved in the instantiation
            if k == 'DeclStmt':
                for d in kids(s):
                    if d.get('kind') != 'VarDecl' or len(kids(d)) != 1:
                        self.fail(d, 'declaration %s' % d.get('kind'))
                    self.env[d['id']] = self.ev(kids(d)[0])
                continue
            if k == 'CXXTryStmt':
                self.try_stmt(s)
                continue
            if k == 'ForStmt':
                self.for_stmt(s, guarded=in_try)
                continue
            if k == 'IfStmt':
                self.if_stmt(s)
                continue
            if k == 'ReturnStmt':
                if kids(s) and strip_expr(kids(s)[0]).get('kind') == 'CXXNewExpr':
                    op = self.elem_op(kids(s)[0])
                    self.expr_stmt(kids(s)[0])
                    self.ret = op[2]                      # placement new returns its placement argument
                else:
                    self.ret = self.ev(kids(s)[0]) if kids(s) else Sym('void')
                self.returned = True
                continue
            if k == 'NullStmt':
                continue
            self.expr_stmt(s)

    def expr_stmt(self, s):
        e = strip_expr(s)
        k = e.get('kind')
        if k == 'CXXOperatorCallExpr' and self.callee(e).get('name') == 'operator=' and len(e['inner']) == 3:
            e = {'kind': 'BinaryOperator', 'opcode': '=', 'inner': e['inner'][1:], '_file': e.get('_file'), '_line': e.get('_line')}
            k = 'BinaryOperator'
        if k == 'BinaryOperator' and e.get('opcode') == '=':
            lhs = strip_expr(e['inner'][0])
            if lhs.get('kind') != 'DeclRefExpr' or lhs['referencedDecl'].get('id') not in self.env:
                self.fail(e, 'assignment to something that is not a parameter or local')
            self.env[lhs['referencedDecl']['id']] = self.ev(e['inner'][1])
            return
        if k == 'CallExpr':
            rd = self.callee(e)
            if rd.get('id') not in self.unit.by_id and rd.get('name') == 'advance':
                args = e['inner'][1:]
                tgt = strip_expr(args[0])
                x, d = self.ev(args[0]), self.ev(args[1])
                if tgt.get('kind') != 'DeclRefExpr' or x.kind != 'it' or d.kind != 'nat':
                    self.fail(e, 'std::advance(%s, %s)' % (x, d))
                self.env[tgt['referencedDecl']['id']] = Sym('it', rng=x.rng, off=off_add(x.off, d.term, where(e)))
                return
            eff = self.call_effect(e)
            if eff is not None:
                self.effects.append(eff)
                return
        op = self.elem_op(s)
        if op is None:
            self.fail(e, 'statement %s%s is not one of the shapes the translator knows' % (k, ' (call of %s)' % self.callee(e).get('name') if k == 'CallExpr' else ''))
        if self.effects:
            self.fail(e, 'an element operation after another effect')
        if op[0] == 'bulk':
            _, prim, al, d, s_, count = op
            if d.off != '0' or s_.off != '0':
                self.fail(e, 'byte copy that does not start at the first elements')
            self.effects.append({'kind': 'bulk', 'prim': prim, 'allowed': al, 'count': count, 'cond': False, 'node': e})
            return
        arity, step, d, src = op
        if d.off != '0' or (src is not None and src.off != '0') or (arity == 2 and (d.rng != 'dst' or src.rng != 'src')) or \
                (arity == 1 and d.rng != ('b' if self.ranges == 1 else d.rng)):
            self.fail(e, 'element operation on %s / %s: not the first element of the range(s)' % (d, src))
        self.effects.append({'kind': 'single', 'arity': arity, 'step': step, 'node': e})

    def if_stmt(self, s):
        parts = kids(s)
        if len(parts) != 2:
            self.fail(s, 'if with else / init')
        c = strip_expr(parts[0])
        ok = c.get('kind') == 'BinaryOperator' and c.get('opcode') == '>'
        if ok:
            a, b = self.ev(c['inner'][0]), self.ev(c['inner'][1])
            ok = a.kind == 'nat' and a.term == 'n' and b.kind == 'nat' and b.term == '0'
        if not ok:
            self.fail(s, 'if condition is not `count > 0`')
        inner = kids(parts[1]) if parts[1].get('kind') == 'CompoundStmt' else [parts[1]]
        inner = [x for x in inner if is_typedef_stmt(x) is None]
        if len(inner) != 1 or self.effects:
            self.fail(s, '`if (count > 0)` does not guard exactly one statement')
        op = self.elem_op(inner[0])
        if op is None or op[0] != 'bulk':
            self.fail(inner[0], 'the statement guarded by `count > 0` is not a memcpy / memmove')
        _, prim, al, d, s_, count = op
        if d.off != '0' or s_.off != '0' or count != 'n':
            self.fail(inner[0], 'the guarded byte copy does not cover the whole ranges (%s, %s, %s elements)' % (d, s_, count))
        self.effects.append({'kind': 'bulk', 'prim': prim, 'allowed': al, 'count': 'n', 'cond': True, 'node': s})

    def inc_list(self, e, out):
        e = strip_expr(e)
        k = e.get('kind')
        if k == 'BinaryOperator' and e.get('opcode') == ',':
            self.inc_list(e['inner'][0], out); self.inc_list(e['inner'][1], out); return
        if k == 'CStyleCastExpr' and e.get('castKind') == 'ToVoid':
            self.inc_list(e['inner'][0], out); return
        if k == 'CXXScalarValueInitExpr' and qt(e) == 'void':
            return                                                        # `void()` between two increments
        if k == 'UnaryOperator' and e.get('opcode') in ('++', '--') and not e.get('isPostfix'):
            t = strip_expr(e['inner'][0])
            if t.get('kind') == 'DeclRefExpr':
                out.append((e['opcode'], t['referencedDecl']['id'], e)); return
        if k == 'CXXOperatorCallExpr' and self.callee(e).get('name') == 'operator++' and len(e['inner']) == 2:
            t = strip_expr(e['inner'][1])
            if t.get('kind') == 'DeclRefExpr':
                out.append(('++', t['referencedDecl']['id'], e)); return
        self.fail(e, 'loop increment %s' % k)

    def for_stmt(self, s, guarded):
        init, condvar, cond, inc, body = s['inner']
        if init.get('kind') or condvar.get('kind'):
            self.fail(s, 'for loop with an init statement')
        if self.effects:
            self.fail(s, 'loop after another effect')
        c = strip_expr(cond)
        count_id = None
        it_cond = None
        if c.get('kind') == 'CXXRewrittenBinaryOperator' and len(kids(c)) == 1:
            # C++20: `a != b` rewritten as `!(a == b)`
            u_ = strip_expr(kids(c)[0])
            if u_.get('kind') == 'UnaryOperator' and u_.get('opcode') == '!':
                q = strip_expr(u_['inner'][0])
                if q.get('kind') == 'CXXOperatorCallExpr' and self.callee(q).get('name') == 'operator==':
                    c = {'kind': 'CXXOperatorCallExpr', 'inner': [{'kind': 'DeclRefExpr', 'referencedDecl': {'name': 'operator!='}}] + q['inner'][-2:]}
        if c.get('kind') == 'BinaryOperator' and c.get('opcode') == '>':
            a, b = strip_expr(c['inner'][0]), self.ev(c['inner'][1])
            av = self.ev(a)
            if a.get('kind') == 'DeclRefExpr' and av.kind == 'nat' and av.term == 'n' and b.kind == 'nat' and b.term == '0':
                count_id = a['referencedDecl']['id']
        elif (c.get('kind') == 'BinaryOperator' and c.get('opcode') == '!=') or \
                (c.get('kind') == 'CXXOperatorCallExpr' and self.callee(c).get('name') == 'operator!='):
            ops = c['inner'][-2:]
            a, b = strip_expr(ops[0]), self.ev(ops[1])
            av = self.ev(a)
            if a.get('kind') == 'DeclRefExpr' and av.kind == 'it' and av.off == '0' and b.kind == 'it' and b.rng == av.rng and b.off == 'n':
                it_cond = a['referencedDecl']['id']
        if count_id is None and it_cond is None:
            self.fail(cond, 'loop condition is neither `count > 0` nor `first != last`')
        incs = []
        self.inc_list(inc, incs)
        ids = [i for _, i, _ in incs]
        if len(set(ids)) != len(ids):
            self.fail(inc, 'a variable is stepped twice')
        decs = [i for o, i, _ in incs if o == '--']
        if decs != ([count_id] if count_id is not None else []):
            self.fail(inc, 'the loop does not decrement exactly its counter')
        ups = [i for o, i, _ in incs if o == '++']
        for i in ups:
            v = self.env.get(i)
            if v is None or v.kind != 'it' or v.off != '0':
                self.fail(inc, 'the loop increments something that is not an iterator at the start of its range')
        if it_cond is not None and it_cond not in ups:
            self.fail(inc, 'the loop does not advance the iterator it tests')
        stmts = kids(body) if body.get('kind') == 'CompoundStmt' else [body]
        stmts = [x for x in stmts if is_typedef_stmt(x) is None]
        if len(stmts) != 1:
            self.fail(body, 'loop body of %d statements' % len(stmts))
        op = self.elem_op(stmts[0])
        if op is None:
            e = strip_expr(stmts[0])
            self.fail(stmts[0], 'loop body %s%s is not an element operation the translator knows'
                      % (e.get('kind'), ' (call of %s)' % self.callee(e).get('name') if e.get('kind') == 'CallExpr' else ''))
        if op[0] == 'bulk':
            _, prim, al, d, s_, count = op
            if count != '1':
                self.fail(stmts[0], 'byte copy of %s elements inside a loop' % count)
            arity, step, src = 2, ('bitCopyStep %s' if prim == 'copy' else 'bitRelocStep %s') % al, s_
        else:
            arity, step, d, src = op
        used = {d.rng} | ({src.rng} if src is not None else set())
        if d.off != '0' or (src is not None and src.off != '0'):
            self.fail(stmts[0], 'the loop body does not act on the current elements')
        stepped = {self.env[i].rng for i in ups}
        if used != stepped or len(ups) != len(stepped):
            self.fail(inc, 'the loop body acts on the ranges %s but the loop advances %s' % (sorted(used), sorted(stepped)))
        if arity == 2 and (d.rng, src.rng) != ('dst', 'src'):
            self.fail(stmts[0], 'the loop body does not go from the source to the destination range')
        if arity == 1 and self.ranges == 2:
            self.fail(stmts[0], 'one-range loop in a two-range function')
        for i in ups:
            v = self.env[i]
            self.env[i] = Sym('it', rng=v.rng, off='p')
        if count_id is not None:
            self.env[count_id] = Sym('nat', term='n-p')
        self.effects.append({'kind': 'loop', 'arity': arity, 'step': step, 'guarded': False, 'node': s, 'out_ids': [i for i in ups if self.env[i].rng in ('dst', 'b')]})

    def try_stmt(self, s):
        parts = kids(s)
        if len(parts) != 2 or parts[1].get('kind') != 'CXXCatchStmt' or self.effects:
            self.fail(s, 'try statement with %d handlers' % (len(parts) - 1))
        self.block(kids(parts[0]), in_try=True)
        if len(self.effects) != 1 or self.effects[0]['kind'] != 'loop':
            self.fail(s, 'the try block does not consist of one loop')
        loop = self.effects[0]
        h = parts[1]['inner']
        if h[0].get('kind') is not None:
            self.fail(h[0], 'handler is not catch (...)')
        hs = kids(h[1])
        ok = len(hs) == 2 and strip_expr(hs[1]).get('kind') == 'CXXThrowExpr' and not kids(strip_expr(hs[1]))
        if ok:
            c = strip_expr(hs[0])
            ok = c.get('kind') == 'CallExpr' and self.callee(c).get('name') == 'destroy' and len(c['inner']) == 3
            if ok and self.unit.tmpl_of.get(self.callee(c).get('id')) not in self.unit.top:
                self.fail(c, 'the clean-up handler calls a `destroy` that is not the function template amc::destroy of memory.hpp (under this '
                             'standard amc::destroy is %s); guarded1/guarded2 of the model clean up with the pre-C++17 amc::destroy loop'
                          % ('an alias of std::destroy' if self.unit.public('destroy')[0] == 'alias' else 'something else'))
            if ok:
                a, b = self.ev(c['inner'][1]), self.ev(c['inner'][2])
                out_rng = 'dst' if loop['arity'] == 2 else 'b'
                ok = a.kind == 'it' and (a.rng, a.off) == (out_rng, '0') and b.kind == 'it' and (b.rng, b.off) == (out_rng, 'p')
        if not ok:
            self.fail(parts[1], 'the handler is not `catch (...) { amc::destroy(<start of the constructed range>, <current>); throw; }`')
        loop['guarded'] = True

    # -- result ----------------------------------------------------------------------------------------------------------

    def shape(self):
        """summary used when this body is the callee of an element operation"""
        if len(self.effects) != 1:
            return ('other',)
        e = self.effects[0]
        if e['kind'] == 'single':
            return ('single', e['arity'], e['step'])
        if e['kind'] == 'bulk':
            return ('bulk', e['prim'], e['count'], e['cond'])
        return ('other',)

    def outcome(self, v, n):
        if v is None or v.kind == 'void':
            return '.done 0 0'
        out = 'dst' if self.ranges == 2 else 'b'
        if v.kind == 'it' and v.rng == out:
            return '.done 0 %s' % v.off
        if v.kind == 'pair' and v.a.kind == 'it' and v.b.kind == 'it' and v.a.rng == 'src' and v.b.rng == 'dst':
            return '.done %s %s' % (v.a.off, v.b.off)
        self.fail(n, 'the returned value %s is not an iterator of the output range (or a pair of iterators)' % v)

    def text(self):
        """the Lean term (list of lines at indentation 2)"""
        fx = self.effects
        d = self.decl
        ret = self.outcome(self.ret, d)
        R = '2' if self.ranges == 2 else '1'
        bufs = 'src dst' if self.ranges == 2 else 'b'
        if not fx:
            if self.key[1] == '+trivDflt' and self.ranges == 1 and re.fullmatch(r'\.done 0 [0n]', ret):
                # vacuous initialisation: no code runs for a trivially default constructible type, the objects exist
                self.need('indet', d)
                return ['  unguarded1 (loop1 (vacuousStep indet) 0 n b) (fun _ => %s)' % ret]
            self.fail(d, 'a body without effect')
        f0 = fx[0]
        if len(fx) == 1 and f0['kind'] == 'loop':
            w = 'guarded' if f0['guarded'] else 'unguarded'
            pv = 'p' if re.search(r'\bp\b', ret) else '_'
            return ['  %s%s (loop%s %s 0 n %s) (fun %s => %s)' % (w, R, R, paren_step(f0['step']), bufs, pv, ret)]
        if 'p' in ret.split():
            self.fail(d, 'the returned iterator depends on a loop that does not exist')
        if len(fx) == 1 and f0['kind'] == 'single':
            if f0['arity'] != self.ranges:
                self.fail(f0['node'], 'element operation of arity %d in a function over %d range(s)' % (f0['arity'], self.ranges))
            return ['  unguarded%s (loop%s %s 0 1 %s) (fun _ => %s)' % (R, R, paren_step(f0['step']), bufs, ret)]
        if len(fx) == 1 and f0['kind'] == 'bulk':
            prim = 'memcpyN' if f0['prim'] == 'copy' else 'memmoveRelocN'
            if f0['cond']:
                return ['  if n > 0 then unguarded2 (%s %s n src dst) (fun _ => %s) else ⟨src, dst, %s⟩' % (prim, f0['allowed'], ret, ret)]
            return ['  unguarded2 (%s %s %s src dst) (fun _ => %s)' % (prim, f0['allowed'], f0['count'], ret)]
        if len(fx) == 1 and f0['kind'] in ('arm', 'std'):
            r = f0['result']
            if self.ret is r or (self.ret.kind == 'void' and r.kind == 'void'):
                return ['  ' + f0['term']]
            dd = 'd' if re.search(r'\bd\b', ret) else '_'
            ss = 's' if re.search(r'\bs\b', ret) else '_'
            return ['  let r := ' + f0['term'],
                    '  match r.out with',
                    '  | .done %s %s => ⟨r.src, r.dst, %s⟩' % (ss, dd, ret),
                    '  | _ => r']
        if len(fx) == 2 and f0['kind'] == 'alg' and fx[1]['kind'] == 'alg' and f0['two'] and not fx[1]['two']:
            dd = 'd' if re.search(r'\bd\b', ret) else '_'
            ss = 's' if re.search(r'\bs\b', ret) else '_'
            return ['  let r := ' + f0['term'],
                    '  match r.out with',
                    '  | .done %s %s =>' % (ss, dd),
                    '    let c := ' + fx[1]['term'],
                    '    match c.out with',
                    '    | .done _ _ => ⟨c.buf, r.dst, %s⟩' % ret,
                    '    | o => ⟨c.buf, r.dst, o⟩',
                    '  | _ => r']
        self.fail(d, 'the sequence of effects %s is not one of the shapes the translator knows' % [x['kind'] for x in fx])


def paren_step(s):
    return '(' + s + ')' if ' ' in s else s


def rd_is_via_amc(f):
    """the callee was found through a using-declaration of namespace amc"""
    fr = f.get('foundReferencedDecl', {})
    return fr.get('kind') == 'UsingShadowDecl'


# ----------------------------------------------------------------------------------------------------------------------
# the generator
# ----------------------------------------------------------------------------------------------------------------------

class ArmDef:
    def __init__(self, key):
        self.key = key
        self.lean, self.params, self.ranges, self.legal, self.composite = ARMS[key]
        self.per_std = {}          # lean std -> (text, location, number of instantiations)


class Gen:
    def __init__(self, include, workdir, defines):
        self.include, self.workdir, self.defines = include, workdir, defines
        self.units = []
        self.memo = {}
        self.wanted = {}            # (std, key) -> template declaration
        self.cover = {}
        self.alg_deps = set()

    # -- callbacks of ArmT ---------------------------------------------------------------------------------------------

    def want_arm(self, unit, key, tm):
        self.wanted.setdefault((unit.lean_std, key), tm)

    def want_alg(self, name):
        self.alg_deps.add(name)

    def translate_spec(self, unit, key, decl, depth=0, bind_cat=None):
        mk = (unit.lean_std, key, decl['id'])
        if mk not in self.memo:
            self.memo[mk] = ArmT(self, unit, key, decl, depth, bind_cat).run()
        return self.memo[mk]

    # -- driving ---------------------------------------------------------------------------------------------------------

    def load(self):
        hdr = os.path.join(self.include, 'amc', 'memory.hpp')
        if not os.path.isfile(hdr):
            raise Unsupported('%s not found' % hdr)
        src = os.path.join(self.workdir, 'memory2lean_tu.cpp')
        with open(src, 'w') as f:
            f.write(make_tu())
        for lean_std, std in STDS:
            objs = clang_dump(self.include, src, std, self.defines)
            self.units.append(Unit(lean_std, std, objs, hdr))

    def run(self):
        self.load()
        # 1. ImplModeFactory
        self.factories = [Factory(u) for u in self.units]
        texts = {f.lean() for f in self.factories}
        if len(texts) != 1:
            raise Unsupported('include/amc/memory.hpp: memory_details::ImplModeFactory differs between the language standards')
        for f, u in zip(self.factories, self.units):
            f.check(u, self.cover)
        for tag in MODES:
            if ('ImplModeFactory', tag) not in self.cover:
                raise Unsupported('internal: the grid never makes ImplModeFactory select %s' % tag)
        for a in Factory.PARAMS:
            if a in set().union(*[cond_atoms(c) for c in tree_conds(self.factories[0].tree)]):
                for v in (True, False):
                    if ('ImplModeFactory', a, v) not in self.cover:
                        raise Unsupported('internal: the grid never instantiates ImplModeFactory with %s = %s' % (a, v))
        # 2. the public algorithms
        self.publics = {}
        for u, f in zip(self.units, self.factories):
            for c in PUBLIC:
                p = Public(u, c)
                self.publics[(u.lean_std, c)] = p
                p.check(f, self.cover)
                leaves, atoms = p.coverage_needs()
                for l in leaves:
                    if (c, l) not in self.cover:
                        raise Unsupported('internal: -std=%s: the grid never makes amc::%s select %s' % (u.std, c, l))
                for a in atoms:
                    for v in (True, False):
                        if (c, a, v) not in self.cover:
                            raise Unsupported('internal: -std=%s: the grid never calls amc::%s with %s = %s' % (u.std, c, a, v))
        # 3. the construct_at functor
        self.functor = {}
        for u in self.units:
            if self.publics[(u.lean_std, 'construct_at')].kind == 'own':
                self.functor[u.lean_std] = self.functor_arms(u)
        # 4. the arms
        self.arms = {}
        for u in self.units:
            for c in PUBLIC:
                p = self.publics[(u.lean_std, c)]
                if p.kind == 'own' and p.tree is not None:
                    for leaf in tree_leaves(p.tree):
                        self.wanted.setdefault((u.lean_std, leaf.key), leaf.decl)
        done = set()
        while True:
            todo = [k for k in self.wanted if k not in done]
            if not todo:
                break
            for std_key in todo:
                done.add(std_key)
                lean_std, key = std_key
                u = [x for x in self.units if x.lean_std == lean_std][0]
                self.translate_arm(u, key, self.wanted[std_key])
        for lean_std, d in self.functor.items():
            for shape, (lines, loc, n) in d.items():
                self.record_arm(lean_std, ('construct_at', shape), lines, loc, n)

    def record_arm(self, lean_std, key, lines, loc, n):
        if key not in ARMS:
            raise Unsupported('%s: no counterpart in the model for the overload %s' % (loc, key))
        a = self.arms.setdefault(key, ArmDef(key))
        a.per_std[lean_std] = (lines, loc, n)

    def spec_facts(self, unit, spec):
        ta = [x['type']['qualType'] for x in kids(spec, 'TemplateArgument') if 'type' in x]
        if len(ta) >= 2:
            return unit.facts2.get((ta[0], ta[-1]))
        return None

    def translate_arm(self, unit, key, tm):
        if key not in ARMS:
            raise Unsupported('%s: no counterpart in the model for the overload %s [%s] of memory.hpp' % (where(tm), key[0], key[1]))
        specs = specs_of(tm)
        if not specs:
            raise Unsupported('%s: -std=%s: %s [%s] is never instantiated by the grid' % (where(tm), unit.std, key[0], key[1]))
        first = None
        for sp in specs:
            t = self.translate_spec(unit, key, sp)
            lines = t.text()
            if first is None:
                first = (lines, sp, t)
            elif lines != first[0]:
                raise Unsupported('%s: -std=%s: two instantiations of %s translate differently:\n%s\n--- vs ---\n%s'
                                  % (where(tm), unit.std, key[0], '\n'.join(first[0]), '\n'.join(lines)))
            if t.observed_cat in ('lvalue', 'xvalue'):
                facts = self.spec_facts(unit, sp)
                if facts is None:
                    raise Unsupported('internal: %s instantiated outside the grid' % where(sp))
                if facts['rvalueRef'] != (t.observed_cat == 'xvalue') or facts['lvalueRef'] != (t.observed_cat == 'lvalue'):
                    raise Unsupported('%s: `*first` is an %s but is_rvalue_reference<reference> = %s' % (where(sp), t.observed_cat, facts['rvalueRef']))
                self.cover[(key, 'rvalue', facts['rvalueRef'])] = True
        t = first[2]
        unused = [p for p in ARMS[key][1] if p not in t.uses and p not in ('n', 'src', 'dst', 'b')]
        if unused:
            raise Unsupported('%s: the body of %s does not use the model parameter(s) %s of %s' % (where(tm), key[0], unused, ARMS[key][0]))
        legal = {'copy': 'trivCopy', 'reloc': 'trivReloc'}
        if 'allowed' in ARMS[key][1] and t.prims and {legal[x] for x in t.prims} != {ARMS[key][3]}:
            raise Unsupported('%s: %s uses the byte-wise primitive(s) %s but the dispatch passes %s as the trait that makes them legal'
                              % (where(tm), key[0], sorted(t.prims), ARMS[key][3]))
        if 'rvalue' in ARMS[key][1] and t.observed_cat != 'iter':
            for v in (True, False):
                if (key, 'rvalue', v) not in self.cover:
                    raise Unsupported('internal: %s is never instantiated with an %s source' % (key[0], 'rvalue' if v else 'lvalue'))
        self.record_arm(unit.lean_std, key, first[0], '%s:%s' % (relfile(tm.get('_file')), tm.get('_locline')), len(specs))

    # -- construct_at ------------------------------------------------------------------------------------------------------

    def functor_arms(self, unit):
        """shape -> (lines, location, instantiations): the call operator of memory_details::construct_at that
        `amc::construct_at(pos, lvalue)` / `(pos, xvalue)` / `(pos)` reaches"""
        pub = self.publics[(unit.lean_std, 'construct_at')]
        ov = pub.ovs[0]
        prim = [o for o in unit.details if o.get('kind') == 'ClassTemplateDecl' and o.get('name') == 'construct_at']
        part = [o for o in unit.details if o.get('kind') == 'ClassTemplatePartialSpecializationDecl' and o.get('name') == 'construct_at']
        other = [o for o in unit.details if o.get('name') == 'construct_at' and o not in prim + part]
        if len(prim) != 1 or len(part) != 1 or other:
            raise Unsupported('%s: expected the class template memory_details::construct_at and exactly one partial specialisation' % where(ov.ftd))
        prim, part = prim[0], part[0]
        # the pattern of amc::construct_at:  return memory_details::construct_at<void, T, Args...>()(pos, std::forward<Args>(args)...);
        stmts = kids(body_of(ov.pattern))
        ok = len(stmts) == 1 and stmts[0].get('kind') == 'ReturnStmt'
        if ok:
            c = strip_expr(kids(stmts[0])[0])
            ok = c.get('kind') == 'CallExpr' and strip_expr(c['inner'][0]).get('kind') == 'CXXUnresolvedConstructExpr' and \
                re.fullmatch(r'(amc::)?(memory_details::)?construct_at<void, T, Args\.\.\.>', sugar(strip_expr(c['inner'][0]))) is not None
        if not ok:
            raise Unsupported('%s: amc::construct_at is not `return memory_details::construct_at<void, T, Args...>()(pos, std::forward<Args>(args)...);`' % where(ov.ftd))
        # the partial specialisation is selected iff the first argument type is exactly T
        pa = [sugar(a) if 'type' in a else [sugar(x) for x in kids(a, 'TemplateArgument')] for a in kids(part, 'TemplateArgument')]
        pn = [p.get('name') for p in tparams(part)]
        if pn != ['T', 'B', 'Args'] or len(pa) != 3 or not isinstance(pa[2], list) or len(pa[2]) != 2 or pa[1] != 'type-parameter-0-0' \
                or pa[2][0] != 'type-parameter-0-1' or not pa[2][1].startswith('type-parameter-0-2') \
                or re.fullmatch(r'typename (std::)?enable_if<std::is_same<B, T>::value(, void)?>::type', pa[0]) is None:
            raise Unsupported('%s: the partial specialisation of memory_details::construct_at is not <enable_if<is_same<B, T>>, T, B, Args...> (%s; parameters %s)'
                              % (where(part), pa, pn))
        def methods(rec):
            return [m for m in kids(rec, 'CXXMethodDecl') if m.get('name') == 'operator()']
        prim_rec = [c for c in kids(prim, 'CXXRecordDecl')][0]
        pm = {m.get('_locline'): ('primary', m) for m in methods(prim_rec)}
        pm.update({m.get('_locline'): ('partial', m) for m in methods(part)})
        td = [c for c in kids(part) if c.get('kind') in ('TypedefDecl', 'TypeAliasDecl')]
        typedefs = {c['name']: parse_type_expr(sugar(c), where(c)) for c in td}
        # the call `construct_at_impl(pos, v, TypeTraits())` of the partial specialisation
        ctx = Ctx(where(part), elem='T')
        result = {}
        per_shape = {}
        for call in unit.calls:
            if call.cname != 'construct_at':
                continue
            spec = unit.by_id[call.callee_id]
            st = kids(body_of(spec))
            oc = strip_expr(kids(st[0])[0]) if len(st) == 1 and st[0].get('kind') == 'ReturnStmt' else {}
            if oc.get('kind') != 'CXXOperatorCallExpr':
                raise Unsupported('%s: instantiated amc::construct_at does not return a functor call' % where(spec))
            mid = strip_expr(oc['inner'][0]).get('referencedDecl', {}).get('id')
            meth = unit.by_id.get(mid)
            if meth is None or meth.get('_locline') not in pm:
                raise Unsupported('%s: the call operator selected by amc::construct_at was not found' % where(spec))
            which, pat = pm[meth.get('_locline')]
            ta = [a['type']['qualType'] for a in kids(spec, 'TemplateArgument') if 'type' in a]
            pack = [x for a in kids(spec, 'TemplateArgument') if 'type' not in a for x in kids(a, 'TemplateArgument')]
            pk = [x['type']['qualType'] for x in pack]
            expect = 'partial' if (len(pk) >= 1 and pk[0] == ta[0]) else 'primary'
            if which != expect:
                raise Unsupported('%s: amc::construct_at<%s; %s> selects the %s template, is_same<B, T> predicts %s' % (where(spec), ta, pk, which, expect))
            per_shape.setdefault(call.shape, []).append((call, meth, which, pat))
        for shape in ('copy', 'move', 'value'):
            lst = per_shape.get(shape)
            if not lst:
                raise Unsupported('internal: construct_at shape %s not instantiated' % shape)
            pats = {id(p): p for _, _, _, p in lst}
            if len(pats) != 1:
                raise Unsupported('%s: the element types of the grid do not agree on the call operator used for construct_at(%s)' % (where(ov.ftd), shape))
            which, pat = lst[0][2], lst[0][3]
            key = ('construct_at', shape)
            loc = '%s:%s' % (relfile(pat.get('_file')), pat.get('_locline'))
            if which == 'primary':
                texts = []
                for call, meth, _, _ in lst:
                    texts.append(self.translate_spec(unit, key, meth).text())
                if any(t != texts[0] for t in texts):
                    raise Unsupported('%s: the instantiations of the primary call operator translate differently for construct_at(%s)' % (where(pat), shape))
                t0 = self.translate_spec(unit, key, lst[0][1])
                unused = [p for p in ARMS[key][1] if p not in t0.uses and p not in ('src', 'dst', 'b')]
                if unused:
                    raise Unsupported('%s: the body does not use the model parameter(s) %s of %s' % (where(pat), unused, ARMS[key][0]))
                result[shape] = (texts[0], loc, len(lst))
                continue
            # partial specialisation: TypeTraits tree x the overloads of construct_at_impl
            if 'TypeTraits' not in typedefs:
                raise Unsupported('%s: no typedef TypeTraits in the partial specialisation of construct_at' % where(part))
            tree = tree_simplify(tree_of(typedefs['TypeTraits'], ctx, typedefs, lambda n: n if n in TAGS else None), {'isArray': False})
            by_tag = {}
            for call, meth, _, _ in lst:
                t = self.translate_spec(unit, key, meth)
                if t.inlined is None:
                    raise Unsupported('%s: the call operator does not call construct_at_impl' % where(meth))
                node = tree
                while node[0] == 'if':
                    node = node[2] if cond_eval(node[1], call.env) else node[3]
                if node[1] != t.inlined[1]:
                    raise Unsupported('%s: TypeTraits is %s for %s but the translated condition tree gives %s' % (where(meth), t.inlined[1], call.desc, node[1]))
                lines = t.text()
                if t.inlined[1] in by_tag and by_tag[t.inlined[1]][0] != lines:
                    raise Unsupported('%s: two instantiations of construct_at_impl [%s] translate differently' % (where(meth), t.inlined[1]))
                by_tag[t.inlined[1]] = (lines, t.inlined[0])
                for c in tree_conds(tree):
                    for a in cond_atoms(c):
                        self.cover[(key, a, call.env[a])] = True
            for leaf in tree_leaves(tree):
                if leaf not in by_tag:
                    raise Unsupported('internal: construct_at(%s): TypeTraits = %s never instantiated' % (shape, leaf))
            for c in tree_conds(tree):
                for a in cond_atoms(c):
                    for v in (True, False):
                        if (key, a, v) not in self.cover:
                            raise Unsupported('internal: construct_at(%s) never instantiated with %s = %s' % (shape, a, v))

            def go(t, ind):
                if t[0] == 'leaf':
                    return [ind + l[2:] for l in by_tag[t[1]][0]]
                a, b = go(t[2], ind + '  '), go(t[3], ind + '  ')
                if len(a) == 1 and len(b) == 1:
                    return [ind + 'if %s then %s' % (cond_lean(t[1], ATOMS), a[0].strip()), ind + 'else %s' % b[0].strip()]
                return [ind + 'if %s then' % cond_lean(t[1], ATOMS)] + a + [ind + 'else'] + b
            result[shape] = (go(tree, '  '), loc, len(lst))
        return result

    # -- rendering -----------------------------------------------------------------------------------------------------------

    def merged_arm(self, key):
        a = self.arms[key]
        texts = {tuple(v[0]) for v in a.per_std.values()}
        if len(texts) != 1:
            raise Unsupported('%s: the overload %s [%s] translates differently under different language standards' % (
                sorted(v[1] for v in a.per_std.values())[0], key[0], key[1]))
        stds = [s for s, _ in STDS if s in a.per_std]
        locs = sorted({v[1] for v in a.per_std.values()})
        return list(texts.pop()), stds, locs

    def tree_lines(self, t, ind):
        if t[0] == 'leaf':
            return [ind + arm_call(t[1].key)]
        if t[0] == 'if':
            a, b = self.tree_lines(t[2], ind + '  '), self.tree_lines(t[3], ind + '  ')
            c = cond_lean(t[1], ATOMS)
            if len(a) == 1 and len(b) == 1:
                return [ind + 'if %s then %s else %s' % (c, a[0].strip(), b[0].strip())]
            return [ind + 'if %s then' % c] + a + [ind + 'else'] + b
        args = [cond_lean(t[1], ATOMS, False) if p == 'memMovePossible' else ATOMS[p] for p in Factory.PARAMS]
        args = [x if re.fullmatch(r'[\w.]+', x) else '(' + x + ')' for x in args]
        out = [ind + 'match implMode %s with' % ' '.join(args)]
        for m in MODES:
            sub = self.tree_lines(t[2][m], ind + '  ')
            if len(sub) == 1:
                out.append(ind + '| %s => %s' % (MODE_LEAN[m], sub[0].strip()))
            else:
                out.append(ind + '| %s =>' % MODE_LEAN[m])
                out += sub
        return out

    def alg_def(self, alg):
        cname, shape, lean, params, spec = alg
        per = []
        notes = []
        for lean_std, std in STDS:
            p = self.publics[(lean_std, cname)]
            if p.kind == 'alias':
                if spec is None:
                    raise Unsupported('%s: amc::%s is an alias of std::%s under -std=%s; the model has no specification of that algorithm'
                                      % (where(p.using), cname, cname, std))
                per.append(['  ' + spec])
                notes.append((std, '`using std::%s;` (%s:%s)' % (cname, relfile(p.using.get('_file')), p.using.get('_locline'))))
            else:
                if p.functor:
                    per.append(['  ' + arm_call((cname, shape))])
                    notes.append((std, 'own (%s:%s), functor memory_details::construct_at, call operator at %s'
                                  % (relfile(p.ovs[0].ftd.get('_file')), p.ovs[0].ftd.get('_locline'), self.functor[lean_std][shape][1])))
                else:
                    per.append(self.tree_lines(p.tree, '  '))
                    notes.append((std, 'own (%s)' % ', '.join('%s:%s' % (relfile(o.ftd.get('_file')), o.ftd.get('_locline')) for o in p.ovs)))
        res = 'Res α' if 'src' in params else 'Res1 α'
        head = 'def %s %s : %s :=' % (lean, sig(params), res)
        # group the standards in the comment
        groups = []
        for std, n in notes:
            if groups and groups[-1][1] == n:
                groups[-1][0].append(std)
            else:
                groups.append([[std], n])
        doc = '/-- `amc::%s`%s — %s -/' % (cname, {'copy': '(pos, lvalue)', 'move': '(pos, rvalue)', 'value': '(pos)'}.get(shape, ''),
                                          '; '.join('%s: %s' % (', '.join(s), n) for s, n in groups))
        if all(x == per[0] for x in per):
            body = per[0]
        else:
            body = ['  match std with']
            for (lean_std, _), lines in zip(STDS, per):
                if len(lines) == 1:
                    body.append('  | .%s => %s' % (lean_std, lines[0].strip()))
                else:
                    body.append('  | .%s =>' % lean_std)
                    body += ['  ' + l for l in lines]
        return '\n'.join([doc, head] + body) + '\n'

    def arm_def(self, key):
        a = self.arms[key]
        lines, stds, locs = self.merged_arm(key)
        res = 'Res α' if a.ranges == 2 else 'Res1 α'
        n = sum(v[2] for v in a.per_std.values())
        what = {'copy': 'call operator reached by construct_at(pos, lvalue)', 'move': 'call operator reached by construct_at(pos, rvalue)',
                'value': 'call operator reached by construct_at(pos)'}.get(key[1], '[%s]' % key[1] if key[1] else '')
        doc = '/-- `%s` %s (%s; %s; %d instantiations translated) -/' % (key[0], what, ', '.join(locs), ', '.join(dict(STDS)[s] for s in stds), n)
        return '\n'.join([doc, 'def %s %s : %s :=' % (a.lean, sig(a.params), res)] + lines) + '\n'

    def render(self):
        out = [PRELUDE]
        # alias table
        out.append('/-- the public algorithms of memory.hpp -/\ninductive Alg where\n')
        out.append(''.join('  | %s\n' % c for c in PUBLIC))
        out.append('deriving DecidableEq, Repr\n\n')
        out.append('/-- `amc::X` is `using std::X;` under that language standard (otherwise: own function template(s)) -/\n')
        out.append('def isStdAlias : Alg → Std → Bool\n')
        for c in PUBLIC:
            for lean_std, _ in STDS:
                out.append('  | .%s, .%s => %s\n' % (c, lean_std, 'true' if self.publics[(lean_std, c)].kind == 'alias' else 'false'))
        out.append('\n')
        f = self.factories[0]
        out.append('/-- `memory_details::ImplModeFactory<InputIt, OutputIt, IsMemMovePossible>::type`  (%s:%s; the same under the four standards;\n'
                   '    checked against the %d instantiations clang computed) -/\n' % (relfile(f.decl.get('_file')), f.line, sum(len(x.specs) for x in self.factories)))
        out.append('def implMode (%s : Bool) : Mode :=\n%s\n\n' % (' '.join(Factory.PARAMS), f.lean()))
        out.append(STD_MODELS)
        out.append('namespace Arm\n\n')
        for key in ARMS:
            if key in self.arms and not ARMS[key][4]:
                out.append(self.arm_def(key) + '\n')
        missing = [k for k in ARMS if k not in self.arms]
        if missing:
            raise Unsupported('include/amc/memory.hpp: the overloads %s of the model were not found in the source' % missing)
        out.append('end Arm\n\n')
        emitted = set()
        composites = {'uninitialized_relocate_n': ('uninitialized_relocate_n_impl', 'Default'), 'uninitialized_relocate': ('uninitialized_relocate_impl', 'Default'),
                      'relocate_at': ('relocate_at_impl', 'Default')}
        for alg in ALGS:
            if alg[0] in composites and composites[alg[0]] not in emitted:
                emitted.add(composites[alg[0]])
                out.append(self.arm_def(composites[alg[0]]) + '\n')
            out.append(self.alg_def(alg) + '\n')
        left = [k for k in ARMS if ARMS[k][4] and k not in emitted]
        if left:
            raise Unsupported('internal: composite arms %s not emitted' % left)
        out.append('end AmcVerif.Gen.MemAlgo\n')
        return ''.join(out)


PRELUDE = '''import AmcVerif.Model.MemAlgo
/-! GENERATED by translator/memory2lean.py from include/amc/memory.hpp (clang++-14, -std=c++11/14/17/20, each with and
without -DNDEBUG) -- do not edit.

* `isStdAlias`     which public names are `using std::X;` under which language standard;
* `implMode`       the `std::conditional` tree of `memory_details::ImplModeFactory`;
* `Arm.*`          one definition per implementation overload (`*_impl`, the pre-C++17 emulations, the call operators of
                   the `construct_at` functor), translated from the instantiated bodies over the vocabulary of
                   `Model/MemAlgo.lean` (`loop1/2`, the step functions, `guarded1/2`, `unguarded1/2`, `memcpyN`, ...);
* the public algorithms: per language standard, the specification `Spec.*` of the aliased `std::` algorithm or the
                   selection among the arms (tag dispatch through `implMode`, `enable_if` pairs, `std::conditional`).

`Bridge/MemAlgoBridge.lean` proves every definition equal to the hand-written one. Conventions: a range is given by its
length `n` and its buffer; `k` is the fault schedule; `.done a b` = how far the returned iterators advanced; `std::memcpy`
is a byte-wise copy (legal iff `is_trivially_copyable`), `std::memmove` in the relocate functions a byte-wise relocation
(legal iff `amc::is_trivially_relocatable`); element types are not arrays (`std::is_array<T>` = false). -/
namespace AmcVerif.Gen.MemAlgo
open AmcVerif AmcVerif.MemAlgo
variable {α : Type}

/-- `std::is_lvalue_reference<std::iterator_traits<InputIt>::reference>`: the model's `It` describes iterators whose
    `reference` is a reference type -- an rvalue reference for `std::move_iterator`, an lvalue reference otherwise
    (every iterator of the translator's grid is checked to be of that kind) -/
def lvalueRef (it : It) : Bool := !it.rvalueRef

'''

STD_MODELS = '''/-- `std::uninitialized_copy(first, last, dest)` called by the `Default` arms (hand-written model of the libstdc++
    algorithm: element-wise construction, clean-up of what was built on an exception; `rvalue`: the source is a
    `std::move_iterator` range) -/
def stdUninitializedCopy (rvalue : Bool) (ty : Ty) (k : Option Nat) (n : Nat) (src dst : List (Slot α)) : Res α :=
  guarded2 (loop2 (ctorStep rvalue ty k) 0 n src dst) (fun p => .done 0 p)

/-- `std::fill_n(first, n, T())` on a trivial type (hand-written model): returns `first + n` -/
def stdFillN (zero : α) (n : Nat) (b : List (Slot α)) : Res1 α :=
  unguarded1 (loop1 (fillStep zero) 0 n b) (fun p => .done 0 p)

/-- `std::fill(first, last, T())` on a trivial type (hand-written model) -/
def stdFill (zero : α) (n : Nat) (b : List (Slot α)) : Res1 α :=
  unguarded1 (loop1 (fillStep zero) 0 n b) (fun _ => .done 0 0)

'''


def main():
    global INCLUDE_ROOT
    ap = argparse.ArgumentParser()
    ap.add_argument('--include', required=True)
    ap.add_argument('--out', required=True)
    ap.add_argument('--define', action='append', default=[], help='extra -D for clang')
    ap.add_argument('--single-config', action='store_true',
                    help='translate only the configuration given by --define (default: translate both the assert-enabled and the -DNDEBUG '
                         'configuration and require the same result)')
    ap.add_argument('--keep', help='directory in which to keep the translation unit')
    a = ap.parse_args()
    INCLUDE_ROOT = os.path.abspath(a.include)
    try:
        with tempfile.TemporaryDirectory() as wd:
            g = Gen(INCLUDE_ROOT, a.keep or wd, a.define)
            g.run()
            text = g.render()
            if not a.single_config:
                try:
                    g2 = Gen(INCLUDE_ROOT, a.keep or wd, a.define + ['NDEBUG'])
                    g2.run()
                    text2 = g2.render()
                except Unsupported as e:
                    raise Unsupported('with -DNDEBUG: %s' % e)
                if text2 != text:
                    l1, l2 = text.split('\n'), text2.split('\n')
                    i = next(i for i in range(min(len(l1), len(l2))) if l1[i] != l2[i]) if l1[:len(l2)] != l2[:len(l1)] else min(len(l1), len(l2))
                    raise Unsupported('include/amc/memory.hpp translates differently with and without -DNDEBUG; first difference:\n  assert-enabled: %s\n  NDEBUG:         %s'
                                      % (l1[i] if i < len(l1) else '<end>', l2[i] if i < len(l2) else '<end>'))
    except Unsupported as e:
        sys.stderr.write('memory2lean: UNSUPPORTED: %s\n' % e)
        sys.exit(2)
    with open(a.out, 'w') as f:
        f.write(text)
    sys.stderr.write('memory2lean: %d arms, %d public algorithms x %d standards written to %s\n' % (len(g.arms), len(ALGS), len(STDS), a.out))


if __name__ == '__main__':
    main()
