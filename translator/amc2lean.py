#!/usr/bin/env python3
"""amc2lean -- tie T of the verification design.

Regenerates, from /repo's *current* headers, pure Lean 4 definitions of the integer bookkeeping and the
effect skeleton of the three vector base classes (StaticVectorBase, StdVectorBase, SmallVectorBase), of
SafeNextCapacity, ExceptionGrowingPolicy::Check and swap_sizetype.

Method: clang++-14 dumps the typed JSON AST of explicit instantiations; every (loop-free) member body is executed
symbolically with *path splitting* (no state merging): the result is an if-then-else tree whose leaves are the
final words of `this` (and of the other operand), the ordered list of element/allocator effects with their
symbolic integer and pointer arguments, the returned value, or a thrown exception.  Arithmetic is emitted modulo
2^bits of the C++ type it is performed in, so wrap-around is *in* the generated definitions.

The translator refuses (raises Unsupported) anything outside its subset; it never guesses.
"""
import json, os, subprocess, sys, hashlib, tempfile

CLANG = 'clang++-14'

class Unsupported(Exception):
    pass

SIZE_TYPES = {
    'U8':  ('unsigned char', 8),
    'U16': ('unsigned short', 16),
    'U32': ('unsigned int', 32),
    'U64': ('unsigned long', 64),
}

INT_BITS = {'unsigned char': (8, False), 'unsigned short': (16, False), 'unsigned int': (32, False),
            'unsigned long': (64, False), 'unsigned long long': (64, False), 'signed char': (8, True),
            'short': (16, True), 'int': (32, True), 'long': (64, True), 'long long': (64, True),
            'bool': (1, False), 'char': (8, True)}

def inst_source(ctype):
    return f'''#define AMC_NONSTD_FEATURES
#include <amc/smallvector.hpp>
#include <amc/fixedcapacityvector.hpp>
struct E {{ int v; }};
template class amc::vec::SmallVectorBase<E, amc::allocator<E>, {ctype}>;
template class amc::vec::StdVectorBase<E, amc::allocator<E>, {ctype}>;
template class amc::vec::StaticVectorBase<E, {ctype}>;
template {ctype} amc::vec::SafeNextCapacity<{ctype}>({ctype}, uintmax_t, bool);
void amc2lean_use_check() {{ amc::vec::ExceptionGrowingPolicy::Check(1, 2); }}
void amc2lean_use_swapdyn(amc::vec::ElemWithPtrStorage<E>& a, amc::vec::ElemWithPtrStorage<E>& b, E*& p, E*& q) {{
  amc::vec::SwapDynStorage(a, b); amc::vec::SwapDynStorage(a, p); amc::vec::SwapDynStorage(p, a); amc::vec::SwapDynStorage(p, q);
}}
'''

def parse_concat(src):
    dec = json.JSONDecoder(); i = 0; objs = []
    while i < len(src):
        while i < len(src) and src[i].isspace():
            i += 1
        if i >= len(src):
            break
        o, j = dec.raw_decode(src, i); objs.append(o); i = j
    return objs

def clang_dump(repo_include, src_path, flt):
    cmd = [CLANG, '-std=gnu++17', '-I', repo_include, '-fsyntax-only', '-Xclang', '-ast-dump=json',
           '-Xclang', f'-ast-dump-filter={flt}', src_path]
    p = subprocess.run(cmd, capture_output=True, text=True)
    if p.returncode != 0:
        raise Unsupported('clang failed on instantiation TU: ' + p.stderr[-2000:])
    return parse_concat(p.stdout)

def has_body(m):
    return any(isinstance(c, dict) and c.get('kind') == 'CompoundStmt' for c in m.get('inner', []))

def body_of(m):
    return [c for c in m['inner'] if c.get('kind') == 'CompoundStmt'][0]

def qtype(n):
    t = n.get('type', {})
    return t.get('desugaredQualType', t.get('qualType', ''))

def int_info(ty):
    ty = ty.replace('const ', '').replace(' &', '').replace('&', '').strip()
    if ty in INT_BITS:
        return INT_BITS[ty]
    return None

# ---------------------------------------------------------------------------------------------------------
# symbolic values
#   ('n', term)   integer value (Lean Nat term, already reduced into the range of its C++ type)
#   ('b', term)   boolean (Lean Bool term)
#   ('p', term)   pointer (Lean PtrV term)
#   ('obj', who)  object reference ('this' | 'o')
#   ('lv', loc)   lvalue location name
#   ('sto', who)  the _storage sub-object of an object
#   ('void',)
# ---------------------------------------------------------------------------------------------------------

class Path:
    def __init__(self):
        self.env = {}          # location -> value
        self.effs = []         # list of Lean Eff terms
        self.fresh = 0         # number of fresh pointers consumed
        self.locals = {}       # local variable name -> value (by-value locals) or ('lv', loc) for references
        self.this = 'this'     # which object `this` denotes on this path (changes while a callee is inlined)
        self.known_true = frozenset(); self.known_false = frozenset()
        self.nbind = 0
    def copy(self):
        p = Path(); p.env = dict(self.env); p.effs = list(self.effs); p.fresh = self.fresh
        p.locals = dict(self.locals); p.this = self.this
        p.known_true = self.known_true; p.known_false = self.known_false; p.nbind = self.nbind; return p

class Leaf:
    def __init__(self, path, ret=None, exc=None):
        self.path, self.ret, self.exc = path, ret, exc

class Node:
    def __init__(self, cond, t, f):
        self.cond, self.t, self.f = cond, t, f

class Bind:
    """`match call with | .error e => .error e | .ok var => sub`"""
    def __init__(self, call, var, sub):
        self.call, self.var, self.sub = call, var, sub

COND_STRUCT = {}   # Lean Bool term -> ('and'|'or'|'not', operands): lets a decided compound condition decide its parts

def learn(path, cond, truth):
    """record that `cond` is `truth` on this path, together with what follows for its sub-conditions"""
    if truth:
        path.known_true = path.known_true | {cond}
    else:
        path.known_false = path.known_false | {cond}
    st = COND_STRUCT.get(cond)
    if st is None:
        return
    if st[0] == 'not':
        learn(path, st[1], not truth)
    elif st[0] == 'and' and truth:
        learn(path, st[1], True); learn(path, st[2], True)
    elif st[0] == 'or' and not truth:
        learn(path, st[1], False); learn(path, st[2], False)

def decided(path, cond):
    """True / False if the condition is already decided on this path, else None"""
    if cond == 'true' or cond in path.known_true:
        return True
    if cond == 'false' or cond in path.known_false:
        return False
    st = COND_STRUCT.get(cond)
    if st is None:
        return None
    if st[0] == 'not':
        d = decided(path, st[1])
        return None if d is None else (not d)
    a, b = decided(path, st[1]), decided(path, st[2])
    if st[0] == 'and':
        if a is False or b is False:
            return False
        if a is True and b is True:
            return True
    if st[0] == 'or':
        if a is True or b is True:
            return True
        if a is False and b is False:
            return False
    return None

def mk_ite(cond, kt, kf, path):
    """fork on a Lean Bool term (a condition already decided on this path is not forked again)"""
    d = decided(path, cond)
    if d is True:
        return kt(path)
    if d is False:
        return kf(path)
    pt, pf = path.copy(), path.copy()
    learn(pt, cond, True); learn(pf, cond, False)
    return Node(cond, kt(pt), kf(pf))

def paren(s):
    return s if s.isidentifier() or s.isdigit() or (s.startswith('(') and s.endswith(')') and balanced(s)) or '.' in s and ' ' not in s else f'({s})'

def balanced(s):
    d = 0
    for i, ch in enumerate(s):
        if ch == '(':
            d += 1
        elif ch == ')':
            d -= 1
            if d == 0 and i != len(s) - 1:
                return False
    return True

def modt(term, bits):
    return f'(({term}) % {2**bits})'

class Translator:
    def __init__(self, ctx_name, bits, classes, freefns):
        self.bits = bits
        self.kmax = 2 ** bits - 1
        self.classes = classes      # class name -> {method name -> [decls]}
        self.freefns = freefns      # function name -> [decls with bodies]
        self.cls = None
        self.depth = 0
        self.sigs = {}

    # ---- helpers -------------------------------------------------------------------------------
    def field_loc(self, who, name):
        f = {'_capa': 'capa', '_size': 'size'}.get(name)
        if f:
            return f'{who}.{f}'
        if name == '_storage' and self.cls == 'StdVectorBase':
            return f'{who}.dyn'
        raise Unsupported('field ' + name)

    def strip(self, n):
        while n['kind'] in ('ImplicitCastExpr', 'ParenExpr', 'ExprWithCleanups', 'MaterializeTemporaryExpr',
                            'CXXStaticCastExpr', 'CStyleCastExpr', 'CXXFunctionalCastExpr') and \
                n.get('castKind') in (None, 'NoOp', 'LValueToRValue', 'UncheckedDerivedToBase', 'DerivedToBase',
                                      'FunctionToPointerDecay', 'ToVoid', 'BuiltinFnToFnPtr'):
            n = n['inner'][0]
        return n

    def callee_name(self, n):
        f = self.strip(n['inner'][0])
        if f['kind'] == 'DeclRefExpr':
            return f['referencedDecl']['name'], f['referencedDecl'].get('kind', '')
        if f['kind'] == 'MemberExpr':
            return f['name'], 'member'
        raise Unsupported('callee ' + f['kind'])

    # ---- evaluation (continuation passing; k(path, value) -> tree) -------------------------------
    def ev(self, n, path, k):
        kind = n['kind']
        if kind in ('ParenExpr', 'ExprWithCleanups', 'MaterializeTemporaryExpr', 'CXXFunctionalCastExpr',
                    'CXXBindTemporaryExpr', 'ConstantExpr'):
            return self.ev(n['inner'][0], path, k)
        if kind in ('ImplicitCastExpr', 'CXXStaticCastExpr', 'CStyleCastExpr'):
            return self.ev_cast(n, path, k)
        if kind == 'IntegerLiteral':
            return k(path, ('n', str(int(n['value']))))
        if kind == 'CXXBoolLiteralExpr':
            return k(path, ('b', 'true' if n['value'] else 'false'))
        if kind == 'CXXNullPtrLiteralExpr' or kind == 'GNUNullExpr':
            return k(path, ('p', 'PtrV.null'))
        if kind == 'CXXThisExpr':
            return k(path, ('obj', path.this))
        if kind == 'CXXDefaultArgExpr':
            return k(path, ('void',))
        if kind == 'DeclRefExpr':
            rd = n['referencedDecl']; name = rd['name']
            if rd.get('kind') in ('ParmVarDecl', 'VarDecl'):
                if name in path.locals:
                    return k(path, path.locals[name])
                if name == 'kMaxSize':
                    return k(path, ('n', str(self.kmax)))
                raise Unsupported('unbound variable ' + name)
            raise Unsupported('declref ' + rd.get('kind', '') + ' ' + name)
        if kind == 'MemberExpr':
            def got(path, base):
                if base[0] == 'obj':
                    if n['name'] == '_storage':
                        if 'ElemWithPtrStorage' in qtype(n):
                            return k(path, ('sto', base[1]))
                        return k(path, ('lv', f'{base[1]}.dyn'))
                    if n['name'] == '_firstEl':
                        return k(path, ('sto', base[1]))
                    return k(path, ('lv', self.field_loc(base[1], n['name'])))
                raise Unsupported('member of ' + str(base))
            return self.ev(n['inner'][0], path, got)
        if kind == 'UnaryOperator':
            return self.ev_unop(n, path, k)
        if kind == 'BinaryOperator':
            return self.ev_binop(n, path, k)
        if kind == 'ConditionalOperator':
            c, a, b = n['inner']
            def gotc(path, cv):
                cond = self.as_bool(cv, path)
                return mk_ite(cond, lambda p: self.ev(a, p, k), lambda p: self.ev(b, p, k), path)
            return self.ev(c, path, gotc)
        if kind in ('CallExpr', 'CXXMemberCallExpr', 'CXXOperatorCallExpr'):
            return self.ev_call(n, path, k)
        if kind == 'CXXThrowExpr':
            if self.in_try:
                raise Unsupported('throw expression inside a try block')
            return Leaf(path, exc=self.exc_name(n))
        if kind == 'CXXConstructExpr':
            return k(path, ('void',))
        raise Unsupported('expr ' + kind)

    def exc_name(self, n):
        s = json.dumps(n)
        for key, nm in (('overflow_error', 'Exc.overflow'), ('out_of_range', 'Exc.outOfRange'), ('bad_alloc', 'Exc.badAlloc')):
            if key in s:
                return nm
        raise Unsupported('throw of unknown exception type')

    def rv(self, v, path):
        """lvalue-to-rvalue"""
        if v[0] == 'lv':
            if v[1] not in path.env:
                raise Unsupported('read of unknown location ' + v[1])
            return path.env[v[1]]
        return v

    def as_bool(self, v, path):
        v = self.rv(v, path)
        if v[0] == 'b':
            return v[1]
        if v[0] == 'n':
            return f'(decide ({v[1]} ≠ 0))'
        if v[0] == 'p':
            return f'(decide ({v[1]} ≠ PtrV.null))'
        raise Unsupported('as_bool ' + str(v))

    def as_nat(self, v, path):
        v = self.rv(v, path)
        if v[0] == 'n':
            return v[1]
        if v[0] == 'b':
            return f'(if {v[1]} then 1 else 0)'
        raise Unsupported('as_nat ' + str(v))

    def ev_cast(self, n, path, k):
        ck = n.get('castKind')
        sub = n['inner'][0]
        if ck in ('NoOp', 'UncheckedDerivedToBase', 'DerivedToBase', 'FunctionToPointerDecay', 'ToVoid',
                  'ConstructorConversion', 'UserDefinedConversion', 'NullToPointer') or ck is None:
            if ck == 'NullToPointer':
                return k(path, ('p', 'PtrV.null'))
            return self.ev(sub, path, k)
        if ck == 'LValueToRValue':
            return self.ev(sub, path, lambda p, v: k(p, self.rv(v, p)))
        if ck == 'IntegralCast':
            to = int_info(qtype(n)); frm = int_info(qtype(sub))
            def got(path, v):
                v = self.rv(v, path)
                if v[0] == 'b':
                    return k(path, ('bi', v[1]))
                if v[0] == 'bi':
                    return k(path, v)
                if v[0] != 'n':
                    raise Unsupported('IntegralCast of ' + str(v))
                if to is None or frm is None:
                    raise Unsupported(f'IntegralCast {qtype(sub)} -> {qtype(n)}')
                tb, ts = to; fb, fs = frm
                if fs and not ts and False:
                    pass
                if tb >= fb and not (fs and not ts):
                    return k(path, v)             # widening of a non-negative value
                if fs and not ts and tb >= fb:
                    return k(path, v)             # signed source known non-negative in this subset (literals)
                if v[1].isdigit() and int(v[1]) < 2 ** tb:
                    return k(path, v)
                return k(path, ('n', modt(v[1], tb)))
            return self.ev(sub, path, got)
        if ck == 'IntegralToBoolean':
            def got(path, v):
                v = self.rv(v, path)
                if v[0] in ('bi', 'b'):
                    return k(path, ('b', v[1]))
                return k(path, ('b', self.as_bool(v, path)))
            return self.ev(sub, path, got)
        if ck == 'PointerToBoolean':
            return self.ev(sub, path, lambda p, v: k(p, ('b', self.as_bool(v, p))))
        raise Unsupported('cast ' + str(ck))

    def ev_unop(self, n, path, k):
        op = n['opcode']; sub = n['inner'][0]
        if op == '*':
            return self.ev(sub, path, k)      # *this
        if op == '!':
            def got(path, v):
                v = self.rv(v, path)
                b = v[1] if v[0] in ('b', 'bi') else self.as_bool(v, path)
                if b.startswith('(!') and b.endswith(')') and COND_STRUCT.get(b, (None,))[0] == 'not':
                    return k(path, ('b', b[2:-1]))
                nb = f'(!{b})'
                COND_STRUCT[nb] = ('not', b)
                return k(path, ('b', nb))
            return self.ev(sub, path, got)
        if op in ('++', '--'):
            info = int_info(qtype(n)) or int_info(qtype(sub))
            if info is None:
                raise Unsupported('++/-- on ' + qtype(n))
            bits, signed = info
            if signed:
                raise Unsupported('++/-- on signed type')
            def got(path, lv):
                if lv[0] != 'lv':
                    raise Unsupported('++ on non lvalue')
                old = self.rv(lv, path)
                new = modt(f'{old[1]} + 1', bits) if op == '++' else modt(f'{old[1]} + {2**bits} - 1', bits)
                path.env[lv[1]] = ('n', new)
                return k(path, old if n.get('isPostfix') else lv)
            return self.ev(sub, path, got)
        raise Unsupported('unop ' + op)

    def ev_binop(self, n, path, k):
        op = n['opcode']; a, b = n['inner']
        if op == '=':
            def gotl(path, lv):
                def gotr(path, rv):
                    rv = self.rv(rv, path)
                    if lv[0] != 'lv':
                        raise Unsupported('assignment to non lvalue ' + str(lv))
                    path.env[lv[1]] = rv
                    return k(path, lv)
                return self.ev(b, path, gotr)
            return self.ev(a, path, gotl)
        if op == '&&' or op == '||':
            def gota(path, av):
                ca = self.as_bool(av, path)
                def gotb(path, bv):
                    cb = self.as_bool(bv, path)
                    term = f'({ca} {op} {cb})'
                    COND_STRUCT[term] = ('and' if op == '&&' else 'or', ca, cb)
                    return k(path, ('b', term))
                return self.ev(b, path, gotb)     # operands in this subset are side-effect free
            return self.ev(a, path, gota)
        def gota(path, av):
            av = self.rv(av, path)
            def gotb(path, bv):
                bv = self.rv(bv, path)
                if op in ('==', '!=', '<', '<=', '>', '>='):
                    if av[0] == 'p' or bv[0] == 'p':
                        if op not in ('==', '!='):
                            raise Unsupported('pointer ordering')
                        lop = '=' if op == '==' else '≠'
                        return k(path, ('b', f'(decide ({av[1]} {lop} {bv[1]}))'))
                    x, y = self.as_nat(av, path), self.as_nat(bv, path)
                    lop = {'==': '=', '!=': '≠', '<=': '≤', '>=': '≥'}.get(op, op)
                    return k(path, ('b', f'(decide ({x} {lop} {y}))'))
                info = int_info(qtype(n))
                if info is None:
                    raise Unsupported('arithmetic in type ' + qtype(n))
                bits, signed = info
                if signed:
                    raise Unsupported('signed arithmetic ' + op)
                x, y = self.as_nat(av, path), self.as_nat(bv, path)
                if op == '+':
                    return k(path, ('n', modt(f'{x} + {y}', bits)))
                if op == '*':
                    return k(path, ('n', modt(f'{x} * {y}', bits)))
                if op == '-':
                    return k(path, ('n', modt(f'{x} + {2**bits} - {y}', bits)))
                if op == '/':
                    return k(path, ('n', f'({x} / {y})'))
                raise Unsupported('binop ' + op)
            return self.ev(b, path, gotb)
        return self.ev(a, path, gota)

    def ev_args(self, args, path, k, acc=None):
        acc = acc or []
        if not args:
            return k(path, acc)
        return self.ev(args[0], path, lambda p, v: self.ev_args(args[1:], p, k, acc + [v]))

    def ptr_term(self, v, path):
        v = self.rv(v, path)
        if v[0] == 'p':
            return v[1]
        raise Unsupported('pointer expected, got ' + str(v))

    def ev_call(self, n, path, k):
        name, ckind = self.callee_name(n)
        args = n['inner'][1:]
        if n['kind'] == 'CXXMemberCallExpr':
            f = self.strip(n['inner'][0])
            base = f['inner'][0]
            def gotbase(path, bv):
                return self.member_call(name, bv, args, n, path, k)
            return self.ev(base, path, gotbase)
        # free / static calls
        if name == '__builtin_expect':
            return self.ev(args[0], path, k)
        if name in ('max', 'min') and len(args) == 0:
            info = int_info(qtype(n))
            if info is None:
                raise Unsupported('numeric_limits of ' + qtype(n))
            bits, signed = info
            val = (2 ** (bits - 1) - 1 if signed else 2 ** bits - 1) if name == 'max' else 0
            return k(path, ('n', str(val)))
        if name in ('max', 'min') and len(args) == 2:
            def got(path, vs):
                x, y = self.as_nat(vs[0], path), self.as_nat(vs[1], path)
                return k(path, ('n', f'(Nat.{name} {x} {y})'))
            return self.ev_args(args, path, got)
        if name == 'exchange':
            def got(path, vs):
                lv = vs[0]
                if lv[0] != 'lv':
                    raise Unsupported('exchange on non lvalue')
                old = self.rv(lv, path)
                new = self.rv(vs[1], path)
                if new[0] == 'n' and old[0] == 'n':
                    info = int_info(qtype(n)); ainfo = int_info(qtype(args[1]))
                    narrower = ainfo is not None and info is not None and ainfo[0] <= info[0] and not ainfo[1]
                    if info and not narrower and not (new[1].isdigit() and int(new[1]) < 2 ** info[0]):
                        new = ('n', modt(new[1], info[0]))
                path.env[lv[1]] = new
                return k(path, old)
            return self.ev_args(args, path, got)
        if name == 'swap' and len(args) == 2:
            def got(path, vs):
                a, b = vs
                if a[0] != 'lv' or b[0] != 'lv':
                    raise Unsupported('std::swap on non lvalues')
                path.env[a[1]], path.env[b[1]] = path.env[b[1]], path.env[a[1]]
                return k(path, ('void',))
            return self.ev_args(args, path, got)
        if name == 'addressof':
            return self.ev(args[0], path, k)
        # element / allocator effects
        EFF = {'move_n': ('moveN', 'pnpn'), 'uninitialized_relocate_n': ('relocN', 'pnp'),
               'destroy_n': ('destroyN', 'pn'), 'swap_deep': ('swapDeep', 'pnpn')}
        if name in EFF:
            ctor, sig = EFF[name]
            def got(path, vs):
                ts = []
                for s, v in zip(sig, vs):
                    ts.append(paren(self.ptr_term(v, path)) if s == 'p' else paren(self.as_nat(v, path)))
                path.effs.append(f'Eff.{ctor} ' + ' '.join(ts))
                return k(path, ('void',))
            return self.ev_args(args, path, got)
        if self.in_try and name in ('Reallocate', 'SafeNextCapacity', 'Check'):
            raise Unsupported(f'call of {name} inside a try block (it may throw in the model)')
        if name == 'Reallocate':
            def got(path, vs):
                p = paren(self.ptr_term(vs[1], path)); o, nw, sz = [paren(self.as_nat(v, path)) for v in vs[2:5]]
                res = f'(PtrV.blk (fresh + {path.fresh}))'; path.fresh += 1
                path.effs.append(f'Eff.realloc {p} {o} {nw} {sz} {res}')
                return k(path, ('p', res))
            return self.ev_args(args, path, got)
        if name in ('SafeNextCapacity', 'Check') and self.toplevel != name:
            def got(path, vs):
                ts = []
                for v in vs:
                    v = self.rv(v, path)
                    ts.append(paren(v[1]))
                var = f'r{path.nbind}'; path.nbind += 1
                isvoid = name == 'Check'
                sub = k(path, ('void',) if isvoid else ('n', var))
                return Bind(f'{name} ' + ' '.join(ts), '_' if isvoid else var, sub)
            return self.ev_args(args, path, got)
        # translated free functions / static members: inline
        decl = None
        if ckind == 'CXXMethodDecl' and name in self.classes.get(self.cls, {}):
            decl = self.classes[self.cls][name][0]
        elif name in self.freefns:
            cands = self.freefns[name]
            want = qtype(self.strip(n['inner'][0]))
            for c in cands:
                if c.get('type', {}).get('qualType', '') == self.strip(n['inner'][0]).get('type', {}).get('qualType', '').replace('(*)', '').replace('  ', ' ') or len(cands) == 1:
                    decl = c
            if decl is None:
                # match by parameter types
                for c in cands:
                    pts = [qtype(p) for p in c['inner'] if p.get('kind') == 'ParmVarDecl']
                    ats = [qtype(a) for a in args]
                    if [t.replace(' &', '').replace('&', '').strip() for t in pts] == [t.strip() for t in ats]:
                        decl = c
            if decl is None:
                raise Unsupported('cannot resolve overload of ' + name)
        if decl is None:
            raise Unsupported('call to ' + name)
        def got(path, vs):
            return self.inline(decl, None, vs, path, k)
        return self.ev_args(args, path, got)

    def member_call(self, name, bv, args, n, path, k):
        if bv[0] == 'sto':
            who = bv[1]
            if name == 'ptr':
                return k(path, ('p', f'(PtrV.inl {self.who_idx(who)})'))
            if name == 'dyn':
                return k(path, path.env[f'{who}.dyn'])
            if name == 'setDyn':
                def got(path, vs):
                    path.env[f'{who}.dyn'] = ('p', self.ptr_term(vs[0], path))
                    path.effs.append(f'Eff.setDyn {self.who_idx(who)}')
                    return k(path, ('void',))
                return self.ev_args(args, path, got)
            raise Unsupported('storage member ' + name)
        if bv[0] != 'obj':
            raise Unsupported('member call on ' + str(bv))
        who = bv[1]
        if name == 'allocate':
            def got(path, vs):
                res = f'(PtrV.blk (fresh + {path.fresh}))'; path.fresh += 1
                path.effs.append(f'Eff.alloc {paren(self.as_nat(vs[0], path))} {res}')
                return k(path, ('p', res))
            return self.ev_args(args[:1], path, got)
        if name == 'deallocate':
            def got(path, vs):
                path.effs.append(f'Eff.dealloc {paren(self.ptr_term(vs[0], path))} {paren(self.as_nat(vs[1], path))}')
                return k(path, ('void',))
            return self.ev_args(args, path, got)
        meths = self.classes.get(self.cls, {})
        if name not in meths:
            raise Unsupported('member call ' + name)
        cands = [m for m in meths[name] if len([p for p in m['inner'] if p.get('kind') == 'ParmVarDecl']) == len(args)]
        if not cands:
            raise Unsupported('no overload ' + name)
        # prefer the non-const overload when several (begin)
        decl = cands[0]
        def got(path, vs):
            return self.inline(decl, who, vs, path, k)
        return self.ev_args(args, path, got)

    def who_idx(self, who):
        return {'this': '0', 'o': '1'}[who]

    def inline(self, decl, who, argvals, path, k):
        self.depth += 1
        if self.depth > 40:
            raise Unsupported('inline depth')
        params = [p for p in decl['inner'] if p.get('kind') == 'ParmVarDecl']
        saved_locals, saved_this = path.locals, path.this
        new_locals = {}
        for p, v in zip(params, argvals):
            if 'name' in p:
                pt = p['type']['qualType']
                if pt.endswith('&') or pt.endswith('&&'):
                    new_locals[p['name']] = v if v[0] in ('lv', 'obj', 'sto') else self.rv(v, path)
                else:
                    new_locals[p['name']] = self.rv(v, path)
        path.locals = new_locals
        if who:
            path.this = who
        def done(leaf_path, ret):
            leaf_path.locals = saved_locals
            leaf_path.this = saved_this
            return k(leaf_path, ret)
        try:
            return self.ex_body(body_of(decl), path, done)
        finally:
            self.depth -= 1

    # ---- statements (continuation passing; k(path, retval) -> tree) ------------------------------
    def ex_body(self, body, path, kret):
        """execute a function body; kret(path, returned value) is called at every return / end"""
        return self.ex_list(body.get('inner', []), path, lambda p: kret(p, ('void',)), kret)

    def ex_list(self, stmts, path, knext, kret):
        if not stmts:
            return knext(path)
        return self.ex(stmts[0], path, lambda p: self.ex_list(stmts[1:], p, knext, kret), kret)

    def ex(self, n, path, knext, kret):
        kind = n['kind']
        if kind == 'CompoundStmt':
            return self.ex_list(n.get('inner', []), path, knext, kret)
        if kind == 'NullStmt':
            return knext(path)
        if kind == 'IfStmt':
            inner = n['inner']
            cnode, tnode = inner[0], inner[1]
            fnode = inner[2] if len(inner) > 2 else None
            def gotc(path, cv):
                cond = self.as_bool(cv, path)
                def kt(p):
                    return self.ex(tnode, p, knext, kret)
                def kf(p):
                    return self.ex(fnode, p, knext, kret) if fnode else knext(p)
                return mk_ite(cond, kt, kf, path)
            return self.ev(cnode, path, gotc)
        if kind == 'ReturnStmt':
            if n.get('inner'):
                return self.ev(n['inner'][0], path, lambda p, v: kret(p, v))
            return kret(path, ('void',))
        if kind == 'DeclStmt':
            decls = n['inner']
            def go(i, path):
                if i == len(decls):
                    return knext(path)
                d = decls[i]
                if d['kind'] != 'VarDecl':
                    raise Unsupported('decl ' + d['kind'])
                if d.get('inner'):
                    def got(path, v):
                        path.locals = dict(path.locals)
                        ty = d['type']['qualType']
                        if ty.endswith('&'):
                            path.locals[d['name']] = v
                        else:
                            loc = f"L:{d['name']}"
                            path.env[loc] = self.rv(v, path)
                            path.locals[d['name']] = ('lv', loc)
                        return go(i + 1, path)
                    return self.ev(d['inner'][0], path, got)
                path.locals = dict(path.locals)
                loc = f"L:{d['name']}"
                path.locals[d['name']] = ('lv', loc)
                return go(i + 1, path)
            return go(0, path)
        if kind == 'CXXTryStmt':
            # `try { BODY } catch (...) { HANDLER; throw; }` around element transfers only. In the model an element transfer
            # (move / relocation / destruction / swap of elements) never throws — element moves are noexcept in every modelled
            # element category (trusted base) — so the handler is unreachable there and BODY is translated alone. Anything in
            # BODY that CAN throw in the model (allocation, capacity check), a handler that does not rethrow, a typed handler
            # or a `return` inside BODY stops the translation.
            inner = [c for c in n.get('inner', []) if isinstance(c, dict)]
            if len(inner) != 2 or inner[0].get('kind') != 'CompoundStmt' or inner[1].get('kind') != 'CXXCatchStmt':
                raise Unsupported('try statement of an unknown shape')
            h = [c for c in inner[1].get('inner', []) if isinstance(c, dict) and c.get('kind')]
            if len(h) != 1 or h[0].get('kind') != 'CompoundStmt':
                raise Unsupported('only a catch-all handler `catch (...)` is known')
            hs = [c for c in h[0].get('inner', []) if isinstance(c, dict)]
            last = hs[-1] if hs else {}
            while last.get('kind') in ('ExprWithCleanups',) and last.get('inner'):
                last = last['inner'][0]
            if last.get('kind') != 'CXXThrowExpr' or last.get('inner'):
                raise Unsupported('catch handler that does not end with a rethrow `throw;`')
            n0 = len(path.effs)
            depth = self.in_try
            self.in_try = depth + 1
            def after(p):
                for e in p.effs[n0:]:
                    if not e.startswith(('Eff.relocN', 'Eff.moveN', 'Eff.destroyN', 'Eff.swapDeep')):
                        raise Unsupported('effect inside a try block that may throw in the model: ' + e.split()[0])
                saved = self.in_try
                self.in_try = depth
                r = knext(p)
                self.in_try = saved
                return r
            def noret(p, v):
                raise Unsupported('return inside a try block')
            r = self.ex(inner[0], path, after, noret)
            self.in_try = depth
            return r
        # expression statement
        return self.ev(n, path, lambda p, v: knext(p))

    in_try = 0

    # ---- driver for one member --------------------------------------------------------------------
    def translate(self, cls, decl, lean_name):
        try:
            return self.translate_(cls, decl, lean_name)
        except Unsupported as e:
            raise Unsupported(f'{lean_name}: {e}')

    def translate_(self, cls, decl, lean_name):
        self.cls = cls
        self.toplevel = lean_name
        params = [p for p in decl['inner'] if p.get('kind') == 'ParmVarDecl']
        path = Path()
        lean_params = []
        objs = []
        is_static_or_free = cls is None or decl.get('storageClass') == 'static'
        ptr_field = cls in ('StdVectorBase', 'SmallVectorBase')
        def bind_obj(who, var):
            path.env[f'{who}.capa'] = ('n', f'{var}.capa'); path.env[f'{who}.size'] = ('n', f'{var}.size')
            path.env[f'{who}.dyn'] = ('p', f'{var}.dyn')
            objs.append((who, var))
        if cls is not None and not is_static_or_free:
            bind_obj('this', 't'); lean_params.append('(t : VB)')
        onames = ['o', 'o2']
        for p in params:
            nm = p.get('name')
            pt = p['type']['qualType']
            dq = p['type'].get('desugaredQualType', pt)
            if 'VectorBase' in pt and pt.rstrip().endswith('&'):
                # an operand of the *same or another* base class: modelled as a second VB
                who = 'o' if not any(w == 'o' for w, _ in objs) else 'this2'
                if who == 'this2':
                    raise Unsupported('more than two objects')
                bind_obj('o', nm if nm else 'o_'); lean_params.append(f'({nm} : VB)')
                path.locals[nm] = ('obj', 'o')
            elif int_info(dq) is not None:
                if nm:
                    bits, signed = int_info(dq)
                    path.locals[nm] = ('b', nm) if bits == 1 else ('n', nm)
                    lean_params.append(f'({nm} : {"Bool" if bits == 1 else "Nat"})')
                else:
                    lean_params.append('(_ : Nat)')
            elif 'ElemWithPtrStorage' in pt or pt.replace(' ', '') in ('E*&',):
                raise Unsupported('storage reference parameter (handled by inlining only)')
            elif 'BasicAllocatorWrapper' in pt or 'EmptyAlloc' in pt:
                continue
            else:
                raise Unsupported('parameter type ' + pt)
        two = any(w == 'o' for w, _ in objs)
        # constructors: member initialisers
        stmts_pre = []
        if decl['kind'] == 'CXXConstructorDecl':
            fields = [('capa', None), ('size', None), ('dyn', None)]
            inits = [c for c in decl['inner'] if c.get('kind') == 'CXXCtorInitializer']
            # order: [base alloc]? _capa, _size, _storage
            vals = []
            for c in inits:
                e = c['inner'][0]
                if e['kind'] == 'CXXConstructExpr':
                    vals.append(None)
                elif e['kind'] == 'CXXDefaultInitExpr':
                    vals.append('default')
                else:
                    vals.append(e)
            if cls != 'StaticVectorBase':
                vals = vals[1:]   # drop allocator base
            path.env['this.capa'] = ('n', '0'); path.env['this.size'] = ('n', '0'); path.env['this.dyn'] = ('p', 'PtrV.null')
            for fld, e in zip(('capa', 'size', 'dyn'), vals):
                if e is None:
                    continue
                if e == 'default':
                    continue          # `= 0` / `= nullptr` default member initialisers
                stmts_pre.append((fld, e))
        uses_fresh = [False]
        can_throw = [False]
        retkind = [None]
        def finish(path, ret):
            if path.fresh:
                uses_fresh[0] = True
            return Leaf(path, ret=ret)
        def run(path):
            return self.ex_body(body_of(decl), path, finish)
        def pre(i, path):
            if i == len(stmts_pre):
                return run(path)
            fld, e = stmts_pre[i]
            def got(path, v):
                path.env[f'this.{fld}'] = self.rv(v, path)
                return pre(i + 1, path)
            return self.ev(e, path, got)
        tree = pre(0, path)
        # ---- emit ----
        def leaves(t):
            if isinstance(t, Leaf):
                yield t
            elif isinstance(t, Bind):
                yield from leaves(t.sub)
            else:
                yield from leaves(t.t); yield from leaves(t.f)
        def has_bind(t):
            if isinstance(t, Leaf):
                return False
            if isinstance(t, Bind):
                return True
            return has_bind(t.t) or has_bind(t.f)
        ls = list(leaves(tree))
        can_throw = any(l.exc for l in ls) or has_bind(tree)
        has_ret = any(l.ret is not None and l.ret[0] != 'void' for l in ls if not l.exc)
        has_eff = any(l.path.effs for l in ls)
        mutates = decl['kind'] == 'CXXConstructorDecl' or any(
            (l.path.env.get(f'{w}.{f}', (None, None))[1] != f'{v}.{f}')
            for l in ls if not l.exc for (w, v) in objs for f in ('capa', 'size', 'dyn'))
        if uses_fresh[0]:
            lean_params.append('(fresh : Nat)')
        def leaf_term(l):
            if l.exc:
                return f'.error {l.exc}'
            parts = []
            if has_ret:
                r = l.ret
                r = self.rv(r, l.path) if r[0] == 'lv' else r
                parts.append(r[1] if r[0] != 'bi' else r[1])
            if mutates or has_eff or not has_ret:
                def vb(who):
                    e = l.path.env
                    return f"⟨{e[who+'.capa'][1]}, {e[who+'.size'][1]}, {e[who+'.dyn'][1]}⟩"
                if cls is not None:
                    parts.append(vb('this'))
                if two:
                    parts.append(vb('o'))
                if has_eff or cls is None:
                    parts.append('[' + ', '.join(l.path.effs) + ']')
            body = parts[0] if len(parts) == 1 else '(' + ', '.join(parts) + ')'
            return f'.ok {paren(body)}' if can_throw else body
        def emit(t, ind):
            if isinstance(t, Leaf):
                return ' ' * ind + leaf_term(t)
            if isinstance(t, Bind):
                return (' ' * ind + f'match {t.call} with\n' + ' ' * ind + '| .error e => .error e\n' +
                        ' ' * ind + f'| .ok {t.var} =>\n' + emit(t.sub, ind + 2))
            return (' ' * ind + f'if {t.cond} then\n' + emit(t.t, ind + 2) + '\n' + ' ' * ind + 'else\n' + emit(t.f, ind + 2))
        # result type
        tys = []
        if has_ret:
            r0 = [l.ret for l in ls if not l.exc][0]
            tys.append({'n': 'Nat', 'b': 'Bool', 'bi': 'Bool', 'p': 'PtrV', 'lv': 'Nat'}[r0[0]])
        if mutates or has_eff or not has_ret:
            if cls is not None:
                tys.append('VB')
            if two:
                tys.append('VB')
            if has_eff or cls is None:
                tys.append('List Eff')
        rty = tys[0] if len(tys) == 1 else '(' + ' × '.join(tys) + ')'
        if can_throw:
            rty = f'Except Exc {paren(rty)}'
        text = f"def {lean_name} {' '.join(lean_params)} : {rty} :=\n{emit(tree, 2)}\n"
        self.sigs[lean_name] = (lean_params, rty)
        return text

# -------------------------------------------------------------------------------------------------------------

MEMBERS = {
    'SmallVectorBase': ['isSmall', 'size', 'capacity', 'incrSize', 'decrSize', 'setSize', 'ctor', 'dtor',
                        'swap_impl', 'move_construct', 'move_construct#1', 'move_assign', 'grow', 'shrink_impl',
                        'shrink', 'resetToSmall', 'freeStorage', 'destroyFreeStorage', 'begin'],
    'StdVectorBase': ['size', 'capacity', 'incrSize', 'decrSize', 'setSize', 'ctor', 'dtor', 'swap_impl',
                      'move_construct', 'move_assign', 'grow', 'shrink_impl', 'shrink', 'freeStorage', 'begin'],
    'StaticVectorBase': ['size', 'capacity', 'incrSize', 'decrSize', 'setSize', 'ctor', 'swap_impl',
                         'move_construct', 'move_assign', 'shrink_impl', 'begin'],
}
PREFIX = {'SmallVectorBase': 'SVB', 'StdVectorBase': 'DVB', 'StaticVectorBase': 'FVB'}

def collect(objs):
    classes = {}
    for o in objs:
        if o['kind'] == 'ClassTemplateSpecializationDecl' and o.get('inner'):
            ms = classes.setdefault(o['name'], {})
            for m in o['inner']:
                if m.get('kind') in ('CXXMethodDecl', 'CXXConstructorDecl', 'CXXDestructorDecl') and has_body(m):
                    nm = m['name']
                    if m['kind'] == 'CXXConstructorDecl':
                        nm = 'ctor'
                    if m['kind'] == 'CXXDestructorDecl':
                        nm = 'dtor'
                    ms.setdefault(nm, []).append(m)
    return classes

def find_fn_insts(objs, name):
    out = []
    def walk(n):
        if isinstance(n, dict):
            if n.get('kind') == 'FunctionDecl' and n.get('name') == name and has_body(n):
                out.append(n)
            if n.get('kind') == 'CXXMethodDecl' and n.get('name') == name and has_body(n):
                out.append(n)
            for c in n.get('inner', []):
                walk(c)
    for o in objs:
        walk(o)
    return out

def generate(repo_include, tag, workdir):
    ctype, bits = SIZE_TYPES[tag]
    src = os.path.join(workdir, f'inst_{tag}.cpp')
    with open(src, 'w') as f:
        f.write(inst_source(ctype))
    objs = clang_dump(repo_include, src, 'VectorBase')
    classes = collect(objs)
    freefns = {}
    for nm, flt in (('SafeNextCapacity', 'SafeNextCapacity'), ('SwapDynStorage', 'SwapDynStorage'), ('Check', 'ExceptionGrowingPolicy')):
        fo = clang_dump(repo_include, src, flt)
        insts = find_fn_insts(fo, nm)
        # keep only non-template-pattern instantiations (those whose parameter types are concrete)
        keep = []
        for d in insts:
            pts = ' '.join(p['type']['qualType'] for p in d['inner'] if p.get('kind') == 'ParmVarDecl')
            if 'SizeType' in pts or '<T>' in pts or pts.replace('&', '').strip().startswith('T ') or ' T ' in f' {pts} ':
                continue
            keep.append(d)
        freefns[nm] = keep
    out = []
    out.append(f'/- GENERATED by translator/amc2lean.py from /repo/include/amc (size_type = {ctype}). Do not edit. -/')
    out.append('import AmcVerif.Prim.Base')
    out.append('set_option linter.unusedVariables false')
    out.append(f'namespace AmcVerif.Gen.{tag}')
    out.append('open AmcVerif')
    out.append(f'def bits : Nat := {bits}')
    out.append(f'def kMax : Nat := {2**bits-1}')
    out.append('')
    members_found = {}
    tr = Translator(tag, bits, classes, freefns)
    # free functions first
    snc = [d for d in freefns['SafeNextCapacity']]
    if len(snc) != 1:
        raise Unsupported(f'expected one SafeNextCapacity instantiation, found {len(snc)}')
    out.append(tr.translate(None, snc[0], 'SafeNextCapacity'))
    chk = freefns['Check']
    if len(chk) < 1:
        raise Unsupported('ExceptionGrowingPolicy::Check not found')
    out.append(tr.translate(None, chk[0], 'Check'))
    for cls, names in MEMBERS.items():
        if cls not in classes:
            raise Unsupported('class not instantiated: ' + cls)
        present = sorted(classes[cls].keys())
        members_found[cls] = present
        for spec in names:
            nm, _, idx = spec.partition('#')
            idx = int(idx) if idx else 0
            if nm not in classes[cls] or len(classes[cls][nm]) <= idx:
                raise Unsupported(f'member {cls}::{spec} not found (changed set of members)')
            decl = classes[cls][nm][idx]
            lean = f"{PREFIX[cls]}.{nm}{'' if idx == 0 else idx}"
            out.append(tr.translate(cls, decl, lean))
    # ---- the record of base-class operations consumed by the hand-written model ----
    def adapt(pref, nm, want_params, want_eff, two):
        lean = f'{pref}.{nm}'
        if lean not in tr.sigs:
            return None
        params, rty = tr.sigs[lean]
        has_t = any(p.startswith('(t :') for p in params)
        call_args = []
        for p in params:
            v = p[1:].split(':')[0].strip()
            call_args.append({'_': '0'}.get(v, v))
        fresh_needed = any(p.startswith('(fresh') for p in params)
        call = lean + ' ' + ' '.join(a for a in call_args)
        has_eff = 'List Eff' in rty
        exc = rty.startswith('Except')
        if want_eff and not has_eff and not exc:
            call = f'(({call}).1, ({call}).2, [])' if two else f'({call}, [])'
        return call
    def rec(pref, static):
        f = []
        f.append(f'  kMax := {2**bits-1}')
        f.append(f'  size := fun t => {pref}.size t')
        f.append(f'  capacity := fun t => {pref}.capacity t')
        f.append(f'  begin := fun t => {pref}.begin t')
        f.append(f'  isSmall := fun t => {pref}.isSmall t' if pref == 'SVB' else f'  isSmall := fun _ => {"true" if static else "false"}')
        f.append(f'  incrSize := fun t => {pref}.incrSize t')
        f.append(f'  decrSize := fun t => {pref}.decrSize t')
        f.append(f'  setSize := fun t s => {pref}.setSize t s')
        f.append(f'  ctor := fun inplaceCapa => {pref}.ctor default inplaceCapa')
        d = adapt(pref, 'dtor', None, True, False)
        f.append(f'  dtor := fun t => {d}' if d else '  dtor := fun t => (t, [])')
        f.append('  swapImpl := fun t o => ' + adapt(pref, 'swap_impl', None, True, True))
        mc = adapt(pref, 'move_construct', None, True, True).replace(' 0', ' inplaceCapa') if True else ''
        f.append('  moveConstruct := fun t o inplaceCapa => ' + mc)
        ma = adapt(pref, 'move_assign', None, True, True).replace(' 0', ' inplaceCapa')
        f.append('  moveAssign := fun t o inplaceCapa => ' + ma)
        if static:
            f.append('  grow := fun _ _ _ _ => .error Exc.outOfRange')
            f.append(f'  shrinkImpl := fun t inplaceCapa _ => ({pref}.shrink_impl t inplaceCapa, [])')
        else:
            f.append(f'  grow := fun t minSize exact fresh => {pref}.grow t minSize exact fresh')
            f.append(f'  shrinkImpl := fun t inplaceCapa fresh => {pref}.shrink_impl t inplaceCapa fresh')
        f.append('  check := fun c m => Check c m')
        f.append('  safeNext := fun o n e => SafeNextCapacity o n e')
        return ',\n'.join(f)
    for pref, static in (('SVB', False), ('DVB', False), ('FVB', True)):
        out.append(f'def {pref.lower()}Ops : BaseOps := {{\n{rec(pref, static)} }}\n')
    out.append(f'end AmcVerif.Gen.{tag}')
    return '\n'.join(out) + '\n', members_found

def main():
    import argparse
    ap = argparse.ArgumentParser()
    ap.add_argument('--repo', default='/repo')
    ap.add_argument('--out', required=True, help='directory for generated Lean files (AmcVerif/Gen)')
    ap.add_argument('--tags', default='U8,U16,U32,U64')
    a = ap.parse_args()
    inc = os.path.join(a.repo, 'include')
    os.makedirs(a.out, exist_ok=True)
    status = {'ok': True, 'files': {}, 'error': None}
    with tempfile.TemporaryDirectory(prefix='amc2lean_', dir=os.path.dirname(os.path.abspath(a.out))) as wd:
        for tag in a.tags.split(','):
            try:
                text, members = generate(inc, tag, wd)
            except Unsupported as e:
                status['ok'] = False; status['error'] = f'{tag}: {e}'
                print(f'TRANSLATION-BROKEN {tag}: {e}', file=sys.stderr)
                break
            path = os.path.join(a.out, f'Words{tag}.lean')
            old = open(path).read() if os.path.exists(path) else None
            if old != text:
                with open(path, 'w') as f:
                    f.write(text)
            status['files'][tag] = {'path': path, 'sha256': hashlib.sha256(text.encode()).hexdigest(), 'changed': old != text}
            # the proof obligations over the regenerated definitions: one instance of every template per size type
            bridge = os.path.join(os.path.dirname(os.path.abspath(a.out)), 'Bridge')
            for tpl in sorted(os.listdir(bridge)):
                if tpl.endswith('.lean.in'):
                    inst = open(os.path.join(bridge, tpl)).read().replace('@TAG@', tag)
                    ipath = os.path.join(bridge, tpl[:-len('.lean.in')] + tag + '.lean')
                    if not os.path.exists(ipath) or open(ipath).read() != inst:
                        with open(ipath, 'w') as f:
                            f.write(inst)
    print(json.dumps(status))
    sys.exit(0 if status['ok'] else 2)

if __name__ == '__main__':
    main()
