import AmcVerif.Model.Vec
import AmcVerif.Gen.WordsU8
import AmcVerif.Gen.WordsU16
import AmcVerif.Gen.WordsU32
import AmcVerif.Gen.WordsU64
/-! Line-protocol driver for the vector model (see harness/vec_harness.cpp for the implementation side). -/
namespace AmcVerif.Driver
open AmcVerif

structure VSt where
  cfg : Cfg
  pool : Nat
  cfg2 : Cfg := { flavour := .std, n := 0, ops := Gen.U32.dvbOps }
  pool2 : Nat := 0
  mem : Mem Nat
  halted : Bool := false     -- a fault happened: the model state is meaningless until `new`

def opsFor (fl : Flavour) (st : String) : Option BaseOps :=
  match fl, st with
  | .small, "U8" => some Gen.U8.svbOps | .std, "U8" => some Gen.U8.dvbOps | .fixed, "U8" => some Gen.U8.fvbOps
  | .small, "U16" => some Gen.U16.svbOps | .std, "U16" => some Gen.U16.dvbOps | .fixed, "U16" => some Gen.U16.fvbOps
  | .small, "U32" => some Gen.U32.svbOps | .std, "U32" => some Gen.U32.dvbOps | .fixed, "U32" => some Gen.U32.fvbOps
  | .small, "U64" => some Gen.U64.svbOps | .std, "U64" => some Gen.U64.dvbOps | .fixed, "U64" => some Gen.U64.fvbOps
  | _, _ => none

def kv (toks : List String) (key : String) : Option String :=
  toks.findSome? fun t => match t.splitOn "=" with
    | [k, v] => if k == key then some v else none
    | _ => none

def inlLenOf (cfg : Cfg) : Nat := if cfg.flavour == .std then 0 else cfg.n

def freshMem2 (cfg : Cfg) (pool : Nat) (cfg2 : Cfg) (pool2 : Nat) (cat : Cat) (hasRealloc : Bool) : Mem Nat :=
  { ws := List.replicate pool (cfg.ops.ctor cfg.n) ++ List.replicate pool2 (cfg2.ops.ctor cfg2.n),
    inls := List.replicate pool (rawBuf (inlLenOf cfg)) ++ List.replicate pool2 (rawBuf (inlLenOf cfg2)),
    blocks := [], cat := cat, hasRealloc := hasRealloc }

def freshMem (cfg : Cfg) (pool : Nat) (cat : Cat) (hasRealloc : Bool) : Mem Nat :=
  freshMem2 cfg pool cfg 0 cat hasRealloc

def parseCfg (toks : List String) : Option VSt := do
  let fl ← match ← kv toks "fl" with
    | "small" => some Flavour.small | "std" => some Flavour.std | "fixed" => some Flavour.fixed | _ => none
  let n ← (← kv toks "n").toNat?
  let st ← kv toks "st"
  -- signed size types share the unsigned definitions of the same width with a smaller maximum
  let (stU, kmaxOverride) := match st with
    | "I8" => ("U8", some 127) | "I16" => ("U16", some 32767) | "I32" => ("U32", some 2147483647)
    | s => (s, none)
  let ops0 ← opsFor fl stU
  let ops := match kmaxOverride with | some _ => ops0 | none => ops0
  let cat ← match ← kv toks "cat" with
    | "tc" => some Cat.tc | "tr" => some Cat.tr | "ntr" => some Cat.ntr | _ => none
  let realloc := (kv toks "realloc").getD "1" == "1"
  let pool := ((kv toks "pool").bind String.toNat?).getD 3
  let checked := (kv toks "checked").getD "1" == "1"
  let allocId := ((kv toks "akind").bind String.toNat?).getD (if realloc then 0 else 1)
  let cfg : Cfg := { flavour := fl, n := n, ops := ops, checked := checked, allocId := allocId }
  -- optional partner configuration (swap2): fl2= n2= st2= realloc2= pool2=
  let pool2 := ((kv toks "pool2").bind String.toNat?).getD 0
  let cfg2 : Cfg := (do
    let fl2 ← match ← kv toks "fl2" with
      | "small" => some Flavour.small | "std" => some Flavour.std | "fixed" => some Flavour.fixed | _ => none
    let n2 ← (← kv toks "n2").toNat?
    let ops2 ← opsFor fl2 (← kv toks "st2")
    let r2 := (kv toks "realloc2").getD "1" == "1"
    pure ({ flavour := fl2, n := n2, ops := ops2,
            allocId := ((kv toks "akind2").bind String.toNat?).getD (if r2 then 0 else 1) } : Cfg)).getD cfg
  pure { cfg := cfg, pool := pool, cfg2 := cfg2, pool2 := pool2, mem := freshMem2 cfg pool cfg2 pool2 cat realloc }

def excName : Exc → String
  | .overflow => "overflow" | .outOfRange => "range" | .badAlloc => "alloc" | .elem => "elem"

def showList (l : List Nat) : String := ",".intercalate (l.map toString)

def aliveCount (m : Mem Nat) : Nat :=
  let cnt (b : List (Slot Nat)) := (b.filter fun s => match s with | .raw => false | _ => true).length
  (m.inls.map cnt).sum + (m.blocks.map fun b => cnt b.buf).sum + cnt [m.tmp]

/-- canonical description of one container: size:capacity:inline?:elements (or `!fault`) -/
def showCont (s : VSt) (c : Nat) : String :=
  let act : M Nat String := do
    let w ← getW c
    let sz := s.cfg.ops.size w
    let cap := s.cfg.ops.capacity w
    let b := s.cfg.ops.begin w
    let inl := match b with | .inl _ => "1" | _ => "0"
    let es ← elems s.cfg c
    pure s!"{sz}:{cap}:{inl}:{showList es}"
  match (act.run.run s.mem).1 with
  | .ok str => str
  | .error (.fault f) => s!"!{repr f}"
  | .error (.exc _) => "!exc"

def showCont2 (s : VSt) (c : Nat) : String := showCont { s with cfg := s.cfg2 } c

def showState (s : VSt) : String :=
  let conts := (List.range s.pool).map (showCont s) ++ (List.range s.pool2).map (fun d => showCont2 s (s.pool + d))
  let ev := s.mem.ev
  let live := if s.mem.cat == .tc then "-" else toString (aliveCount s.mem)
  " | " ++ " | ".intercalate conts ++ s!" | al={ev.al},{ev.de},{ev.re} blocks={s.mem.blocks.length} live={live}"

def natList (t : String) : List Nat := if t == "-" then [] else (t.splitOn ",").filterMap String.toNat?

/-- run one model action; returns the result token and the new state -/
def runOp (s : VSt) (act : M Nat String) : String × VSt :=
  let m0 := { s.mem with ev := {} }
  let (r, m) := act.run.run m0
  let m := { m with fuel := none }
  match r with
  | .ok str => (s!"ok ret={str}", { s with mem := m })
  | .error (.exc e) => (s!"exc:{excName e} ret=-", { s with mem := m })
  | .error (.fault f) => (s!"FAULT:{repr f} ret=-", { s with mem := m, halted := true })

def unit (a : M Nat Unit) : M Nat String := do a; pure "-"
def idx (a : M Nat Nat) : M Nat String := do return toString (← a)

def selfRef (cfg : Cfg) (c i : Nat) : M Nat (Ref Nat) := do
  let b ← vbegin cfg c
  pure (.at (b.add i))

def step (s : VSt) (toks : List String) : String × VSt :=
  let cfg := s.cfg
  let nat (t : String) := t.toNat?.getD 0
  -- a count argument is passed as `size_type`: the harness casts it
  let cnt (t : String) := (t.toNat?.getD 0) % (cfg.ops.kMax + 1)
  let szOf (c : Nat) : Nat := match s.mem.ws[c]? with | some w => cfg.ops.size w | none => 0
  match toks with
  | ["new"] =>
    -- destroy every container, report what is left, start afresh
    let act : M Nat String := do
      for c in List.range s.pool do destruct cfg c
      for d in List.range s.pool2 do destruct s.cfg2 (s.pool + d)
      let m ← get
      pure s!"blocks={m.blocks.length},live={if m.cat == .tc then 0 else aliveCount m}"
    let (r, s') := runOp s act
    (r, { s' with mem := { freshMem2 cfg s.pool s.cfg2 s.pool2 s.mem.cat s.mem.hasRealloc with ev := s'.mem.ev }, halted := false })
  | ["thr", k] => ("ok ret=-", { s with mem := { s.mem with fuel := some (nat k), ev := {} } })
  | ["sw2", c, d] => if s.halted then ("halted ret=-", s) else runOp s (unit (swap2 cfg s.cfg2 (nat c) (s.pool + nat d)))
  | ["push2", d, v] => if s.halted then ("halted ret=-", s) else runOp s (unit (pushBackCopy s.cfg2 (s.pool + nat d) (.lit (nat v))))
  | ["apr2", d, vs] => if s.halted then ("halted ret=-", s) else runOp s (unit (appendRange s.cfg2 (s.pool + nat d) (natList vs)))
  | ["rsv2", d, k] => if s.halted then ("halted ret=-", s) else runOp s (unit (reserve s.cfg2 (s.pool + nat d) (nat k % (s.cfg2.ops.kMax + 1))))
  | ["shr2", d] => if s.halted then ("halted ret=-", s) else runOp s (unit (shrinkToFit s.cfg2 (s.pool + nat d)))
  | ["clr2", d] => if s.halted then ("halted ret=-", s) else runOp s (unit (clear s.cfg2 (s.pool + nat d)))
  | ["pop2", d] => if s.halted then ("halted ret=-", s) else
      (match s.mem.ws[s.pool + nat d]? with
       | some w => if s.cfg2.ops.size w == 0 then ("skip ret=-", { s with mem := { s.mem with fuel := none, ev := {} } })
                   else runOp s (unit (popBack s.cfg2 (s.pool + nat d)))
       | none => ("bad-op ret=-", s))
  | op :: c :: rest =>
    let c := nat c
    let sz := szOf c
    if s.halted then ("halted ret=-", s) else
    let skip : String × VSt := ("skip ret=-", { s with mem := { s.mem with fuel := none, ev := {} } })
    -- a count that is enormous AND representable (no capacity error): neither side materialises millions of elements
    let hugeOk (k : Nat) : Bool := k > 1000000 && sz + k ≤ cfg.ops.kMax
    match op, rest with
    | "push", [v] => runOp s (unit (pushBackCopy cfg c (.lit (nat v))))
    | "pushm", [v] => runOp s (unit (pushBackMove cfg c (nat v)))
    | "pushs", [i] => if sz == 0 then skip else runOp s (unit do pushBackCopy cfg c (← selfRef cfg c (nat i % sz)))
    | "emb", [v] => runOp s (unit (emplaceBack cfg c (.copy (.lit (nat v)))))
    | "embs", [i] => if sz == 0 then skip else runOp s (unit do emplaceBack cfg c (.copy (← selfRef cfg c (nat i % sz))))
    | "ins", [p, v] => runOp s (idx (insertOne cfg c (nat p % (sz+1)) (.copy (.lit (nat v)))))
    | "insm", [p, v] => runOp s (idx (insertOne cfg c (nat p % (sz+1)) (.move (nat v))))
    | "inss", [p, i] => if sz == 0 then skip else
        runOp s (idx do insertOne cfg c (nat p % (sz+1)) (.copy (← selfRef cfg c (nat i % sz))))
    | "insn", [p, k, v] => if hugeOk (cnt k) then skip else runOp s (idx (insertCount cfg c (nat p % (sz+1)) (cnt k) (.lit (nat v))))
    | "insns", [p, k, i] => if sz == 0 then skip else
        runOp s (idx do insertCount cfg c (nat p % (sz+1)) (cnt k) (← selfRef cfg c (nat i % sz)))
    | "insr", [p, vs] => runOp s (idx (insertRange cfg c (nat p % (sz+1)) (natList vs)))
    | "insri", [p, vs] => runOp s (idx (insertInput cfg c (nat p % (sz+1)) (natList vs)))
    | "asri", [vs] => runOp s (unit (assignInput cfg c (natList vs)))
    | "apri", [vs] => runOp s (unit (appendInput cfg c (natList vs)))
    | "emp", [p, v] => runOp s (idx (emplace cfg c (nat p % (sz+1)) (.copy (.lit (nat v)))))
    | "emps", [p, i] => if sz == 0 then skip else
        runOp s (idx do emplace cfg c (nat p % (sz+1)) (.copy (← selfRef cfg c (nat i % sz))))
    | "empa", [p, i] => if sz == 0 then skip else
        -- constructor argument = a reference to the value stored inside element i: read when the temporary is built
        runOp s (idx do
          let v ← deref (← selfRef cfg c (nat i % sz))
          emplace cfg c (nat p % (sz+1)) (.copy (.lit v)))
    | "era", [p] => if sz == 0 then skip else runOp s (idx (eraseOne cfg c (nat p % sz)))
    | "eran", [p, q] =>
        let p' := nat p % (sz+1)
        let q' := p' + nat q % (sz - p' + 1)
        runOp s (idx (eraseRange cfg c p' q'))
    | "pop", [] => if sz == 0 then skip else runOp s (unit (popBack cfg c))
    | "popv", [] => if sz == 0 then skip else runOp s (idx (popBackVal cfg c))
    | "clr", [] => runOp s (unit (clear cfg c))
    | "asn", [k, v] => runOp s (unit (assignFill cfg c (cnt k) (.lit (nat v))))
    | "asns", [k, i] => if sz == 0 then skip else runOp s (unit do assignFill cfg c (cnt k) (← selfRef cfg c (nat i % sz)))
    | "asr", [vs] => runOp s (unit (assignRange cfg c (natList vs)))
    | "rsz", [k] => runOp s (unit (resize cfg c (cnt k)))
    | "rszv", [k, v] => runOp s (unit (resizeFill cfg c (cnt k) (.lit (nat v))))
    | "rszs", [k, i] => if sz == 0 then skip else runOp s (unit do resizeFill cfg c (cnt k) (← selfRef cfg c (nat i % sz)))
    | "rsv", [k] => runOp s (unit (reserve cfg c (cnt k)))
    | "shr", [] => runOp s (unit (shrinkToFit cfg c))
    | "apr", [vs] => runOp s (unit (appendRange cfg c (natList vs)))
    | "apn", [k] => if hugeOk (cnt k) then skip else runOp s (unit (appendN cfg c (cnt k)))
    | "apv", [k, v] => if hugeOk (cnt k) then skip else runOp s (unit (appendFill cfg c (cnt k) (.lit (nat v))))
    | "apvs", [k, i] => if sz == 0 then skip else runOp s (unit do appendFill cfg c (cnt k) (← selfRef cfg c (nat i % sz)))
    | "cpy", [d] => runOp s (unit (copyAssign cfg c (nat d)))
    | "mov", [d] => runOp s (unit (moveAssign cfg c (nat d)))
    | "swp", [d] => if c == nat d then skip else runOp s (unit (swapSame cfg c (nat d)))
    | "cct", [d] => if c == nat d then skip else runOp s (unit do
        destruct cfg c
        -- a constructor that throws runs the destructors of its (fully constructed) base classes; the harness then
        -- puts a fresh empty vector into the slot
        tryCatch (copyConstruct cfg c (nat d)) fun st => do
          match st with
          | .exc _ => destruct cfg c; construct cfg c
          | .fault _ => pure ()
          throw st)
    | "mct", [d] => if c == nat d then skip else runOp s (unit do destruct cfg c; moveConstruct cfg c (nat d))
    | "reloc", [] =>
        -- byte-wise relocation of the container object (only types claiming the trait): the model state does not depend on
        -- the object's address, so nothing changes
        let claims := cfg.flavour == .std || s.mem.cat != .ntr
        if claims then runOp s (unit (pure ())) else skip
    -- `at`, `operator==`, `operator<` of the model (Model/Vec.lean: the functions Props/C01e.lean is about and that
    -- Bridge/VecAccessBridge.lean ties to the source)
    | "at", [i] => runOp s (do
        let v ← atIdx cfg c (cnt i)
        pure (toString v))
    | "cmp", [d] => runOp s (do
        let eq ← vecEqual (fun a b => a == b) cfg c (nat d)
        let lt ← vecLess (fun a b => decide (a < b)) cfg c (nat d)
        pure s!"{if eq then 1 else 0}{if lt then 1 else 0}")
    | _, _ => ("bad-op ret=-", s)
  | _ => ("bad-op ret=-", s)

partial def loop (h : IO.FS.Stream) (out : IO.FS.Stream) (s : VSt) (n : Nat) : IO Unit := do
  let line ← h.getLine
  if line.isEmpty then return ()
  let toks := (line.trimAscii.toString.splitOn " ").filter (· ≠ "")
  if toks.isEmpty then loop h out s n else
  let (r, s') := step s toks
  out.putStrLn s!"{n} {r}{showState s'}"
  loop h out s' (n+1)

end AmcVerif.Driver
