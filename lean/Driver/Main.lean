import Driver.VecDriver
import Driver.SetDriver
open AmcVerif AmcVerif.Driver

def main : IO UInt32 := do
  let stdin ← IO.getStdin
  let stdout ← IO.getStdout
  let first ← stdin.getLine
  let toks := (first.trimAscii.toString.splitOn " ").filter (· ≠ "")
  match toks with
  | "cfg" :: rest =>
    match (kv rest "kind").getD "vec" with
    | "vec" =>
      match parseCfg rest with
      | some s => loop stdin stdout s 0; return 0
      | none => IO.eprintln "bad cfg"; return 2
    | "set" =>
      match parseSetCfg rest with
      | some s => setLoop stdin stdout s 0; return 0
      | none => IO.eprintln "bad set cfg"; return 2
    | k => IO.eprintln s!"unknown kind {k}"; return 2
  | _ => IO.eprintln "first line must be cfg"; return 2
