import AmcVerif.Model.Sets
import Driver.VecDriver
/-! Line-protocol driver for the FlatSet / SmallSet models (see harness/set_harness.cpp for the implementation side). -/
namespace AmcVerif.Driver
open AmcVerif AmcVerif.Sets AmcVerif.FS

structure SSt where
  small : Bool                 -- SmallSet (true) or FlatSet (false)
  n : Nat
  lt : Nat → Nat → Bool
  pool : List (SSet Nat)
  tr : Bool := false          -- does the set type claim to be trivially relocatable?
  lt2 : Nat → Nat → Bool := fun a b => a > b   -- comparator of the other-typed source of `mrgx`
  mods : List Nat := []       -- cmp=mix: the state of the comparator OBJECT of each set (it compares `v % m`); travels with
                              -- swap / copy / move assignment like the comparator object of a std::set

def cmpFor : String → Option (Nat → Nat → Bool)
  | "less" => some fun a b => a < b
  | "greater" => some fun a b => a > b
  | "mod" => some fun a b => a % 5 < b % 5
  | "stateful" => some fun a b => a % 7 < b % 7
  | "mix" => some fun a b => a % 7 < b % 7
  | "transp" => some fun a b => a < b
  | "selfref" => some fun a b => a < b
  | _ => none

def parseSetCfg (toks : List String) : Option SSt := do
  let small ← match ← kv toks "impl" with | "small" => some true | "flat" => some false | _ => none
  let n := ((kv toks "n").bind String.toNat?).getD 3
  let lt ← cmpFor ((kv toks "cmp").getD "less")
  let pool := ((kv toks "pool").bind String.toNat?).getD 3
  let tr := (kv toks "tr").getD "0" == "1"
  let mods := if (kv toks "cmp").getD "less" == "mix" then (List.range pool).map (fun c => 7 + 3 * c) else []
  let lt2 : Nat → Nat → Bool := if (kv toks "cmp").getD "less" == "greater" then (fun a b => a < b) else (fun a b => a > b)
  pure { small := small, n := n, lt := lt, pool := List.replicate pool ⟨[], []⟩, tr := tr, mods := mods, lt2 := lt2 }

def SSt.get (s : SSt) (c : Nat) : SSet Nat := s.pool[c]?.getD ⟨[], []⟩
def SSt.put (s : SSt) (c : Nat) (x : SSet Nat) : SSt := { s with pool := s.pool.set c x }
/-- the comparator object of set `c` -/
def SSt.ltOf (s : SSt) (c : Nat) : Nat → Nat → Bool :=
  match s.mods[c]? with
  | some m => fun a b => a % m < b % m
  | none => s.lt
/-- set `c` receives (a copy of) the comparator object of set `d` -/
def SSt.cmpFrom (s : SSt) (c d : Nat) : SSt :=
  match s.mods[d]? with
  | some m => { s with mods := s.mods.set c m }
  | none => s
def SSt.cmpSwap (s : SSt) (c d : Nat) : SSt :=
  match s.mods[c]?, s.mods[d]? with
  | some mc, some md => { s with mods := (s.mods.set c md).set d mc }
  | _, _ => s

/-- elements in iteration order -/
def SSt.elemsOf (s : SSt) (x : SSet Nat) : List Nat := if s.small then x.elems else x.set

def showSet (s : SSt) (x : SSet Nat) : String :=
  let es := s.elemsOf x
  s!"{es.length}:{if es.isEmpty then 1 else 0}:{showList es}"

def showSets (s : SSt) : String := " | " ++ " | ".intercalate (s.pool.map (showSet s))

def valAt (l : List Nat) (i : Nat) : String := match l[i]? with | some v => toString v | none => "end"

def lexLt : List Nat → List Nat → Bool
  | [], [] => false
  | [], _ :: _ => true
  | _ :: _, [] => false
  | a :: as, b :: bs => if a < b then true else if b < a then false else lexLt as bs


/-- one operation: (result token, returned value, comparator calls if modelled, new state) -/
def setStep (s : SSt) (toks : List String) : String × String × Option Nat × SSt :=
  let nat (t : String) := t.toNat?.getD 0
  match toks with
  | ["new"] => ("ok", "live=0", some 0, { s with pool := s.pool.map (fun _ => ⟨[], []⟩),
                                                  mods := (List.range s.mods.length).map (fun c => 7 + 3 * c) })
  | op :: c :: rest =>
    let c := nat c
    let lt := s.ltOf c
    let x := s.get c
    let es := s.elemsOf x
    let sz := es.length
    let skip : String × String × Option Nat × SSt := ("skip", "-", some 0, s)
    -- byte-wise relocation of the container object: invisible to the model (no part of its state depends on an address)
    if op == "reloc" then (if s.tr then ("ok", "-", some 0, s) else skip) else
    -- heterogeneous lookups (cmp=transp): the key `Band d` is equivalent to every element v with v / 4 = d.
    -- FlatSet: the libstdc++ halving loops with the mixed comparisons `comp(x, k)` / `comp(k, x)`, as composed by flatset.hpp
    -- (`Gen.FlatSet.*_het`, proved to compute exactly this in Bridge/FlatSetHetBridge.lean); comparator calls are counted
    if op == "hfind" || op == "hhas" || op == "hcnt" || op == "hlb" || op == "hub" then
      let d := nat (rest.headD "0")
      let band := es.filter (fun v => v / 4 == d)
      let lb := lowerBoundBy (fun v => decide (v / 4 < d)) es 0 sz
      let ub := upperBoundBy (fun v => decide (d < v / 4)) es 0 sz
      -- find: lower_bound, then one more call unless it is end()
      let findCalls := if lb.1 == sz then lb.2 else lb.2 + 1
      let cm (k : Nat) : Option Nat := if s.small then none else some k
      match op with
      | "hfind" => ("ok", if band.isEmpty then "end" else "in-band", cm findCalls, s)
      | "hhas" => ("ok", if band.isEmpty then "0" else "1", cm findCalls, s)
      | "hcnt" => ("ok", toString band.length, cm (ub.2 + lb.2), s)
      | "hlb" => if s.small then ("bad-op", "-", none, s) else ("ok", s!"{valAt es lb.1}@{lb.1}", some lb.2, s)
      | _ => if s.small then ("bad-op", "-", none, s) else ("ok", s!"{valAt es ub.1}@{ub.1}", some ub.2, s)
    else
    if s.small then
      -- ------------------------------------------------------------------ SmallSet
      match op, rest with
      | "ins", [v] | "insm", [v] | "emp", [v] =>
        let r := x.insert lt s.n (nat v)
        let es' := s.elemsOf r.1
        -- `emplace` in the inline state appends first and searches the previous elements afterwards
        let calls := if op == "emp" && x.isSmall && x.vec.length ≠ s.n then none else r.2.2.2
        ("ok", s!"{valAt es' r.2.1}:{if r.2.2.1 then 1 else 0}", calls, s.put c r.1)
      | "insh", [_, v] | "emph", [_, v] =>
        let r := x.insert lt s.n (nat v)
        let es' := s.elemsOf r.1
        ("ok", valAt es' r.2.1, none, s.put c r.1)
      | "insr", [vs] | "insl", [vs] => ("ok", "-", none, s.put c (x.insertRange lt s.n (natList vs)))
      | "era", [v] => let r := x.eraseKey lt (nat v); ("ok", toString r.2, none, s.put c r.1)
      | "erap", [p] => if sz == 0 then skip else
          let i := nat p % sz
          let y := x.eraseIdx i
          let es' := s.elemsOf y
          ("ok", if i < es'.length then "elem" else "end", some 0, s.put c y)
      | "erar", [p, q] =>
          let p' := nat p % (sz + 1)
          let q' := p' + nat q % (sz - p' + 1)
          let keep := es.take p' ++ es.drop q'
          let y : SSet Nat := if x.isSmall then ⟨keep, []⟩ else ⟨[], keep⟩
          ("ok", if p' < keep.length then "elem" else "end", some 0, s.put c y)
      | "clr", [] => ("ok", "-", some 0, s.put c ⟨[], []⟩)
      | "find", [v] => let r := x.find lt (nat v); ("ok", (match r.1 with | some i => valAt es i | none => "end"), r.2, s)
      | "has", [v] => let r := x.find lt (nat v); ("ok", (if r.1.isSome then "1" else "0"), r.2, s)
      | "cnt", [v] => let r := x.find lt (nat v); ("ok", (if r.1.isSome then "1" else "0"), r.2, s)
      | "mrg", [d] => if c == nat d then skip else
          let r := x.merge lt s.n (s.get (nat d))
          ("ok", "-", none, (s.put c r.1).put (nat d) r.2)
      | "mrgx", [vs] =>
          -- the source is a SmallSet of another type: comparator type `lt2`, inline capacity N + 2
          let tmp := (natList vs).foldl (fun (t : SSet Nat) v => (t.insert s.lt2 (s.n + 2) v).1) ⟨[], []⟩
          let r := x.merge lt s.n tmp
          ("ok", s!"[{showList r.2.elems}]", none, s.put c r.1)
      | "xfer", [d, v] => if c == nat d then skip else
          let o := s.get (nat d)
          let oes := s.elemsOf o
          match (o.find (s.ltOf (nat d)) (nat v)).1 with
          | none => ("ok", "absent", none, s)
          | some i =>
            let node := oes[i]?.getD 0
            let o' := o.eraseIdx i
            let r := x.insert lt s.n node
            if r.2.2.1 then ("ok", "1:empty", none, (s.put c r.1).put (nat d) o')
            else ("ok", s!"0:{node}", none, (s.put c r.1).put (nat d) (o'.insert (s.ltOf (nat d)) s.n node).1)
      | "extp", [p] => if sz == 0 then skip else
          let i := nat p % sz
          ("ok", valAt es i, some 0, s.put c (x.eraseIdx i))
      | "swp", [d] => if c == nat d then skip else ("ok", "-", some 0, ((s.put c (s.get (nat d))).put (nat d) x).cmpSwap c (nat d))
      | "cpy", [d] => ("ok", "-", some 0, (s.put c (s.get (nat d))).cmpFrom c (nat d))
      | "mov", [d] => if c == nat d then skip else ("ok", "-", some 0, ((s.put c (s.get (nat d))).put (nat d) ⟨[], []⟩).cmpFrom c (nat d))
      | "cmp", [d] =>
          let o := s.get (nat d)
          let oes := s.elemsOf o
          -- `operator==` compares, like std::set, the two sequences each in the order of its own comparator object
          let eq := insertAll lt [] es == insertAll (s.ltOf (nat d)) [] oes
          let l := lexLt (insertAll lt [] es) (insertAll (s.ltOf (nat d)) [] oes)
          ("ok", s!"{if eq then 1 else 0}{if l then 1 else 0}", none, s)
      | "iter", [] => ("ok", s!"{sz}={sz}", some 0, s)
      | "eloop", [k] =>
          let k := max 1 (nat k)
          let keep := es.filter (fun v => v % k != 0)
          let y : SSet Nat := if x.isSmall then ⟨keep, []⟩ else ⟨[], keep⟩
          ("ok", s!"{sz}:{sz - keep.length}", some 0, s.put c y)
      | _, _ => ("bad-op", "-", none, s)
    else
      -- ------------------------------------------------------------------ FlatSet
      let l := x.set
      let putL (l' : List Nat) := s.put c ⟨[], l'⟩
      match op, rest with
      | "ins", [v] | "insm", [v] | "emp", [v] =>
        let r := insertValC lt l (nat v)
        ("ok", s!"{valAt r.1 r.2.1}:{if r.2.2.1 then 1 else 0}", some r.2.2.2, putL r.1)
      | "insh", [h, v] | "emph", [h, v] =>
        let r := insertHintC lt l (nat h % (sz + 1)) (nat v)
        ("ok", valAt r.1 r.2.1, some r.2.2, putL r.1)
      | "insr", [vs] | "insl", [vs] => ("ok", "-", none, putL (insertAll lt l (natList vs)))
      | "era", [v] => let r := eraseKey lt l (nat v); ("ok", toString r.2.1, some r.2.2, putL r.1)
      | "erap", [p] => if sz == 0 then skip else
          let i := nat p % sz
          let l' := l.eraseIdx i
          ("ok", valAt l' i, some 0, putL l')
      | "erar", [p, q] =>
          let p' := nat p % (sz + 1)
          let q' := p' + nat q % (sz - p' + 1)
          let keep := l.take p' ++ l.drop q'
          ("ok", if p' < keep.length then "elem" else "end", some 0, putL keep)
      | "clr", [] => ("ok", "-", some 0, putL [])
      | "find", [v] => let r := findC lt l (nat v); ("ok", (match r.1 with | some i => valAt l i | none => "end"), some r.2, s)
      | "has", [v] => let r := findC lt l (nat v); ("ok", (if r.1.isSome then "1" else "0"), some r.2, s)
      | "cnt", [v] => let r := findC lt l (nat v); ("ok", (if r.1.isSome then "1" else "0"), some r.2, s)
      | "lb", [v] => let r := lowerBound lt l (nat v) 0 sz; ("ok", s!"{valAt l r.1}@{r.1}", some r.2, s)
      | "ub", [v] => let r := upperBound lt l (nat v) 0 sz; ("ok", s!"{valAt l r.1}@{r.1}", some r.2, s)
      | "eqr", [v] =>
          let r := findC lt l (nat v)
          ("ok", (match r.1 with | some i => s!"[{valAt l i};]" | none => "[]"), some r.2, s)
      | "fromv", [vs] | "asgv", [vs] | "rngc", [vs] => ("ok", "-", none, putL (insertAll lt [] (natList vs)))
      | "steal", [] => ("ok", s!"[{showList l}]", some 0, putL [])
      | "mrg", [d] => if c == nat d then skip else
          let r := mergeFrom lt l (s.get (nat d)).set
          ("ok", "-", none, (putL r.1).put (nat d) ⟨[], r.2⟩)
      | "mrgx", [vs] =>
          let r := mergeFrom lt l (insertAll s.lt2 [] (natList vs))
          ("ok", s!"[{showList r.2}]", none, putL r.1)
      | "xfer", [d, v] => if c == nat d then skip else
          let ol := (s.get (nat d)).set
          match (findC (s.ltOf (nat d)) ol (nat v)).1 with
          | none => ("ok", "absent", none, s)
          | some i =>
            let node := ol[i]?.getD 0
            let ol' := ol.eraseIdx i
            let r := insertVal lt l node
            if r.2.2 then ("ok", "1:empty", none, (putL r.1).put (nat d) ⟨[], ol'⟩)
            else ("ok", s!"0:{node}", none, (putL r.1).put (nat d) ⟨[], (insertVal (s.ltOf (nat d)) ol' node).1⟩)
      | "extp", [p] => if sz == 0 then skip else
          let i := nat p % sz
          ("ok", valAt l i, some 0, putL (l.eraseIdx i))
      | "swp", [d] => if c == nat d then skip else ("ok", "-", some 0, ((s.put c (s.get (nat d))).put (nat d) x).cmpSwap c (nat d))
      | "cpy", [d] => ("ok", "-", some 0, (s.put c (s.get (nat d))).cmpFrom c (nat d))
      | "mov", [d] => if c == nat d then skip else ("ok", "-", some 0, ((s.put c (s.get (nat d))).put (nat d) ⟨[], []⟩).cmpFrom c (nat d))
      | "cmp", [d] =>
          let ol := (s.get (nat d)).set
          ("ok", s!"{if l == ol then 1 else 0}{if lexLt l ol then 1 else 0}", some 0, s)
      | "iter", [] => ("ok", s!"{sz}={sz}", some 0, s)
      | "eloop", [k] =>
          let k := max 1 (nat k)
          let keep := l.filter (fun v => v % k != 0)
          ("ok", s!"{sz}:{sz - keep.length}", some 0, putL keep)
      | _, _ => ("bad-op", "-", none, s)
  | _ => ("bad-op", "-", none, s)

partial def setLoop (h : IO.FS.Stream) (out : IO.FS.Stream) (s : SSt) (n : Nat) : IO Unit := do
  let line ← h.getLine
  if line.isEmpty then return ()
  let toks := (line.trimAscii.toString.splitOn " ").filter (· ≠ "")
  if toks.isEmpty then setLoop h out s n else
  let (res, ret, cm, s') := setStep s toks
  let cmStr := match cm with | some k => toString k | none => "-"
  out.putStrLn s!"{n} {res} ret={ret}{showSets s'} | cmps={cmStr}"
  setLoop h out s' (n+1)

end AmcVerif.Driver
