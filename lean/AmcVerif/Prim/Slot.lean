import AmcVerif.Prim.Base
/-! Object-lifetime discipline over slot buffers (hand-written, trusted semantics; validated against the real
containers by the correspondence check).

A buffer is a list of slots. A slot is `raw` (no object), `live v` (an object holding `v`) or `hollow` (an object
that is alive but moved-from). Every element-level primitive checks the lifetime precondition of the C++ operation
it models and raises a `Fault` when it is violated; a fault therefore means undefined behaviour, a double destroy,
a leak-by-overwrite, a read of a moved-from element, a self-move-assignment or a byte-wise move of a type that does
not allow it. Throwing operations (element copy construction / copy assignment / value initialisation, allocator
calls) consume one unit of `fuel`; when the fuel reaches zero the operation throws instead. -/
namespace AmcVerif

inductive Slot (α : Type) where
  | raw
  | live (v : α)
  | hollow
deriving DecidableEq, Repr, Inhabited

/-- element category: trivially copyable; declared trivially relocatable (not trivially copyable); neither -/
inductive Cat where
  | tc | tr | ntr
deriving DecidableEq, Repr, Inhabited

inductive Fault where
  | constructOnAlive | destroyDead | readDead | readHollow | assignToDead | selfMoveAssign | bitwiseNTR
  | oob | badDealloc | badRealloc | clobber | useAfterFree | precond
deriving DecidableEq, Repr, Inhabited

inductive Stop where
  | exc (e : Exc)
  | fault (f : Fault)
deriving DecidableEq, Repr, Inhabited

/-- memory regions: the inline storage of pool container `c`, a heap block, the stack temporary of `emplace` -/
inductive Region where
  | inl (c : Nat)
  | blk (id : Nat)
  | tmp
deriving DecidableEq, Repr, Inhabited

structure Addr where
  r : Region
  i : Nat
deriving DecidableEq, Repr, Inhabited

def Addr.add (a : Addr) (k : Nat) : Addr := ⟨a.r, a.i + k⟩

structure Block (α : Type) where
  id : Nat
  count : Nat
  buf : List (Slot α)
deriving Repr

/-- element and allocator event counters -/
structure Ev where
  cc : Nat := 0   -- copy constructions
  mc : Nat := 0   -- move constructions
  ca : Nat := 0   -- copy assignments
  ma : Nat := 0   -- move assignments
  dt : Nat := 0   -- destructions
  vi : Nat := 0   -- value initialisations
  br : Nat := 0   -- objects moved byte-wise
  al : Nat := 0   -- allocate calls
  de : Nat := 0   -- deallocate calls
  re : Nat := 0   -- reallocate calls
deriving Repr, DecidableEq, Inhabited

structure Mem (α : Type) where
  /-- size/capacity/pointer words of each pool container -/
  ws : List VB := []
  inls : List (List (Slot α))
  blocks : List (Block α)
  tmp : Slot α := .raw
  nextId : Nat := 1
  fuel : Option Nat := none
  ev : Ev := {}
  cat : Cat := .tc
  hasRealloc : Bool := true
deriving Repr

abbrev M (α : Type) := ExceptT Stop (StateM (Mem α))

variable {α : Type}

def fault (f : Fault) : M α β := throw (.fault f)
def raise (e : Exc) : M α β := throw (.exc e)

/-- one throwing event: throws `e` when the fuel runs out -/
def tick (e : Exc) : M α Unit := do
  let m ← get
  match m.fuel with
  | none => pure ()
  | some 0 => pure ()
  | some 1 => set { m with fuel := some 0 }; raise e
  | some (k+2) => set { m with fuel := some (k+1) }

def isTC : M α Bool := do return (← get).cat == .tc

def bumpEv (f : Ev → Ev) : M α Unit := modify fun m => { m with ev := f m.ev }

def getBuf (r : Region) : M α (List (Slot α)) := do
  let m ← get
  match r with
  | .inl c => match m.inls[c]? with
    | some b => pure b
    | none => fault .oob
  | .blk id => match m.blocks.find? (·.id == id) with
    | some b => pure b.buf
    | none => fault .useAfterFree
  | .tmp => pure [m.tmp]

def putBuf (r : Region) (b : List (Slot α)) : M α Unit := do
  let m ← get
  match r with
  | .inl c => set { m with inls := m.inls.set c b }
  | .blk id => set { m with blocks := m.blocks.map fun (bl : Block α) => if bl.id == id then { bl with buf := b } else bl }
  | .tmp => set { m with tmp := b.headD .raw }

def rd (a : Addr) : M α (Slot α) := do
  let b ← getBuf a.r
  match b[a.i]? with
  | some s => pure s
  | none => fault .oob

def wr (a : Addr) (s : Slot α) : M α Unit := do
  let b ← getBuf a.r
  if a.i < b.length then putBuf a.r (b.set a.i s) else fault .oob

/-- read the value of a live, not moved-from object -/
def readLive (a : Addr) : M α α := do
  match ← rd a with
  | .live v => pure v
  | .hollow => if ← isTC then fault .readDead else fault .readHollow
  | .raw => fault .readDead

def requireRaw (a : Addr) : M α Unit := do
  match ← rd a with
  | .raw => pure ()
  | _ => if ← isTC then pure () else fault .constructOnAlive

def requireAlive (a : Addr) (f : Fault) : M α Unit := do
  match ← rd a with
  | .raw => if ← isTC then pure () else fault f
  | _ => pure ()

/-- what a moved-from source looks like afterwards -/
def movedFrom (v : α) : M α (Slot α) := do
  if ← isTC then pure (.live v) else pure .hollow

/-- `construct_at(a, v)` with a copy of `v` (may throw) -/
def constructCopy (a : Addr) (v : α) : M α Unit := do
  requireRaw a
  tick .elem
  wr a (.live v)
  bumpEv fun e => { e with cc := e.cc + 1 }

/-- `construct_at(a)`: value initialisation (may throw) -/
def constructValue [Inhabited α] (a : Addr) : M α Unit := do
  requireRaw a
  tick .elem
  wr a (.live default)
  bumpEv fun e => { e with vi := e.vi + 1 }

/-- `construct_at(dst, std::move(*src))` -/
def constructMove (dst src : Addr) : M α Unit := do
  let v ← readLive src
  requireRaw dst
  wr dst (.live v)
  wr src (← movedFrom v)
  bumpEv fun e => { e with mc := e.mc + 1 }

/-- `construct_at(dst, std::move(v))` where `v` is an object outside the model (an rvalue argument) -/
def constructFromRvalue (dst : Addr) (v : α) : M α Unit := do
  requireRaw dst
  wr dst (.live v)
  bumpEv fun e => { e with mc := e.mc + 1 }

def destroyAt (a : Addr) : M α Unit := do
  requireAlive a .destroyDead
  wr a .raw
  bumpEv fun e => { e with dt := e.dt + 1 }

/-- `*a = v` (copy assignment, may throw) -/
def assignCopy (a : Addr) (v : α) : M α Unit := do
  requireAlive a .assignToDead
  tick .elem
  wr a (.live v)
  bumpEv fun e => { e with ca := e.ca + 1 }

/-- `*dst = std::move(*src)` -/
def assignMove (dst src : Addr) : M α Unit := do
  if dst == src then
    if ← isTC then pure () else fault .selfMoveAssign
  else
    let v ← readLive src
    requireAlive dst .assignToDead
    wr dst (.live v)
    wr src (← movedFrom v)
    bumpEv fun e => { e with ma := e.ma + 1 }

def assignFromRvalue (dst : Addr) (v : α) : M α Unit := do
  requireAlive dst .assignToDead
  wr dst (.live v)
  bumpEv fun e => { e with ma := e.ma + 1 }

/-- read `n` consecutive live values -/
def readLiveN (a : Addr) : Nat → M α (List α)
  | 0 => pure []
  | n+1 => do
    let v ← readLive a
    let vs ← readLiveN (a.add 1) n
    pure (v :: vs)

def setRawN (a : Addr) : Nat → M α Unit
  | 0 => pure ()
  | n+1 => do wr a .raw; setRawN (a.add 1) n

def writeLiveRaw (a : Addr) : List α → M α Unit
  | [] => pure ()
  | v :: vs => do requireRaw a; wr a (.live v); writeLiveRaw (a.add 1) vs

/-- `memmove` of `n` objects (overlap allowed): only legal for byte-wise relocatable categories -/
def relocBitwise (src : Addr) (n : Nat) (dst : Addr) : M α Unit := do
  if n = 0 then pure () else
  if (← get).cat == .ntr then fault .bitwiseNTR
  let vs ← readLiveN src n
  setRawN src n
  writeLiveRaw dst vs
  bumpEv fun e => { e with br := e.br + n }

def destroyN (a : Addr) : Nat → M α Unit
  | 0 => pure ()
  | n+1 => do destroyAt a; destroyN (a.add 1) n

/-- `std::uninitialized_fill_n`: destroys what it built when a copy throws -/
def uninitFillN (a : Addr) (n : Nat) (v : α) : M α Unit :=
  go a n 0
where
  go (p : Addr) : Nat → Nat → M α Unit
    | 0, _ => pure ()
    | k+1, done => do
      tryCatch (constructCopy p v) fun s => do
        match s with
        | .exc _ => destroyN a done
        | .fault _ => pure ()
        throw s
      go (p.add 1) k (done + 1)

/-- `std::uninitialized_copy(_n)` from a list of values -/
def uninitCopyN (a : Addr) (vs : List α) : M α Unit :=
  go a vs 0
where
  go (p : Addr) : List α → Nat → M α Unit
    | [], _ => pure ()
    | v :: vs, done => do
      tryCatch (constructCopy p v) fun s => do
        match s with
        | .exc _ => destroyN a done
        | .fault _ => pure ()
        throw s
      go (p.add 1) vs (done + 1)

def uninitValueN [Inhabited α] (a : Addr) (n : Nat) : M α Unit :=
  go a n 0
where
  go (p : Addr) : Nat → Nat → M α Unit
    | 0, _ => pure ()
    | k+1, done => do
      tryCatch (constructValue p) fun s => do
        match s with
        | .exc _ => destroyN a done
        | .fault _ => pure ()
        throw s
      go (p.add 1) k (done + 1)

/-- `std::fill_n` (copy assignment; no clean-up) -/
def fillN (a : Addr) : Nat → α → M α Unit
  | 0, _ => pure ()
  | n+1, v => do assignCopy a v; fillN (a.add 1) n v

/-- `std::copy(_n)` from a list of values -/
def copyN (a : Addr) : List α → M α Unit
  | [] => pure ()
  | v :: vs => do assignCopy a v; copyN (a.add 1) vs

/-- `amc::uninitialized_move_n(src, n, dst)` -/
def uninitMoveN (src : Addr) : Nat → Addr → M α Unit
  | 0, _ => pure ()
  | n+1, dst => do constructMove dst src; uninitMoveN (src.add 1) n (dst.add 1)

/-- `std::move(first, first+n, d)` (forward) -/
def moveFwd (src : Addr) : Nat → Addr → M α Unit
  | 0, _ => pure ()
  | n+1, dst => do assignMove dst src; moveFwd (src.add 1) n (dst.add 1)

/-- `std::move_backward(first, first+n, dlast)` where `dlast = dstFirst + n` -/
def moveBwd (src : Addr) : Nat → Addr → M α Unit
  | 0, _ => pure ()
  | n+1, dst => do assignMove (dst.add n) (src.add n); moveBwd src n dst

/-- `amc::uninitialized_relocate_n`: memmove when the category allows it, else move-construct + destroy -/
def uninitRelocN (src : Addr) (n : Nat) (dst : Addr) : M α Unit := do
  if (← get).cat == .ntr then
    uninitMoveN src n dst
    destroyN src n
  else
    relocBitwise src n dst

/-- `amc::relocate_at(src, dst)` -/
def relocateAt (src dst : Addr) : M α Unit := uninitRelocN src 1 dst

/-- `std::swap(*a, *b)` for a non-trivial type: one move construction, two move assignments, one destruction -/
def swapElem (a b : Addr) : M α Unit := do
  let va ← readLive a
  let vb ← readLive b
  wr a (.live vb)
  wr b (.live va)
  if ← isTC then pure () else
    bumpEv fun e => { e with mc := e.mc + 1, ma := e.ma + 2, dt := e.dt + 1 }

def swapRanges (a : Addr) : Nat → Addr → M α Unit
  | 0, _ => pure ()
  | n+1, b => do swapElem a b; swapRanges (a.add 1) n (b.add 1)

/- ---------------------------------------------------------------------------------------------------------
   allocator
   --------------------------------------------------------------------------------------------------------- -/

def rawBuf (n : Nat) : List (Slot α) := List.replicate n .raw

def allocBlock (n : Nat) (id : Nat) : M α Unit := do
  bumpEv fun e => { e with al := e.al + 1 }      -- the call is counted even when it throws
  tick .badAlloc
  modify fun m => { m with blocks := ⟨id, n, rawBuf n⟩ :: m.blocks }

def findBlock (id : Nat) : M α (Option (Block α)) := do
  return (← get).blocks.find? (·.id == id)

def deallocBlock (p : PtrV) (n : Nat) : M α Unit := do
  match p with
  | .blk id =>
    match ← findBlock id with
    | some b =>
      if b.count ≠ n then fault .badDealloc
      -- a block must not be returned while it still holds objects
      if (← isTC) || b.buf.all (fun s => match s with | .raw => true | _ => false) then
        modify fun m => { m with blocks := m.blocks.filter (·.id != id), ev := { m.ev with de := m.ev.de + 1 } }
      else fault .badDealloc
    | none => fault .badDealloc
  | .null =>
    -- `deallocate(nullptr, 0)` is tolerated (heap state with a null buffer of capacity 0 after swap2)
    if n = 0 then bumpEv fun e => { e with de := e.de + 1 } else fault .badDealloc
  | .inl _ => fault .badDealloc

end AmcVerif
